// C20 harness: percentile / median (stats.h), histogram_t (histogram.h) and ml::store_stats on the real
// library.  For every generated list it prints what the implementation computed (one line per operation,
// doubles as C hex-floats) so that the extracted Coq model can recompute it bit for bit, and it applies the
// property's own oracle (sorted-array reference with *exact integer* position arithmetic, counting rule for
// the bins) directly to the implementation: FAIL lines carry a shrunk, self-contained input.
// Usage: c20_stats <quick|thorough> ; everything random derives from VERIF_SEED.
//        c20_stats pct <p> <v1,v2,...>             (replay of one percentile case)
//        c20_stats hist <t1,t2,..> <v1,v2,..> <q1,q2,..>   (replay of one histogram case)
#include "common.h"
#include <nano/core/histogram.h>
#include <nano/core/stats.h>
#ifndef C20_HEADER_ONLY
#include <nano/machine/stats.h>
#endif
#include <algorithm>
#include <functional>
#include <iterator>
#include <limits>

using namespace nano;
using dvec = std::vector<double>;

static long g_fail = 0, g_lines = 0, g_cases = 0;
#ifdef C20_HEADER_ONLY
// header-only build (ASan+UBSan): the two functions that live in the compiled libraries are not linked
static constexpr bool lib_available = false;
namespace nano
{
tensor_mem_t<scalar_t, 1> make_equidistant_percentiles(tensor_size_t) { return {}; }
tensor_mem_t<scalar_t, 1> make_equidistant_ratios(tensor_size_t) { return {}; }
} // namespace nano
#else
static constexpr bool lib_available = true;
#endif

static std::string hl(const dvec& v)
{
    std::string o;
    for (size_t i = 0; i < v.size(); ++i)
    {
        if (i) o += ",";
        o += vh::hexf(v[i]);
    }
    return o;
}
template <class tt>
static dvec to_dvec(const tt& t)
{
    dvec o;
    for (tensor_size_t i = 0; i < t.size(); ++i) o.push_back(static_cast<double>(t(i)));
    return o;
}
static std::string il(const std::vector<int64_t>& v) { return vh::join(v.begin(), v.end()); }
static bool same(double a, double b) { return (std::isnan(a) && std::isnan(b)) || (a == b && std::signbit(a) == std::signbit(b)); }
static dvec parse_list(const std::string& s)
{
    dvec o;
    if (s.empty() || s == "-") return o;
    for (const auto& t : vh::split(s, ',')) o.push_back(vh::parsef(t));
    return o;
}

// ----------------------------------------------------------------------------------------------------------
// the property's oracle, independent of the library and of the Coq model
// ----------------------------------------------------------------------------------------------------------
// p = K / 2^20 exactly?  (then the position K*(n-1) / (100*2^20) is computed in exact integer arithmetic)
static bool dyadic20(double p, int64_t& K)
{
    const double x = p * 1048576.0;
    if (!(x >= 0.0) || x > 1.0e9 || x != std::floor(x)) return false;
    K = static_cast<int64_t>(x);
    return true;
}
static void exact_pos(int64_t K, int64_t n, int64_t& l, int64_t& r)
{
    const __int128 num = static_cast<__int128>(K) * (n - 1);
    const __int128 den = static_cast<__int128>(100) * 1048576;
    l                  = static_cast<int64_t>(num / den);
    r                  = l + ((num % den) != 0 ? 1 : 0);
}
// the midpoint of two neighbours: (a + b) / 2 rounded once; when a + b overflows the exact midpoint is obtained by adding
// the quarters (exact scalings: both operands are then huge) and doubling -- a different expression than the library's
static double ref_mid(double a, double b)
{
    const double s = a + b;
    if (std::isfinite(s) || !std::isfinite(a) || !std::isfinite(b)) return s / 2;
    return std::ldexp(std::ldexp(a, -2) + std::ldexp(b, -2), 1);
}
static double ref_at(const dvec& s, int64_t l, int64_t r) { return l == r ? s[static_cast<size_t>(l)] : ref_mid(s[static_cast<size_t>(l)], s[static_cast<size_t>(r)]); }

// reference percentile of a sorted copy; exact on the dyadic grid, otherwise the candidates that the exact
// position and the position rounded to an integer within 1e-9 allow
static bool pct_matches(const dvec& sorted, double p, double got, bool& exact_rule)
{
    const auto n = static_cast<int64_t>(sorted.size());
    int64_t    K = 0, l = 0, r = 0;
    if (dyadic20(p, K))
    {
        exact_rule = true;
        exact_pos(K, n, l, r);
        return same(got, ref_at(sorted, l, r));
    }
    exact_rule             = false;
    const long double pos  = static_cast<long double>(p) * static_cast<long double>(n - 1) / 100.0L;
    const long double fl   = std::floor(pos), ce = std::ceil(pos), rn = std::round(pos);
    const auto        li   = static_cast<int64_t>(fl), ri = static_cast<int64_t>(ce), ni = static_cast<int64_t>(rn);
    if (li >= 0 && ri < n && same(got, ref_at(sorted, li, ri))) return true;
    if (std::fabs(static_cast<double>(pos - rn)) < 1e-9 && ni >= 0 && ni < n)
    {
        // the exact position is within 1e-9 of the integer ni: binary64 rounding may land on it or on either side
        if (same(got, ref_at(sorted, ni, ni))) return true;
        if (ni >= 1 && same(got, ref_at(sorted, ni - 1, ni))) return true;
        if (ni + 1 < n && same(got, ref_at(sorted, ni, ni + 1))) return true;
    }
    return false;
}

template <class T>
static std::vector<T> conv(const dvec& v)
{
    std::vector<T> o;
    o.reserve(v.size());
    for (double x : v) o.push_back(static_cast<T>(x));
    return o;
}

struct pct_result
{
    double  unsorted = 0, sorted = 0;
    int64_t lpos = -1, rpos = -1;
};

template <class T>
static pct_result run_pct(const dvec& vals, double p)
{
    pct_result res;
    auto       a = conv<T>(vals);
    res.unsorted = nano::percentile(a.begin(), a.end(), p);
    auto b       = conv<T>(vals);
    std::sort(b.begin(), b.end());
    res.sorted = nano::percentile_sorted(b.begin(), b.end(), p);
    // the positions the library's rule selects, observed through its own callback interface
    std::vector<int64_t> seen;
    (void)nano::detail::percentile(b.begin(), b.end(), p,
                                   [&](auto pos)
                                   {
                                       seen.push_back(static_cast<int64_t>(pos));
                                       return 0.0;
                                   });
    res.lpos = seen.empty() ? -1 : seen.front();
    res.rpos = seen.empty() ? -1 : seen.back();
    return res;
}

// returns a description of the violation or "" ; used for the search and for shrinking
template <class T>
static std::string pct_violation(const dvec& vals, double p)
{
    if (vals.empty()) return "";
    const auto res = run_pct<T>(vals, p);
    dvec       s   = vals;
    std::sort(s.begin(), s.end());
    bool exact = false;
    if (!pct_matches(s, p, res.unsorted, exact)) return std::string("percentile(unsorted) = ") + vh::hexf(res.unsorted) + (exact ? " [exact rule]" : " [tolerant rule]");
    if (!pct_matches(s, p, res.sorted, exact)) return std::string("percentile_sorted = ") + vh::hexf(res.sorted) + (exact ? " [exact rule]" : " [tolerant rule]");
    if (p == 50.0)
    {
        auto         a  = conv<T>(vals);
        const double m  = nano::median(a.begin(), a.end());
        auto         b  = conv<T>(s);
        const double ms = nano::median_sorted(b.begin(), b.end());
        const auto   n  = static_cast<int64_t>(s.size());
        const double e  = ref_at(s, (n - 1) / 2, n / 2);
        if (!same(m, e)) return std::string("median = ") + vh::hexf(m);
        if (!same(ms, e)) return std::string("median_sorted = ") + vh::hexf(ms);
    }
    return "";
}

template <class F>
static void shrink_list(dvec& v, size_t min_size, long& budget, F&& still_fails)
{
    bool progress = true;
    while (progress && budget > 0)
    {
        progress = false;
        // halves first, then single elements
        for (size_t chunk = std::max<size_t>(v.size() / 2, 1); chunk >= 1 && budget > 0; chunk /= 2)
        {
            for (size_t i = 0; i + chunk <= v.size() && v.size() - chunk >= min_size && budget > 0;)
            {
                dvec w(v.begin(), v.begin() + static_cast<long>(i));
                w.insert(w.end(), v.begin() + static_cast<long>(i + chunk), v.end());
                --budget;
                if (still_fails(w))
                {
                    v        = w;
                    progress = true;
                }
                else
                {
                    i += chunk;
                }
            }
            if (chunk == 1) break;
        }
    }
}

// ----------------------------------------------------------------------------------------------------------
// histograms
// ----------------------------------------------------------------------------------------------------------
enum class hkind
{
    thresholds,
    ratios,
    percentiles,
    exponents
};

template <class T>
static histogram_t make_hist(hkind kind, const dvec& vals, const dvec& param)
{
    auto                      a = conv<T>(vals);
    tensor_mem_t<scalar_t, 1> t(static_cast<tensor_size_t>(param.size()));
    for (size_t i = 0; i < param.size(); ++i) t(static_cast<tensor_size_t>(i)) = param[i];
    switch (kind)
    {
    case hkind::thresholds: return histogram_t::make_from_thresholds(a.begin(), a.end(), t);
    case hkind::ratios: return histogram_t::make_from_ratios(a.begin(), a.end(), t);
    case hkind::percentiles: return histogram_t::make_from_percentiles(a.begin(), a.end(), t);
    default: return histogram_t::make_from_exponents(a.begin(), a.end(), param[0]);
    }
}

static int64_t rule_bin(const dvec& st, double v)
{
    // the counting rule: a value lies right of every threshold it is >= to
    return static_cast<int64_t>(std::count_if(st.begin(), st.end(), [&](double t) { return t <= v; }));
}

template <class T>
static std::string hist_violation(hkind kind, const dvec& vals, const dvec& param, const dvec& queries)
{
    const auto h  = make_hist<T>(kind, vals, param);
    const dvec st = to_dvec(h.thresholds());
    const auto nb = static_cast<int64_t>(st.size()) + 1;
    if (h.bins() != nb || h.counts().size() != nb || h.means().size() != nb || h.medians().size() != nb) return "bins() != thresholds + 1";
    if (!std::is_sorted(st.begin(), st.end())) return "thresholds() not sorted";
    dvec s = vals;
    std::sort(s.begin(), s.end());
    if (kind == hkind::thresholds)
    {
        dvec e = param;
        std::sort(e.begin(), e.end());
        if (e.size() != st.size()) return "thresholds() lost or gained entries";
        for (size_t i = 0; i < e.size(); ++i)
            if (!same(e[i], st[i])) return "thresholds() is not the sorted input";
    }
    else if (kind == hkind::ratios)
    {
        dvec r = param;
        std::sort(r.begin(), r.end());
        if (r.size() != st.size()) return "ratios: wrong number of thresholds";
        const double mn = s.front(), mx = s.back(), tol = 1e-12 * (std::fabs(mn) + std::fabs(mx) + 1.0);
        for (size_t i = 0; i < r.size(); ++i)
            if (!(std::fabs(st[i] - (mn + r[i] * (mx - mn))) <= tol)) return "ratios: threshold is not min + ratio * (max - min)";
    }
    else if (kind == hkind::percentiles)
    {
        dvec ps = param;
        std::sort(ps.begin(), ps.end());
        if (ps.size() != st.size()) return "percentiles: wrong number of thresholds";
        for (size_t i = 0; i < ps.size(); ++i)
        {
            bool exact = false;
            if (!pct_matches(s, ps[i], st[i], exact)) return "percentiles: threshold is not the percentile of the values";
        }
    }
    // partition: every value is counted once, in the bin the rule gives it
    std::vector<dvec> members(static_cast<size_t>(nb));
    for (double v : s) members[static_cast<size_t>(rule_bin(st, v))].push_back(v);
    int64_t total = 0;
    for (int64_t b = 0; b < nb; ++b)
    {
        const auto& m = members[static_cast<size_t>(b)];
        total += h.count(b);
        if (h.count(b) != static_cast<int64_t>(m.size())) return "count of bin " + std::to_string(b) + " is " + std::to_string(h.count(b)) + ", rule: " + std::to_string(m.size());
        double emean = std::numeric_limits<double>::quiet_NaN(), emed = emean;
        if (!m.empty())
        {
            double acc = 0.0;
            for (double v : m) acc += v;
            emean        = acc / static_cast<double>(m.size());
            const auto n = static_cast<int64_t>(m.size());
            emed         = ref_at(m, (n - 1) / 2, n / 2);
        }
        if (!same(h.mean(b), emean)) return "mean of bin " + std::to_string(b) + " is " + vh::hexf(h.mean(b)) + ", rule: " + vh::hexf(emean);
        if (!same(h.median(b), emed)) return "median of bin " + std::to_string(b) + " is " + vh::hexf(h.median(b)) + ", rule: " + vh::hexf(emed);
    }
    if (total != static_cast<int64_t>(vals.size())) return "counts do not sum to the number of values";
    for (double q : queries)
    {
        const auto e = rule_bin(st, q);
        const auto g = static_cast<int64_t>(h.bin(q));
        if (g != e) return "bin(" + vh::hexf(q) + ") = " + std::to_string(g) + ", counting rule: " + std::to_string(e);
        if (q == std::floor(q) && std::fabs(q) < 1e9)
        {
            const auto gi = static_cast<int64_t>(h.bin(static_cast<int>(q)));
            const auto gl = static_cast<int64_t>(h.bin(static_cast<int64_t>(q)));
            if (gi != e || gl != e) return "bin(int " + vh::hexf(q) + ") = " + std::to_string(gi) + ", counting rule: " + std::to_string(e);
        }
        if (static_cast<double>(static_cast<float>(q)) == q)
        {
            const auto gf = static_cast<int64_t>(h.bin(static_cast<float>(q)));
            if (gf != e) return "bin(float " + vh::hexf(q) + ") = " + std::to_string(gf) + ", counting rule: " + std::to_string(e);
        }
    }
    // the data values themselves: bin(v) must be the bin v was counted in
    for (double v : s)
        if (static_cast<int64_t>(h.bin(v)) != rule_bin(st, v)) return "bin(data value " + vh::hexf(v) + ") differs from the bin it was counted in";
    return "";
}

static const char* kname(hkind k)
{
    switch (k)
    {
    case hkind::thresholds: return "HIST";
    case hkind::ratios: return "HISTR";
    case hkind::percentiles: return "HISTP";
    default: return "HISTE";
    }
}

template <class T>
static void hist_case(hkind kind, const dvec& vals, const dvec& param, const dvec& queries, const char* tname)
{
    const auto h  = make_hist<T>(kind, vals, param);
    const dvec st = to_dvec(h.thresholds());
    std::vector<int64_t> counts;
    for (tensor_size_t b = 0; b < h.bins(); ++b) counts.push_back(h.count(b));
    std::printf("%s %s = %s ; %s ; %s ; %s\n", kname(kind), hl(param).c_str(), hl(st).c_str(), il(counts).c_str(),
                hl(to_dvec(h.means())).c_str(), hl(to_dvec(h.medians())).c_str());
    ++g_lines;
    if (!queries.empty())
    {
        std::vector<int64_t> bins;
        for (double q : queries) bins.push_back(static_cast<int64_t>(h.bin(q)));
        std::printf("BIN %s | %s = %s\n", hl(st).c_str(), hl(queries).c_str(), il(bins).c_str());
        ++g_lines;
    }
    auto why = hist_violation<T>(kind, vals, param, queries);
    if (!why.empty())
    {
        dvec v = vals, p = param, q = queries;
        long budget = 4000;
        // extreme queries first: the greedy shrinker drops leading elements first, so a moderate witness survives
        std::stable_sort(q.begin(), q.end(), [](double a, double b) { return std::fabs(a) > std::fabs(b); });
        if (kind == hkind::thresholds)
        {
            shrink_list(q, 0, budget, [&](const dvec& w) { return !hist_violation<T>(kind, v, p, w).empty(); });
            shrink_list(v, 0, budget, [&](const dvec& w) { return !hist_violation<T>(kind, w, p, q).empty(); });
            shrink_list(p, 1, budget, [&](const dvec& w) { return !hist_violation<T>(kind, v, w, q).empty(); });
        }
        else
        {
            shrink_list(q, 0, budget, [&](const dvec& w) { return !hist_violation<T>(kind, v, p, w).empty(); });
            shrink_list(v, 1, budget, [&](const dvec& w) { return !hist_violation<T>(kind, w, p, q).empty(); });
        }
        why = hist_violation<T>(kind, v, p, q);
        std::printf("FAIL %s type=%s param=%s values=%s queries=%s :: %s\n", kname(kind), tname, hl(p).c_str(), hl(v).c_str(),
                    hl(q).c_str(), why.c_str());
        ++g_fail;
    }
}

// ----------------------------------------------------------------------------------------------------------
// generators
// ----------------------------------------------------------------------------------------------------------
struct gen_t
{
    vh::rng_t rng;
    explicit gen_t(uint64_t seed) : rng(seed) {}

    int64_t pick_size()
    {
        const auto u = rng.range(0, 99);
        // sizes whose n-1 divides 100 * 2^k: many grid percentages then hit a position that is exactly an integer
        // (the lpos == rpos branch, where a rounding slip in the position arithmetic shows)
        static const int64_t nice[] = {4, 5, 8, 10, 16, 20, 25, 32, 40, 50, 64, 80, 100, 100, 125, 128, 160, 200, 200, 250, 256, 320, 400, 400};
        if (rng.range(0, 3) == 0) return nice[rng.range(0, 23)] + 1;
        if (u < 8) return rng.range(1, 3);
        if (u < 45) return rng.range(1, 12);
        if (u < 80) return rng.range(13, 60);
        if (u < 95) return rng.range(61, 200);
        return rng.range(201, 500);
    }

    // dyadic values k / 2^s with ties and negative values; s = 0 gives integers
    dvec values(int64_t n, int& s_out)
    {
        static const int64_t ranges[] = {1, 2, 5, 20, 300, 5000, 1 << 20};
        const int            s        = static_cast<int>(rng.range(0, 4)) * (rng.range(0, 2) ? 1 : 0);
        const int64_t        R        = ranges[rng.range(0, 6)];
        const int64_t        unit     = int64_t(1) << s;
        int64_t              lo       = 0;
        switch (rng.range(0, 4))
        {
        case 0: lo = -R * unit; break;
        case 1: lo = -R * unit / 2; break;
        case 2: lo = 0; break;
        case 3: lo = -3 * R * unit; break;
        default: lo = -R * unit + 1; break;
        }
        dvec v;
        const auto shape = rng.range(0, 9);
        for (int64_t i = 0; i < n; ++i)
        {
            int64_t k = lo + rng.range(0, 2 * R * unit);
            if (shape == 0 && i > 0 && rng.range(0, 2) == 0) k = static_cast<int64_t>(v[static_cast<size_t>(rng.range(0, i - 1))] * static_cast<double>(unit)); // extra ties
            if (shape == 1) k = lo + (rng.range(0, 1) ? 0 : 2 * R * unit);                                                                                         // two clusters
            if (shape == 2 && i > 0) k = static_cast<int64_t>(v[0] * static_cast<double>(unit));                                                                  // constant list
            v.push_back(static_cast<double>(k) / static_cast<double>(unit));
        }
        if (shape == 3) std::sort(v.begin(), v.end());
        if (shape == 4) std::sort(v.begin(), v.end(), std::greater<double>());
        s_out = s;
        return v;
    }

    dvec percentages(int64_t n)
    {
        dvec       ps  = {0.0, 100.0, 50.0};
        const auto g16 = [&]() { return static_cast<double>(rng.range(0, 1600)) / 16.0; };
        for (int i = 0; i < 3; ++i) ps.push_back(g16());
        static const double st[] = {1, 5, 10, 20, 25, 75, 80, 90, 95, 99};
        ps.push_back(st[rng.range(0, 9)]);
        if (n > 1)
        {
            // aimed at the lpos == rpos split: positions that are exactly an integer, and their grid neighbours
            double q = 0.0;
            for (int attempt = 0; attempt < 6; ++attempt)
            {
                const auto j = rng.range(0, n - 1);
                q            = 100.0 * static_cast<double>(j) / static_cast<double>(n - 1);
                int64_t K    = 0;
                if (dyadic20(q, K) && (static_cast<__int128>(K) * (n - 1)) % (static_cast<__int128>(100) << 20) == 0) ps.push_back(q);
            }
            const double f = std::floor(q * 16.0) / 16.0, c = std::ceil(q * 16.0) / 16.0;
            ps.push_back(f);
            ps.push_back(c);
            if (f >= 0.0625) ps.push_back(f - 0.0625);
            if (c <= 100.0 - 0.0625) ps.push_back(c + 0.0625);
            ps.push_back(std::min(100.0, static_cast<double>(rng.range(0, 102400)) / 1024.0));
        }
        // outside the dyadic grid (tolerant oracle, exact model): decimal grids, arbitrary doubles, extremes
        ps.push_back(static_cast<double>(rng.range(0, 1000)) / 10.0);
        ps.push_back(static_cast<double>(rng.range(0, 10000)) / 100.0);
        ps.push_back(100.0 * rng.unit());
        if (rng.range(0, 7) == 0) ps.push_back(std::nextafter(100.0, 0.0));
        if (rng.range(0, 7) == 0) ps.push_back(std::numeric_limits<double>::denorm_min());
        if (rng.range(0, 7) == 0) ps.push_back(std::ldexp(1.0, -static_cast<int>(rng.range(1, 60))));
        return ps;
    }

    dvec thresholds(const dvec& vals, int s)
    {
        dvec sv = vals;
        std::sort(sv.begin(), sv.end());
        const double mn = sv.front(), mx = sv.back(), half = std::ldexp(1.0, -(s + 1));
        const auto   nt = rng.range(0, 9) == 0 ? rng.range(10, 20) : rng.range(1, 6);
        dvec         t;
        for (int64_t i = 0; i < nt; ++i)
        {
            const double d = sv[static_cast<size_t>(rng.range(0, static_cast<int64_t>(sv.size()) - 1))];
            switch (rng.range(0, 9))
            {
            case 0: t.push_back(d); break;                                                    // on a data value
            case 1: t.push_back(d + half); break;                                             // between grid points
            case 2: t.push_back(d - half); break;
            case 3: t.push_back(mn - static_cast<double>(rng.range(0, 3)) - half); break;      // at/below the range
            case 4: t.push_back(mx + static_cast<double>(rng.range(0, 3)) + (rng.range(0, 1) ? half : 0.0)); break; // at/above
            case 5:
                if (!t.empty()) { t.push_back(t[static_cast<size_t>(rng.range(0, static_cast<int64_t>(t.size()) - 1))]); break; } // duplicate
                t.push_back(d);
                break;
            case 6: t.push_back(std::nextafter(d, rng.range(0, 1) ? 1e300 : -1e300)); break;  // one ulp off a data value
            case 7: t.push_back(mn + (mx - mn) * static_cast<double>(rng.range(0, 64)) / 64.0); break;
            case 8: t.push_back(d + 0.7); break;
            default: t.push_back(std::floor(d) + static_cast<double>(rng.range(-2, 2))); break; // integer threshold
            }
        }
        return t;
    }

    dvec queries(const dvec& thr, const dvec& vals)
    {
        dvec st = thr;
        std::sort(st.begin(), st.end());
        dvec q;
        for (size_t i = 0; i < st.size(); ++i)
        {
            const double t = st[i];
            q.push_back(t);
            q.push_back(std::nextafter(t, 1e300));
            q.push_back(std::nextafter(t, -1e300));
            if (i + 1 < st.size()) q.push_back(t + (st[i + 1] - t) / 2);
            if (st.size() <= 8 || rng.range(0, 2) == 0)
            {
                static const double off[] = {0.5, -0.5, 0.25, -0.25, 0.7, -0.3, 0.96875, -0.96875, 1.0, -1.0};
                q.push_back(t + off[rng.range(0, 9)]);
                q.push_back(std::floor(t) + off[rng.range(0, 9)]);
                q.push_back(std::ceil(t));
                q.push_back(std::floor(t));
            }
        }
        q.push_back(st.front() - 1.5);
        q.push_back(st.back() + 1.5);
        q.push_back(1e15);
        q.push_back(-1e15);
        if (rng.range(0, 7) == 0)
        {
            q.push_back(1e300);
            q.push_back(-1e300);
        }
        q.push_back(0.0);
        for (int i = 0; i < 3; ++i)
        {
            const double v = vals[static_cast<size_t>(rng.range(0, static_cast<int64_t>(vals.size()) - 1))];
            q.push_back(v);
            q.push_back(v + (rng.unit() - 0.5));
        }
        return q;
    }
};


// ----------------------------------------------------------------------------------------------------------
// extension: the position stage (POS / MID lines) -- detail::percentile over a lazily generated sorted array
// a[i] = i (no storage: sizes up to 2^46 + 1), aimed at the side condition of C20_position_exact
// ----------------------------------------------------------------------------------------------------------
struct iota_it
{
    using iterator_category = std::random_access_iterator_tag;
    using value_type        = int64_t;
    using difference_type   = std::ptrdiff_t;
    using pointer           = const int64_t*;
    using reference         = int64_t;
    int64_t i = 0;
    int64_t          operator*() const { return i; }
    iota_it&         operator++() { ++i; return *this; }
    iota_it&         operator--() { --i; return *this; }
    iota_it&         operator+=(difference_type d) { i += d; return *this; }
    friend iota_it   operator+(iota_it a, difference_type d) { a.i += d; return a; }
    friend difference_type operator-(iota_it a, iota_it b) { return a.i - b.i; }
    friend bool      operator==(iota_it a, iota_it b) { return a.i == b.i; }
    friend bool      operator!=(iota_it a, iota_it b) { return a.i != b.i; }
    friend bool      operator<(iota_it a, iota_it b) { return a.i < b.i; }
};

struct pos_result
{
    double  value = 0;
    int64_t lpos = -1, rpos = -1;
    int     calls = 0;
};

static pos_result run_pos(double p, int64_t n)
{
    pos_result res;
    res.value = nano::detail::percentile(iota_it{0}, iota_it{n}, p,
                                         [&](auto pos)
                                         {
                                             const auto ip = static_cast<int64_t>(pos);
                                             if (res.calls == 0) res.lpos = ip;
                                             res.rpos = ip;
                                             ++res.calls;
                                             return static_cast<double>(ip);
                                         });
    return res;
}

// p = k / 2^j in lowest terms (k odd or zero), for a finite non-negative double
static bool dyadic_of(double p, int64_t& k, int& j)
{
    if (!(p >= 0.0) || std::isinf(p)) return false;
    if (p == 0.0) { k = 0; j = 0; return true; }
    int          e = 0;
    const double f = std::frexp(p, &e); // p = f * 2^e, f in [0.5, 1)
    auto         m = static_cast<int64_t>(std::ldexp(f, 53)); // 53-bit integer, p = m * 2^(e-53)
    int          x = e - 53;
    while ((m & 1) == 0) { m >>= 1; ++x; }
    if (x > 0)
    {
        if (x > 9) return false; // p > 100 anyway
        m <<= x;
        x = 0;
    }
    k = m;
    j = -x;
    return true;
}

// the side condition of C20_position_exact and the exact floor / ceiling of k (n-1) / (100 2^j), coded
// independently of the Coq model (128-bit integers)
static bool exact_reference(double p, int64_t n, int64_t& l, int64_t& r)
{
    int64_t k = 0;
    int     j = 0;
    if (!dyadic_of(p, k, j) || j > 1015 || n < 1) return false;
    const __int128 N = static_cast<__int128>(k) * (n - 1);
    if (n - 1 >= (int64_t(1) << 53) || N >= (static_cast<__int128>(1) << 53)) return false;
    if (j > 60)
    {
        l = 0;
        r = N > 0 ? 1 : 0;
        return true;
    }
    const __int128 D = static_cast<__int128>(100) << j;
    l                = static_cast<int64_t>(N / D);
    r                = l + ((N % D) != 0 ? 1 : 0);
    return true;
}

static std::string pos_violation(double p, int64_t n)
{
    const auto res = run_pos(p, n);
    if (res.calls < 1 || res.calls > 2) return "from_position called " + std::to_string(res.calls) + " times";
    if (!(res.lpos >= 0 && res.lpos <= res.rpos && res.rpos <= n - 1 && res.rpos <= res.lpos + 1))
        return "indices out of range / not neighbours: lpos = " + std::to_string(res.lpos) + ", rpos = " + std::to_string(res.rpos);
    if ((res.calls == 1) != (res.lpos == res.rpos)) return "one element selected although lpos != rpos (or two although equal)";
    int64_t l = 0, r = 0;
    if (exact_reference(p, n, l, r))
    {
        if (res.lpos != l || res.rpos != r)
            return "lpos = " + std::to_string(res.lpos) + ", rpos = " + std::to_string(res.rpos) + ", exact floor/ceil of p*(n-1)/100: " +
                   std::to_string(l) + ", " + std::to_string(r) + " [exact rule, k*(n-1) < 2^53]";
        const double e = l == r ? static_cast<double>(l) : (static_cast<double>(l) + static_cast<double>(r)) / 2;
        if (!same(res.value, e)) return "value " + vh::hexf(res.value) + ", sorted-array reference " + vh::hexf(e) + " [exact rule]";
    }
    else
    {
        // any double in [0, 100]: the value is the selected element or the midpoint of the two selected elements,
        // and the indices are within one of the exact ones (long double estimate)
        const double e = res.lpos == res.rpos ? static_cast<double>(res.lpos) : (static_cast<double>(res.lpos) + static_cast<double>(res.rpos)) / 2;
        if (!same(res.value, e)) return "value " + vh::hexf(res.value) + " is not the element / midpoint at the selected indices";
        const long double pos = static_cast<long double>(p) * static_cast<long double>(n - 1) / 100.0L;
        if (std::fabs(static_cast<double>(static_cast<long double>(res.lpos) - std::floor(pos))) > 1.0 ||
            std::fabs(static_cast<double>(static_cast<long double>(res.rpos) - std::ceil(pos))) > 1.0)
            return "indices more than one away from the exact position";
    }
    if (n <= 4096)
    {
        const double v = nano::percentile_sorted(iota_it{0}, iota_it{n}, p);
        if (!same(v, res.value)) return "percentile_sorted differs from detail::percentile";
    }
    return "";
}

static void pos_case(double p, int64_t n)
{
    const auto res = run_pos(p, n);
    std::printf("POS %s %" PRId64 " = %s ; %" PRId64 " ; %" PRId64 "\n", vh::hexf(p).c_str(), n, vh::hexf(res.value).c_str(), res.lpos, res.rpos);
    ++g_lines;
    const auto why = pos_violation(p, n);
    if (!why.empty())
    {
        std::printf("FAIL POS p=%s n=%" PRId64 " :: %s\n", vh::hexf(p).c_str(), n, why.c_str());
        ++g_fail;
    }
}

// monotonicity in the percentage for one size
static void pos_monotone(dvec ps, int64_t n)
{
    std::sort(ps.begin(), ps.end());
    int64_t pl = 0, pr = 0;
    double  pp = 0;
    for (size_t i = 0; i < ps.size(); ++i)
    {
        const auto res = run_pos(ps[i], n);
        if (i > 0 && (res.lpos < pl || res.rpos < pr))
        {
            std::printf("FAIL POSM p=%s q=%s n=%" PRId64 " :: indices not monotone in the percentage: (%" PRId64 ",%" PRId64 ") then (%" PRId64 ",%" PRId64 ")\n",
                        vh::hexf(pp).c_str(), vh::hexf(ps[i]).c_str(), n, pl, pr, res.lpos, res.rpos);
            ++g_fail;
        }
        pl = res.lpos;
        pr = res.rpos;
        pp = ps[i];
    }
}

static std::string mid_violation(double a, double b, double& got)
{
    dvec v = {a, b};
    got    = nano::percentile_sorted(v.begin(), v.end(), 50.0);
    dvec w = {b, a};
    const double u = nano::percentile(w.begin(), w.end(), 50.0);
    if (!same(u, got) && !(u == got)) return "percentile and percentile_sorted differ on two values";
    // the property's reference: the midpoint of the two neighbours (exact reference, rounded once)
    const double e = ref_mid(a, b);
    if (!same(got, e) && !(got == e)) return "midpoint " + vh::hexf(got) + " differs from the reference midpoint " + vh::hexf(e);
    // for ALL finite a <= b (also when a + b overflows): finite and between the two values
    if (!(std::isfinite(got) && a <= got && got <= b)) return "midpoint " + vh::hexf(got) + " is not a finite value in [a, b]";
    return "";
}

static void mid_case(double a, double b)
{
    if (a > b) std::swap(a, b);
    double     got = 0;
    const auto why = mid_violation(a, b, got);
    std::printf("MID %s %s = %s\n", vh::hexf(a).c_str(), vh::hexf(b).c_str(), vh::hexf(got).c_str());
    ++g_lines;
    if (!why.empty())
    {
        std::printf("FAIL MID a=%s b=%s :: %s\n", vh::hexf(a).c_str(), vh::hexf(b).c_str(), why.c_str());
        ++g_fail;
    }
}

static int64_t egcd(int64_t a, int64_t b, int64_t& x, int64_t& y)
{
    if (b == 0) { x = 1; y = 0; return a; }
    int64_t x1 = 0, y1 = 0;
    const auto g = egcd(b, a % b, x1, y1);
    x = y1;
    y = x1 - (a / b) * y1;
    return g;
}

static void pos_stage(gen_t& g, long rounds)
{
    auto& rng = g.rng;
    // the witnesses of the refuted statements (outside the side condition: only the range rule applies) and fixed points
    pos_case(100.0 / 3.0, 4);
    pos_case(74151217.0 / 1048576.0, 1983666872);
    pos_case(std::numeric_limits<double>::denorm_min(), 2);
    pos_case(8.8, 376);
    pos_case(0.4, 251);
    pos_case(12.5, (int64_t(1) << 30) + 1);
    pos_case(100.0, (int64_t(1) << 46) + 1);
    pos_case(std::nextafter(100.0, 0.0), (int64_t(1) << 46) + 1);
    pos_case(50.0, (int64_t(1) << 46));
    pos_case(0.0, (int64_t(1) << 46) + 1);
    for (long c = 0; c < rounds; ++c)
    {
        dvec    ps;
        int64_t n = 2;
        switch (rng.range(0, 5))
        {
        case 0:
        case 1:
        {
            // A. inside the side condition for EVERY k <= 100 2^j: D (n-1) < 2^53; exact positions that are integers,
            // one unit of 1/D next to an integer (the smallest possible distance), and random ones
            const int     j = static_cast<int>(rng.range(0, 26));
            const int64_t D = int64_t(100) << j;
            const int64_t mmax = std::min<int64_t>(((int64_t(1) << 53) - 1) / D, (int64_t(1) << 31));
            if (mmax < 2) break;
            const int a = static_cast<int>(rng.range(1, 62));
            int64_t   m = rng.range(1, std::min<int64_t>(mmax, (int64_t(1) << std::min(a, 40))));
            if (rng.range(0, 2) == 0)
            {
                // sizes sharing a large factor with D: many integral positions
                const int64_t f = (int64_t(1) << rng.range(0, std::min<int64_t>(j + 2, 20))) * (rng.range(0, 1) ? 25 : rng.range(0, 1) ? 5 : 1);
                m = std::max<int64_t>(1, m / f) * f;
                if (m > mmax) m = std::max<int64_t>(1, mmax / f) * f;
                if (m > mmax || m < 1) m = 1;
            }
            n = m + 1;
            int64_t x = 0, y = 0;
            const auto gd = egcd(m % D, D, x, y); // x * m + y * D = gd
            const int64_t Dg = D / gd;
            const auto    inv = static_cast<int64_t>(((static_cast<__int128>(x) % Dg) + Dg) % Dg); // (m/gd)^-1 mod D/gd
            for (int rep = 0; rep < 6; ++rep)
            {
                // residue delta * gd of k*m modulo D
                const int64_t delta = rep == 0 ? 0 : rep == 1 ? 1 : rep == 2 ? Dg - 1 : rep == 3 ? 2 : rng.range(0, Dg - 1);
                auto          k     = static_cast<int64_t>((static_cast<__int128>(delta % Dg) * inv) % Dg);
                k += Dg * rng.range(0, gd - 1 > 0 ? gd - 1 : 0);
                if (rep == 0 && rng.range(0, 1)) k += Dg; // up to and including 100 %
                if (k > D) k = k % (D + 1);
                const double p = std::ldexp(static_cast<double>(k), -j);
                if (p >= 0.0 && p <= 100.0) ps.push_back(p);
            }
            break;
        }
        case 2:
        {
            // B. large sizes with simple percentages (inside the side condition while k (n-1) < 2^53)
            const int a = static_cast<int>(rng.range(20, 46));
            n           = (int64_t(1) << a) + rng.range(-3, 3) + (rng.range(0, 3) == 0 ? rng.range(0, int64_t(1) << (a - 1)) : 0);
            if (n - 1 > (int64_t(1) << 46)) n = (int64_t(1) << 46) + 1;
            ps = {0.0, 50.0, 100.0, 25.0, 12.5, static_cast<double>(rng.range(0, 100)), static_cast<double>(rng.range(0, 1600)) / 16.0,
                  static_cast<double>(rng.range(0, 102400)) / 1024.0, std::ldexp(static_cast<double>(rng.range(0, 99) * 1048576 + rng.range(0, 1048575)), -20)};
            break;
        }
        case 3:
        {
            // C. outside the side condition: one ulp around percentages whose exact position is an integer z
            n             = rng.range(0, 2) ? rng.range(2, 2000) : (int64_t(1) << rng.range(10, 30)) + rng.range(-2, 2);
            const auto m  = n - 1;
            for (int rep = 0; rep < 3; ++rep)
            {
                const auto   z = rng.range(0, m);
                const double q = 100.0 * static_cast<double>(z) / static_cast<double>(m);
                ps.push_back(q);
                ps.push_back(std::nextafter(q, 0.0));
                if (q < 100.0) ps.push_back(std::nextafter(q, 200.0));
            }
            break;
        }
        case 4:
        {
            // decimal percentages with sizes on which the decimal position is an integer
            static const int64_t mult[] = {10, 100, 1000, 20, 40, 50, 125, 200, 250, 500, 375};
            n = mult[rng.range(0, 10)] * rng.range(1, 40) + 1;
            if (rng.range(0, 3) == 0) n = n * 1024 - 1023;
            for (int rep = 0; rep < 4; ++rep) ps.push_back(static_cast<double>(rng.range(0, 1000)) / 10.0);
            ps.push_back(static_cast<double>(rng.range(0, 10000)) / 100.0);
            ps.push_back(100.0 * rng.unit());
            break;
        }
        default:
        {
            // D. extremes: subnormal and tiny percentages (underflow of the quotient), the largest ones, smallest sizes
            n = rng.range(0, 1) ? rng.range(1, 3) : (int64_t(1) << rng.range(1, 46)) + 1;
            ps = {std::numeric_limits<double>::denorm_min() * static_cast<double>(rng.range(1, 4)), std::ldexp(1.0, -static_cast<int>(rng.range(1000, 1074))),
                  std::ldexp(static_cast<double>(rng.range(1, 1000)), -static_cast<int>(rng.range(30, 1020))), std::numeric_limits<double>::min(),
                  std::nextafter(100.0, 0.0), 100.0, 0.0, std::nextafter(0.0, 1.0), std::nextafter(50.0, 100.0)};
            break;
        }
        }
        for (double p : ps) pos_case(p, n);
        if (ps.size() > 1) pos_monotone(ps, n);
        // midpoints: ordinary, equal, opposite signs, subnormal, and pairs whose sum overflows
        {
            double a = 0, b = 0;
            switch (rng.range(0, 5))
            {
            case 0: a = static_cast<double>(rng.range(-1000000, 1000000)) / 64.0; b = a + static_cast<double>(rng.range(0, 1000)) / 64.0; break;
            case 1: a = (rng.unit() - 0.5) * 1e6; b = (rng.unit() - 0.5) * 1e6; break;
            case 2: a = std::ldexp(rng.unit() + 0.5, 1023) * (rng.range(0, 1) ? 1 : -1); b = std::ldexp(rng.unit() + 0.5, 1023) * (a < 0 ? -1 : 1); break; // overflow
            case 3: a = std::numeric_limits<double>::denorm_min() * static_cast<double>(rng.range(-5, 5)); b = std::numeric_limits<double>::denorm_min() * static_cast<double>(rng.range(-5, 5)); break;
            case 4: a = std::numeric_limits<double>::max(); b = rng.range(0, 1) ? a : std::nextafter(a, 0.0); if (rng.range(0, 1)) { a = -a; b = -b; } break;
            default: a = std::ldexp(rng.unit(), static_cast<int>(rng.range(-1070, 1020))); b = std::nextafter(a, rng.range(0, 1) ? 1e308 : -1e308); break;
            }
            if (!(a == 0.0 && std::signbit(a)) && !(b == 0.0 && std::signbit(b))) mid_case(a, b);
            // overflow pairs (the defect repaired by /repo 985fdb5), permanently: both signs; one operand just below 2^1023 and
            // the other around 2^1023 (the sum straddles the overflow threshold 2^1024 - 2^970); mixed signs (no overflow)
            const double sg  = rng.range(0, 1) ? 1.0 : -1.0;
            const double big = std::numeric_limits<double>::max();
            switch (rng.range(0, 5))
            {
            case 0: a = sg * big; b = sg * big; break;
            case 1: a = sg * std::ldexp(1.0 - std::ldexp(static_cast<double>(rng.range(1, 8)), -53), 1023); b = sg * std::ldexp(1.0 + std::ldexp(static_cast<double>(rng.range(0, 8)), -52), 1023); break;
            case 2: a = sg * std::ldexp(1.0 - std::ldexp(static_cast<double>(rng.range(1, 1 << 20)), -53), 1023); b = sg * std::ldexp(1.0 + rng.unit(), 1023); break;
            case 3: a = -std::ldexp(1.0 + rng.unit(), 1023); b = std::ldexp(1.0 + rng.unit(), 1023); break; // mixed signs: the sum is small
            case 4: a = sg * std::ldexp(1.0 + rng.unit(), 1023); b = sg * std::ldexp(1.0 + rng.unit(), 1022 + static_cast<int>(rng.range(0, 1))); break;
            default: a = sg * std::ldexp(rng.unit() + 0.5, static_cast<int>(rng.range(960, 1023))); b = sg * big; break; // the smaller one near 2^970
            }
            if (!(a == 0.0 && std::signbit(a)) && !(b == 0.0 && std::signbit(b))) mid_case(a, b);
        }
    }
}

template <class T>
static void pct_cases(const dvec& vals, const dvec& ps, const char* tname)
{
    for (double p : ps)
    {
        const auto res = run_pct<T>(vals, p);
        std::printf("PCT %s = %s ; %s ; %" PRId64 " ; %" PRId64 "\n", vh::hexf(p).c_str(), vh::hexf(res.unsorted).c_str(), vh::hexf(res.sorted).c_str(),
                    res.lpos, res.rpos);
        ++g_lines;
        auto why = pct_violation<T>(vals, p);
        if (!why.empty())
        {
            dvec v      = vals;
            long budget = 3000;
            shrink_list(v, 1, budget, [&](const dvec& w) { return !pct_violation<T>(w, p).empty(); });
            why    = pct_violation<T>(v, p);
            dvec s = v;
            std::sort(s.begin(), s.end());
            std::printf("FAIL PCT type=%s p=%s values=%s sorted=%s :: %s\n", tname, vh::hexf(p).c_str(), hl(v).c_str(), hl(s).c_str(), why.c_str());
            ++g_fail;
        }
    }
    {
        auto         a  = conv<T>(vals);
        const double m  = nano::median(a.begin(), a.end());
        auto         b  = conv<T>(vals);
        std::sort(b.begin(), b.end());
        const double ms = nano::median_sorted(b.begin(), b.end());
        std::printf("MED = %s ; %s\n", vh::hexf(m).c_str(), vh::hexf(ms).c_str());
        ++g_lines;
    }
}

static void stats_case(const dvec& vals)
{
#ifdef C20_HEADER_ONLY
    (void)vals;
#else
    dvec a = vals;
    dvec out(12, 0.0);
    ml::store_stats(map_tensor(a.data(), static_cast<tensor_size_t>(a.size())), map_tensor(out.data(), static_cast<tensor_size_t>(12)));
    std::printf("STATS = %s\n", hl(dvec(out.begin() + 2, out.end())).c_str());
    ++g_lines;
    static const double pp[] = {1, 5, 10, 20, 50, 80, 90, 95, 99};
    dvec                s    = vals;
    std::sort(s.begin(), s.end());
    if (out[2] != static_cast<double>(vals.size()))
    {
        std::printf("FAIL STATS values=%s :: count = %s\n", hl(vals).c_str(), vh::hexf(out[2]).c_str());
        ++g_fail;
    }
    for (int i = 0; i < 9; ++i)
    {
        bool exact = false;
        if (!pct_matches(s, pp[i], out[static_cast<size_t>(3 + i)], exact))
        {
            std::printf("FAIL STATS values=%s :: store_stats percentile %g = %s\n", hl(vals).c_str(), pp[i], vh::hexf(out[static_cast<size_t>(3 + i)]).c_str());
            ++g_fail;
            break;
        }
    }
#endif
}

template <class T>
static void one_list(gen_t& g, const dvec& vals, int s, const char* tname)
{
    ++g_cases;
    std::printf("VALS %s %s\n", tname, hl(vals).c_str());
    ++g_lines;
    const auto n = static_cast<int64_t>(vals.size());
    pct_cases<T>(vals, g.percentages(n), tname);
    // thresholds given directly
    for (int rep = 0; rep < 2; ++rep)
    {
        const dvec thr = g.thresholds(vals, s);
        hist_case<T>(hkind::thresholds, vals, thr, g.queries(thr, vals), tname);
    }
    // ... derived from ratios (equidistant from the library, or arbitrary in (0, 1))
    {
        dvec ratios;
        if (g.rng.range(0, 1) && lib_available)
        {
            const auto bins = g.rng.range(2, 12);
            ratios          = to_dvec(make_equidistant_ratios(bins));
            auto a          = conv<T>(vals);
            const auto h1   = histogram_t::make_from_ratios(a.begin(), a.end(), bins);
            auto       b    = conv<T>(vals);
            const auto h2   = make_hist<T>(hkind::ratios, vals, ratios);
            if (hl(to_dvec(h1.thresholds())) != hl(to_dvec(h2.thresholds())) || h1.counts().vector() != h2.counts().vector())
            {
                std::printf("FAIL HISTR type=%s bins=%" PRId64 " values=%s :: make_from_ratios(bins) differs from make_from_ratios(make_equidistant_ratios(bins))\n", tname, bins, hl(vals).c_str());
                ++g_fail;
            }
            if (static_cast<int64_t>(ratios.size()) != bins - 1 || !(ratios.front() > 0.0) || !(ratios.back() < 1.0) || !std::is_sorted(ratios.begin(), ratios.end()))
            {
                std::printf("FAIL EQR bins=%" PRId64 " :: equidistant ratios %s\n", bins, hl(ratios).c_str());
                ++g_fail;
            }
        }
        else
        {
            const auto k = g.rng.range(1, 6);
            for (int64_t i = 0; i < k; ++i) ratios.push_back(g.rng.range(0, 3) ? static_cast<double>(g.rng.range(1, 63)) / 64.0 : 0.001 + 0.998 * g.rng.unit());
        }
        dvec thr = to_dvec(make_hist<T>(hkind::ratios, vals, ratios).thresholds());
        hist_case<T>(hkind::ratios, vals, ratios, g.queries(thr, vals), tname);
    }
    // ... from percentiles
    {
        dvec ps;
        if (g.rng.range(0, 1) && lib_available)
        {
            const auto bins = g.rng.range(2, 12);
            ps              = to_dvec(make_equidistant_percentiles(bins));
            auto a          = conv<T>(vals);
            const auto h1   = histogram_t::make_from_percentiles(a.begin(), a.end(), bins);
            const auto h2   = make_hist<T>(hkind::percentiles, vals, ps);
            if (hl(to_dvec(h1.thresholds())) != hl(to_dvec(h2.thresholds())) || h1.counts().vector() != h2.counts().vector())
            {
                std::printf("FAIL HISTP type=%s bins=%" PRId64 " values=%s :: make_from_percentiles(bins) differs from the list variant\n", tname, bins, hl(vals).c_str());
                ++g_fail;
            }
            if (static_cast<int64_t>(ps.size()) != bins - 1 || !(ps.front() > 0.0) || !(ps.back() < 100.0) || !std::is_sorted(ps.begin(), ps.end()))
            {
                std::printf("FAIL EQP bins=%" PRId64 " :: equidistant percentiles %s\n", bins, hl(ps).c_str());
                ++g_fail;
            }
        }
        else
        {
            const auto k = g.rng.range(1, 6);
            for (int64_t i = 0; i < k; ++i) ps.push_back(g.rng.range(0, 3) ? static_cast<double>(g.rng.range(1, 1599)) / 16.0 : 0.01 + 99.98 * g.rng.unit());
        }
        dvec thr = to_dvec(make_hist<T>(hkind::percentiles, vals, ps).thresholds());
        hist_case<T>(hkind::percentiles, vals, ps, g.queries(thr, vals), tname);
    }
    // ... from percentiles aimed at the position rule: exact positions that are integers (where representable) and the
    // doubles next to them
    if (n > 1 && g.rng.range(0, 1) == 0)
    {
        dvec ps;
        for (int rep = 0; rep < 3; ++rep)
        {
            const auto   z = g.rng.range(0, n - 1);
            const double q = 100.0 * static_cast<double>(z) / static_cast<double>(n - 1);
            ps.push_back(q);
            if (g.rng.range(0, 1)) ps.push_back(q > 0.0 && g.rng.range(0, 1) ? std::nextafter(q, 0.0) : std::min(100.0, std::nextafter(q, 200.0)));
        }
        dvec thr = to_dvec(make_hist<T>(hkind::percentiles, vals, ps).thresholds());
        hist_case<T>(hkind::percentiles, vals, ps, g.queries(thr, vals), tname);
    }
    // ... from exponents (log/pow: the thresholds are taken from the implementation)
    if (g.rng.range(0, 2) == 0)
    {
        static const double bases[] = {2.0, 10.0, 1.5, 3.0};
        const dvec          base    = {bases[g.rng.range(0, 3)]};
        dvec                thr     = to_dvec(make_hist<T>(hkind::exponents, vals, base).thresholds());
        if (thr.size() <= 160) hist_case<T>(hkind::exponents, vals, base, g.queries(thr, vals), tname);
    }
    if (std::is_same<T, double>::value && g.rng.range(0, 2) == 0) stats_case(vals);
}

int main(int argc, char** argv)
{
    std::setvbuf(stdout, nullptr, _IOLBF, 0);
    const std::string mode = argc > 1 ? argv[1] : "quick";
    if (mode == "pct" && argc >= 4)
    {
        const double p    = vh::parsef(argv[2]);
        const dvec   vals = parse_list(argv[3]);
        const auto   res  = run_pct<double>(vals, p);
        std::printf("PCT %s = %s ; %s ; %" PRId64 " ; %" PRId64 "\n", vh::hexf(p).c_str(), vh::hexf(res.unsorted).c_str(), vh::hexf(res.sorted).c_str(), res.lpos, res.rpos);
        const auto why = pct_violation<double>(vals, p);
        std::printf("%s\n", why.empty() ? "OK" : ("FAIL " + why).c_str());
        return why.empty() ? 0 : 1;
    }
    if (mode == "pos" && argc >= 4)
    {
        const double p = vh::parsef(argv[2]);
        const auto   n = static_cast<int64_t>(std::strtoll(argv[3], nullptr, 10));
        pos_case(p, n);
        std::printf("%s\n", g_fail == 0 ? "OK" : "FAIL");
        return g_fail == 0 ? 0 : 1;
    }
    if (mode == "mid" && argc >= 4)
    {
        mid_case(vh::parsef(argv[2]), vh::parsef(argv[3]));
        std::printf("%s\n", g_fail == 0 ? "OK" : "FAIL");
        return g_fail == 0 ? 0 : 1;
    }
    if (mode == "hist" && argc >= 5)
    {
        const dvec thr = parse_list(argv[2]), vals = parse_list(argv[3]), q = parse_list(argv[4]);
        const auto why = hist_violation<double>(hkind::thresholds, vals, thr, q);
        std::printf("%s\n", why.empty() ? "OK" : ("FAIL " + why).c_str());
        return why.empty() ? 0 : 1;
    }
    const long lists = mode == "thorough" ? 100000 : 2000;
    gen_t      g(vh::env_seed() * 0x9E3779B97F4A7C15ULL + 20);
    for (long c = 0; c < lists; ++c)
    {
        int        s    = 0;
        const auto n    = g.pick_size();
        const dvec vals = g.values(n, s);
        double     amax = 0.0;
        for (double v : vals) amax = std::max(amax, std::fabs(v));
        const auto tsel = g.rng.range(0, 9);
        if (s == 0 && tsel < 3 && amax < 2.0e9) one_list<int>(g, vals, s, "int");
        else if (s == 0 && tsel < 5) one_list<int64_t>(g, vals, s, "int64");
        else if (tsel == 5 && amax < 1.0e6) one_list<float>(g, vals, s, "float");
        else one_list<double>(g, vals, s, "double");
    }
    {
        gen_t gp(vh::env_seed() * 0x9E3779B97F4A7C15ULL + 2020);
        pos_stage(gp, mode == "thorough" ? 60000 : 6000);
    }
    std::printf("DONE lists=%ld lines=%ld fails=%ld\n", g_cases, g_lines, g_fail);
    return 0;
}
