// C14 harness: per-column statistics, scale / upscale and the affine up-scaling of the real library on
// random small datasets (mixed categorical / continuous features, missing values, degenerate columns).
//
// Output (one line per operation; doubles as C hex floats, missing = nan):
//   CONST <eps> <big>
//   COL <case>.<col> en=<0|1> i=<column> of=<columns> | v1,v2,... = n;min;max;mean;stdev;div_range;mul_range;div_stdev;mul_stdev
//   SC <case>.<col> mode=<0..3> | <9 stats> | v1,v2,... = s1,s2,... ; u1,u2,...        (scale, then upscale of the scaled)
//   FSC <case>.<col> mode=<0..3> | <9 stats> | x1,x2,... = s1,... ; u1,...     ALL values of a column with more than 24 entries,
//                                                                              as 16-hex-digit bit patterns (twin stage of the driver)
//   AFF <case> fm=<m> tm=<m> | <9 stats>/<9 stats>/... | <9 stats>/... | w11,w12/w21,.. | b1,b2 = w'11,../.. | b'1,..
//   FAIL <clause> ...      direct property violations found on the implementation (independent of the Coq model)
//   DONE cases=<n> ...
// Modes: `c14_scaling quick|thorough [cases [chunk]]` (random, seeded by VERIF_SEED and the chunk id; chunk 0 starts with a
// fixed corpus of constant columns) and `c14_scaling column v1,v2,...` (replay of one column, nan = missing).
#include "common.h"
#include <algorithm>
#include <iostream>
#include <map>
#include <nano/dataset.h>
#include <nano/dataset/iterator.h>
#include <nano/dataset/stats.h>
#include <nano/datasource.h>
#include <nano/generator/elemwise_identity.h>

using namespace nano;

namespace
{
using ld           = long double;
constexpr double U = 0x1p-53;
// gamma_k = k u / (1 - k u) >= g k = (1 + u)^k - 1 (C14_fl_gamma): the constants of the bounds PROVED in coq/theories/C14_Float2.v
inline ld gam(long k)
{
    return static_cast<ld>(k) * U / (1 - static_cast<ld>(k) * U);
}
// the long double references of this harness carry a relative error of about N 2^-64 themselves
constexpr ld SLACK = 1 + 0x1p-9L;

enum kind_t
{
    k_sclass = 0,
    k_mclass,
    k_scalar,
    k_struct
};

struct feat_t
{
    kind_t                           kind{k_scalar};
    int                              width{1};   // classes or struct size
    std::vector<uint8_t>             present;    // per sample
    std::vector<std::vector<double>> values;     // per sample: label / hits / scalars
};

struct case_t
{
    tensor_size_t       rows{0};
    std::vector<feat_t> feats; // the last one is the target (never missing)
};

class c14_datasource_t final : public datasource_t
{
public:
    explicit c14_datasource_t(const case_t& c)
        : datasource_t("c14")
        , m_case(&c)
    {
    }

    rdatasource_t clone() const override { return std::make_unique<c14_datasource_t>(*this); }

private:
    void do_load() override
    {
        const auto& c = *m_case;
        features_t  features;
        for (size_t f = 0; f < c.feats.size(); ++f)
        {
            const auto& ft   = c.feats[f];
            const auto  name = "f" + std::to_string(f);
            strings_t   labels;
            for (int l = 0; l < ft.width; ++l)
            {
                labels.push_back("l" + std::to_string(l));
            }
            switch (ft.kind)
            {
            case k_sclass: features.push_back(feature_t{name}.sclass(labels)); break;
            case k_mclass: features.push_back(feature_t{name}.mclass(labels)); break;
            case k_scalar: features.push_back(feature_t{name}.scalar(feature_type::float64)); break;
            default: features.push_back(feature_t{name}.scalar(feature_type::float64, make_dims(ft.width, 1, 1))); break;
            }
        }
        resize(c.rows, features, c.feats.size() - 1U);
        for (size_t f = 0; f < c.feats.size(); ++f)
        {
            const auto& ft = c.feats[f];
            for (tensor_size_t s = 0; s < c.rows; ++s)
            {
                if (ft.present[static_cast<size_t>(s)] == 0U)
                {
                    continue;
                }
                const auto& v  = ft.values[static_cast<size_t>(s)];
                const auto  fi = static_cast<tensor_size_t>(f);
                switch (ft.kind)
                {
                case k_sclass: set(s, fi, static_cast<int32_t>(v[0])); break;
                case k_mclass:
                {
                    tensor_mem_t<int8_t, 1> hits(ft.width);
                    for (int l = 0; l < ft.width; ++l)
                    {
                        hits(l) = static_cast<int8_t>(v[static_cast<size_t>(l)]);
                    }
                    set(s, fi, hits);
                    break;
                }
                case k_scalar: set(s, fi, v[0]); break;
                default:
                {
                    tensor_mem_t<scalar_t, 3> vals(ft.width, 1, 1);
                    for (int l = 0; l < ft.width; ++l)
                    {
                        vals(l) = v[static_cast<size_t>(l)];
                    }
                    set(s, fi, vals);
                    break;
                }
                }
            }
        }
    }

    const case_t* m_case;
};

// ---- generators ------------------------------------------------------------------------------------------------
struct gen_t
{
    vh::rng_t rng;
    explicit gen_t(uint64_t seed)
        : rng(seed)
    {
    }

    double mag(double lo, double hi) { return std::pow(10.0, lo + (hi - lo) * rng.unit()); }
    double sgn() { return (rng.next() & 1U) ? 1.0 : -1.0; }
    double full() { return sgn() * mag(-6, 6); } // full-mantissa double with magnitude 1e-6..1e6

    // a column of `rows` doubles of one of the structured kinds
    std::vector<double> column(tensor_size_t rows, int& kind)
    {
        static const double nice[] = {1.0, 0.1, -524.2281314218426, 1e6, -1e-6, 3.0, 0.3, 1e-3, 123456.789, -0.7};
        kind                       = static_cast<int>(rng.range(0, 11));
        std::vector<double> v(static_cast<size_t>(rows));
        switch (kind)
        {
        case 0: // one magnitude per column
        {
            const auto m = mag(-6, 6);
            for (auto& x : v) x = sgn() * m * (0.1 + 0.9 * rng.unit());
            break;
        }
        case 1: // every value its own magnitude
            for (auto& x : v) x = full();
            break;
        case 2: // constant
        {
            const auto c = (rng.range(0, 3) == 0) ? nice[rng.range(0, 9)] : full();
            for (auto& x : v) x = c;
            break;
        }
        case 3: // near-constant: a few ulps around c
        {
            const auto c = full();
            for (auto& x : v)
            {
                x = c;
                for (auto k = rng.range(-2, 2); k != 0; k += (k < 0 ? 1 : -1))
                {
                    x = std::nextafter(x, k < 0 ? -HUGE_VAL : HUGE_VAL);
                }
            }
            break;
        }
        case 4: // near-constant: relative perturbation 1e-12..1e-7
        {
            const auto c = full();
            const auto d = mag(-12, -7);
            for (auto& x : v) x = c * (1.0 + d * (2.0 * rng.unit() - 1.0));
            break;
        }
        case 5: // two values
        {
            const auto a = full();
            const auto b = (rng.next() & 1U) ? full() : a * (1.0 + mag(-9, -1));
            for (auto& x : v) x = (rng.next() & 1U) ? a : b;
            break;
        }
        case 6: // small integers
            for (auto& x : v) x = static_cast<double>(rng.range(-5, 5));
            break;
        case 7: // large offset, small spread
        {
            const auto c = sgn() * mag(3, 6);
            const auto d = mag(-6, -3);
            for (auto& x : v) x = c + d * (2.0 * rng.unit() - 1.0);
            break;
        }
        case 8: // dyadic
            for (auto& x : v) x = static_cast<double>(rng.range(-64, 64)) / 8.0;
            break;
        case 9: // range around the epsilon guard (1e-8)
        {
            const auto c = sgn() * mag(-3, 0);
            const auto r = 1e-8 * (0.25 + 2.0 * rng.unit());
            for (auto& x : v) x = c + r * rng.unit();
            if (rows >= 2 && (rng.next() & 1U))
            {
                v[0] = c;
                v[1] = c + 1e-8; // the guard itself, up to the rounding of the sum
            }
            break;
        }
        case 10: // standard deviation around the guard
        {
            const auto c = sgn() * mag(-2, 1);
            const auto r = 1e-8 * (0.5 + rng.unit());
            for (auto& x : v) x = c + ((rng.next() & 1U) ? r : -r);
            break;
        }
        default: // positive, log-uniform over the whole range
            for (auto& x : v) x = mag(-6, 6);
            break;
        }
        return v;
    }

    // presence pattern of one feature
    std::vector<uint8_t> presence(tensor_size_t rows, int& pattern)
    {
        // 0..2 no missing value, 3: 10%, 4: 50%, 5: 90%, 6: all missing, 7: exactly one value present
        static const int table[] = {0, 1, 2, 0, 3, 3, 4, 4, 5, 5, 6, 7};
        pattern                  = table[rng.range(0, 11)];
        std::vector<uint8_t> p(static_cast<size_t>(rows), 1U);
        double               prob = 0.0;
        switch (pattern)
        {
        case 0:
        case 1:
        case 2: return p; // no missing value
        case 3: prob = 0.1; break;
        case 4: prob = 0.5; break;
        case 5: prob = 0.9; break;
        case 6: std::fill(p.begin(), p.end(), 0U); return p; // all missing
        default:                                             // exactly one value present
            std::fill(p.begin(), p.end(), 0U);
            p[static_cast<size_t>(rng.range(0, rows - 1))] = 1U;
            return p;
        }
        for (auto& x : p) x = (rng.unit() < prob) ? 0U : 1U;
        return p;
    }

    tensor_size_t rows(bool thorough)
    {
        switch (rng.range(0, 9))
        {
        case 0: return 1;
        case 1: return 2;
        case 2: return rng.range(3, 4);
        case 3:
        case 4: return rng.range(5, 12);
        case 5:
        case 6: return rng.range(13, 40);
        case 7:
        case 8: return rng.range(41, thorough ? 150 : 100);
        default: return rng.range(101, 300);
        }
    }

    feat_t continuous(tensor_size_t rows, int width, bool optional, std::map<int, int>& kinds, std::map<int, int>& patterns)
    {
        feat_t f;
        f.kind  = width == 1 && (rng.next() & 1U) ? k_scalar : k_struct;
        f.width = width;
        int pattern = 0;
        f.present   = optional ? presence(rows, pattern) : std::vector<uint8_t>(static_cast<size_t>(rows), 1U);
        patterns[optional ? pattern : 0]++;
        f.values.assign(static_cast<size_t>(rows), std::vector<double>(static_cast<size_t>(width)));
        for (int w = 0; w < width; ++w)
        {
            int        kind = 0;
            const auto col  = column(rows, kind);
            kinds[kind]++;
            for (tensor_size_t s = 0; s < rows; ++s)
            {
                f.values[static_cast<size_t>(s)][static_cast<size_t>(w)] = col[static_cast<size_t>(s)];
            }
        }
        return f;
    }

    feat_t categorical(tensor_size_t rows, bool multi, bool optional, std::map<int, int>& patterns)
    {
        feat_t f;
        f.kind      = multi ? k_mclass : k_sclass;
        f.width     = static_cast<int>(rng.range(2, 4));
        int pattern = 0;
        f.present   = optional ? presence(rows, pattern) : std::vector<uint8_t>(static_cast<size_t>(rows), 1U);
        patterns[optional ? pattern : 0]++;
        f.values.assign(static_cast<size_t>(rows), {});
        for (auto& v : f.values)
        {
            if (multi)
            {
                for (int l = 0; l < f.width; ++l) v.push_back(static_cast<double>(rng.range(0, 1)));
            }
            else
            {
                v.push_back(static_cast<double>(rng.range(0, f.width - 1)));
            }
        }
        return f;
    }
};

std::string stats_str(const scalar_stats_t& st, tensor_size_t c)
{
    std::ostringstream o;
    o << st.m_samples(c) << ";" << vh::hexf(st.m_min(c)) << ";" << vh::hexf(st.m_max(c)) << ";" << vh::hexf(st.m_mean(c))
      << ";" << vh::hexf(st.m_stdev(c)) << ";" << vh::hexf(st.m_div_range(c)) << ";" << vh::hexf(st.m_mul_range(c)) << ";"
      << vh::hexf(st.m_div_stdev(c)) << ";" << vh::hexf(st.m_mul_stdev(c));
    return o.str();
}

std::string all_stats_str(const scalar_stats_t& st)
{
    std::string s;
    for (tensor_size_t c = 0; c < st.m_min.size(); ++c)
    {
        s += (c ? "/" : "") + stats_str(st, c);
    }
    return s;
}

template <class tvec>
std::string hexjoin(const tvec& v)
{
    std::string s;
    bool        first = true;
    for (const auto x : v)
    {
        if (!first) s += ",";
        s += vh::hexf(x);
        first = false;
    }
    return s;
}

// doubles as 16 hex digits of their bit pattern (compact, exact)
std::string bitjoin(const std::vector<double>& v)
{
    std::string s;
    s.reserve(v.size() * 17);
    char buf[24];
    for (size_t i = 0; i < v.size(); ++i)
    {
        uint64_t bits = 0;
        std::memcpy(&bits, &v[i], sizeof(bits));
        std::snprintf(buf, sizeof(buf), i ? ",%016llx" : "%016llx", static_cast<unsigned long long>(bits));
        s += buf;
    }
    return s;
}

std::vector<double> column_of(const tensor2d_t& m, tensor_size_t c)
{
    std::vector<double> v(static_cast<size_t>(m.rows()));
    for (tensor_size_t r = 0; r < m.rows(); ++r) v[static_cast<size_t>(r)] = m(r, c);
    return v;
}

bool same_bits(double a, double b)
{
    return std::memcmp(&a, &b, sizeof(double)) == 0 || (a == 0.0 && b == 0.0);
}

double offset_of(const scalar_stats_t& st, int mode, tensor_size_t c)
{
    return mode == 0 ? 0.0 : mode == 2 ? st.m_min(c) : st.m_mean(c);
}
double div_of(const scalar_stats_t& st, int mode, tensor_size_t c)
{
    return mode == 0 ? 1.0 : mode == 3 ? st.m_div_stdev(c) : st.m_div_range(c);
}
double mul_of(const scalar_stats_t& st, int mode, tensor_size_t c)
{
    return mode == 0 ? 1.0 : mode == 3 ? st.m_mul_stdev(c) : st.m_mul_range(c);
}

struct counters_t
{
    long cases{0}, columns{0}, values{0}, fails{0}, col_lines{0}, sc_lines{0}, aff_lines{0}, pred_rows{0}, rt_values{0},
        missing_values{0}, categorical_columns{0}, constant_columns{0}, single_columns{0}, empty_columns{0},
        guard_range_columns{0}, guard_stdev_columns{0}, meta_columns{0}, corpus_cases{0}, fsc_lines{0}, fsc_values{0};
    std::map<int, int> kinds, patterns, rows_hist, target_kinds;
};

counters_t cnt;

void fail(const std::string& clause, const std::string& id, const std::string& detail)
{
    cnt.fails++;
    if (cnt.fails <= 200)
    {
        std::printf("FAIL %s %s %s\n", clause.c_str(), id.c_str(), detail.c_str());
    }
}

const scaling_type modes[] = {scaling_type::none, scaling_type::mean, scaling_type::minmax, scaling_type::standard};

// direct checks of the statistics of one column (independent two-pass reference in long double)
void check_column_stats(const std::string& id, const std::vector<double>& col, const scalar_stats_t& st, tensor_size_t c,
                        bool enabled, double eps)
{
    std::vector<double> fin;
    for (const auto v : col)
    {
        if (std::isfinite(v)) fin.push_back(v);
    }
    const auto N      = static_cast<tensor_size_t>(fin.size());
    const auto coldsc = " column=" + hexjoin(col) + " stats=" + stats_str(st, c);

    const double fields[] = {st.m_min(c),       st.m_max(c),       st.m_mean(c),      st.m_stdev(c),
                             st.m_div_range(c), st.m_mul_range(c), st.m_div_stdev(c), st.m_mul_stdev(c)};
    for (const auto f : fields)
    {
        if (!std::isfinite(f))
        {
            fail("stats-finite", id, "a statistic is not finite" + coldsc);
            return;
        }
    }
    if (st.m_samples(c) != N)
    {
        fail("missing-ignored", id, "sample count differs from the number of finite entries" + coldsc);
        return;
    }
    if (!enabled)
    {
        if (!(st.m_min(c) == 0.0 && st.m_max(c) == 0.0 && st.m_mean(c) == 0.0 && st.m_stdev(c) == 0.0 &&
              st.m_div_range(c) == 1.0 && st.m_mul_range(c) == 1.0 && st.m_div_stdev(c) == 1.0 && st.m_mul_stdev(c) == 1.0))
        {
            fail("categorical", id, "statistics of a categorical column are not the identity scaling" + coldsc);
        }
        return;
    }
    // (de)normalisers are inverse to each other and never below the guard
    if (std::fabs(st.m_div_range(c) * st.m_mul_range(c) - 1.0) > 8 * U || std::fabs(st.m_div_stdev(c) * st.m_mul_stdev(c) - 1.0) > 8 * U)
    {
        fail("inverse", id, "div * mul != 1" + coldsc);
    }
    if (N == 0)
    {
        if (!(st.m_min(c) == 0.0 && st.m_max(c) == 0.0 && st.m_mean(c) == 0.0 && st.m_stdev(c) == 0.0))
        {
            fail("all-missing", id, "statistics of an all-missing column are not zero" + coldsc);
        }
        return;
    }
    const auto mn = *std::min_element(fin.begin(), fin.end());
    const auto mx = *std::max_element(fin.begin(), fin.end());
    if (!(st.m_min(c) == mn && st.m_max(c) == mx))
    {
        fail("minmax", id, "min/max are not the extreme finite entries" + coldsc);
    }
    ld sum = 0, abssum = 0, sq = 0;
    for (const auto v : fin)
    {
        sum += v;
        abssum += std::fabs(v);
        sq += static_cast<ld>(v) * v;
    }
    const ld mean = sum / static_cast<ld>(N);
    // PROVED (C14_fl_mean_accuracy): |mean - S/N| <= g(N) sum|x| / N   (N - 1 effective additions + the division); it replaces
    // the empirical 2(N+2)u sum|x|/N
    if (std::fabs(static_cast<ld>(st.m_mean(c)) - mean) > gam(N) * abssum / static_cast<ld>(N) * SLACK + 0x1p-1074L)
    {
        fail("mean", id, "mean is off by more than the proved g(N) * sum|x| / N" + coldsc);
    }
    if (N > 1)
    {
        if (st.m_mul_range(c) < eps || st.m_mul_stdev(c) < eps)
        {
            fail("guard", id, "denominator below the epsilon guard" + coldsc);
        }
        ld ss = 0;
        for (const auto v : fin) ss += (static_cast<ld>(v) - mean) * (static_cast<ld>(v) - mean);
        const ld var = ss / static_cast<ld>(N - 1);
        const ld sd  = st.m_stdev(c);
        // PROVED (C14_fl_stdev_accuracy): (var - E)(1-u)^2 <= sd^2 <= (var + E)(1+u)^2 with
        // E = (g(N+2) sum x^2 + g(2N+2) (sum|x|)^2 / N) / (N-1); it replaces the empirical (8N+16)u sum x^2/(N-1) + 4u sd^2
        const ld E = (gam(N + 2) * sq + gam(2 * N + 2) * abssum * abssum / static_cast<ld>(N)) / static_cast<ld>(N - 1) * SLACK + 1e-300L;
        if (!(sd >= 0) || !(sd * sd <= (var + E) * (1 + static_cast<ld>(U)) * (1 + static_cast<ld>(U))) ||
            !((var - E) * (1 - static_cast<ld>(U)) * (1 - static_cast<ld>(U)) <= sd * sd))
        {
            fail("stdev", id, "stdev^2 is off the sample variance by more than the proved bound of the one-pass formula" + coldsc);
        }
    }
    else if (!(st.m_stdev(c) == 0.0 && st.m_div_range(c) == 1.0 && st.m_div_stdev(c) == 1.0))
    {
        fail("single", id, "single-sample column is not left unscaled" + coldsc);
    }
}

// direct checks of scale / upscale of one column under one mode (all values of the column)
void check_column_scaling(const std::string& id, int mode, const std::vector<double>& col, const std::vector<double>& scaled,
                          const std::vector<double>& upscaled, const scalar_stats_t& st, tensor_size_t c, bool enabled,
                          bool fresh, double eps)
{
    const auto off = offset_of(st, mode, c);
    const auto div = div_of(st, mode, c);
    const auto dsc = [&](size_t i)
    {
        return " mode=" + std::to_string(mode) + " x=" + vh::hexf(col[i]) + " scaled=" + vh::hexf(scaled[i]) +
               " upscaled=" + vh::hexf(upscaled[i]) + " stats=" + stats_str(st, c) + (fresh ? " (fresh value)" : " column=" + hexjoin(col));
    };
    ld         sum = 0, abssum = 0, colabs = 0, adev = 0, adev2 = 0, sdev = 0;
    long       N   = 0;
    for (size_t i = 0; i < col.size(); ++i)
    {
        const auto x = col[i];
        if (!std::isfinite(x))
        {
            cnt.missing_values++;
            if (!(scaled[i] == 0.0))
            {
                fail("missing-zero", id, "a missing value is not scaled to zero" + dsc(i));
                return;
            }
            continue;
        }
        cnt.rt_values++;
        ++N;
        colabs += std::fabs(x);
        sum += scaled[i];
        abssum += std::fabs(static_cast<ld>(x) * div) + std::fabs(static_cast<ld>(off) * div);
        adev += std::fabs(static_cast<ld>(x) - off);
        adev2 += (static_cast<ld>(x) - off) * (static_cast<ld>(x) - off);
        sdev += static_cast<ld>(x) - off;
        if (!enabled || mode == 0)
        {
            if (!same_bits(scaled[i], x) || !same_bits(upscaled[i], x))
            {
                fail(enabled ? "none-mode" : "categorical", id, "value changed although the column must not be rescaled" + dsc(i));
                return;
            }
            continue;
        }
        // round trip: the bound PROVED in Coq (C14_fl_roundtrip, coq/theories/C14_Float.v) for the binary64 twin of this code:
        // (5|x| + 4|off|) u (1 + 3u) + 2^-1074 (mul + 1); it replaces the empirical 8u(|x| + |off|) + 1e-300 and is smaller
        const ld mul = mul_of(st, mode, c);
        const ld tol = (5 * std::fabs(static_cast<ld>(x)) + 4 * std::fabs(static_cast<ld>(off))) * (static_cast<ld>(U) * (1 + 3 * static_cast<ld>(U))) +
                       0x1p-1074L * (mul + 1);
        if (!(std::fabs(static_cast<ld>(upscaled[i]) - x) <= tol))
        {
            fail("roundtrip", id, "upscale(scale(x)) != x" + dsc(i));
            return;
        }
    }
    if (fresh || !enabled || mode == 0 || N == 0)
    {
        return;
    }
    const ld meantol = gam(N) * colabs / static_cast<ld>(N) * SLACK; // PROVED rounding of the mean (C14_fl_mean_accuracy)
    const ld range   = static_cast<ld>(st.m_max(c)) - st.m_min(c);
    const double frange = st.m_max(c) - st.m_min(c); // the binary64 range done() compares with the guard
    if (mode == 2)
    {
        for (size_t i = 0; i < col.size(); ++i)
        {
            if (!std::isfinite(col[i])) continue;
            // PROVED (C14_fl_minmax): every value of [min, max] is mapped INTO [0, 1], no rounding slack
            if (!(scaled[i] >= 0.0 && scaled[i] <= 1.0))
            {
                fail("minmax-range", id, "min-max scaled value outside [0, 1]" + dsc(i));
                return;
            }
            if (col[i] == st.m_min(c) && scaled[i] != 0.0)
            {
                fail("minmax-range", id, "the minimum is not scaled to 0" + dsc(i));
                return;
            }
            // PROVED (C14_fl_minmax): the maximum is mapped to 1 - u or 1 unless the range is below the guard
            if (N > 1 && col[i] == st.m_max(c) && frange >= eps && !(scaled[i] >= 1.0 - U && scaled[i] <= 1.0))
            {
                fail("minmax-range", id, "the maximum is not scaled to 1" + dsc(i));
                return;
            }
        }
    }
    else
    {
        // zero mean: PROVED (C14_fl_zero_mean) |sum of the scaled column| <= div (g(N) sum|x| + g(2) sum|x - mean|); the term
        // N 2^-63 pays for the long double summation of this reference; it replaces the empirical 4(N+2)u sum(|x div| + |mean div|)
        // (a single-sample column keeps the former check: the theorem is about N >= 2)
        if (!(std::fabs(sum) <= (N > 1 ? static_cast<ld>(div) * (gam(N) * colabs * SLACK + (gam(2) + N * 0x1p-63L) * adev) : 4 * (N + 2) * U * abssum) + 1e-300L))
        {
            fail("zero-mean", id, "scaled column does not sum to zero: sum=" + vh::hexf(static_cast<double>(sum)) + dsc(0));
            return;
        }
        if (mode == 1)
        {
            for (size_t i = 0; i < col.size(); ++i)
            {
                // PROVED (C14_fl_mean_range): |y| <= ((max - min) + delta) div (1+u)^2 + eta, delta = error of the stored mean
                if (std::isfinite(col[i]) && !(std::fabs(static_cast<ld>(scaled[i])) <=
                                               (range + meantol) * div * (1 + static_cast<ld>(U)) * (1 + static_cast<ld>(U)) * (1 + 0x1p-60L) + 0x1p-1075L))
                {
                    fail("mean-range", id, "mean scaled value outside [-1, 1]" + dsc(i));
                    return;
                }
            }
        }
        if (mode == 3 && N > 1)
        {
            // unit deviation where the one-pass variance is well conditioned (rho = relative rounding of the variance)
            ld sq = 0, mean = 0;
            for (const auto x : col)
            {
                if (std::isfinite(x))
                {
                    sq += static_cast<ld>(x) * x;
                    mean += x;
                }
            }
            mean /= static_cast<ld>(N);
            ld ss = 0, ssc = 0;
            for (size_t i = 0; i < col.size(); ++i)
            {
                if (std::isfinite(col[i]))
                {
                    ss += (col[i] - mean) * (col[i] - mean);
                    ssc += static_cast<ld>(scaled[i]) * scaled[i];
                }
            }
            // reference variance from the deviations to the STORED mean (a pivot within a few ulps of the true mean): accurate
            // relative to the variance itself also for nearly constant columns, where the two-pass formula with a long double
            // mean is not
            (void)ss;
            const ld var  = (adev2 - sdev * sdev / static_cast<ld>(N)) / static_cast<ld>(N - 1);
            const ld vsc  = (ssc - sum * sum / static_cast<ld>(N)) / static_cast<ld>(N - 1);
            // PROVED (C14_fl_scaled_variance): |var(scaled) - div^2 var| <= g(4) div^2 (sum (x-m)^2 + (sum|x-m|)^2/N)/(N-1), for EVERY
            // column (guarded or not, well conditioned or not); N 2^-60 pays for the one-pass long double variance of this reference
            const ld dv   = div;
            const ld b1   = gam(4) * dv * dv * (adev2 + adev * adev / static_cast<ld>(N)) / static_cast<ld>(N - 1) * SLACK;
            const ld refe = N * 0x1p-60L * (std::fabs(vsc) + dv * dv * var + 1);
            if (!(std::fabs(vsc - dv * dv * var) <= b1 + refe))
            {
                fail("unit-deviation", id, "standardised column has variance " + vh::hexf(static_cast<double>(vsc)) + " != div^2 * variance" + dsc(0));
            }
            // PROVED (C14_fl_unit_variance + C14_fl_stdev_accuracy): when the deviation is not below the guard,
            // |var(scaled) - 1| <= b1 + ((1+u)^2/(1-u)^2 - 1) + (1+u)^2 E / sd^2 with E the bound of the one-pass variance
            // (it replaces the empirical 4 rho + 64(N+2)u and needs no conditioning threshold)
            if (st.m_stdev(c) >= eps)
            {
                const ld u1 = U, sdl = st.m_stdev(c);
                const ld E  = (gam(N + 2) * sq + gam(2 * N + 2) * colabs * colabs / static_cast<ld>(N)) / static_cast<ld>(N - 1) * SLACK;
                const ld b2 = b1 + ((1 + u1) * (1 + u1) / ((1 - u1) * (1 - u1)) - 1) + (1 + u1) * (1 + u1) * E / (sdl * sdl);
                if (!(std::fabs(vsc - 1.0L) <= b2 + refe))
                {
                    fail("unit-deviation", id, "standardised column has variance " + vh::hexf(static_cast<double>(vsc)) + dsc(0));
                }
            }
        }
    }
}

// the statistics of the finite entries alone (a dataset without the missing samples) must be bit-identical
void check_missing_metamorphic(const std::string& id, const std::vector<double>& col, const scalar_stats_t& st, tensor_size_t c,
                               tensor_size_t batch)
{
    case_t cc;
    feat_t f, t;
    f.kind = k_scalar;
    for (const auto v : col)
    {
        if (std::isfinite(v))
        {
            f.present.push_back(1U);
            f.values.push_back({v});
        }
    }
    cc.rows = static_cast<tensor_size_t>(f.values.size());
    if (cc.rows == 0)
    {
        return;
    }
    t.kind = k_scalar;
    t.present.assign(static_cast<size_t>(cc.rows), 1U);
    t.values.assign(static_cast<size_t>(cc.rows), {0.0});
    cc.feats = {f, t};
    c14_datasource_t ds(cc);
    ds.load();
    dataset_t dataset{ds};
    dataset.add<scalar_identity_generator_t>();
    const auto samples = arange(0, cc.rows);
    const auto st2     = scalar_stats_t::make_flatten_stats(dataset, samples, batch);
    cnt.meta_columns++;
    if (stats_str(st2, 0) != stats_str(st, c))
    {
        fail("missing-ignored", id,
             "statistics change when the missing entries are removed: column=" + hexjoin(col) + " with=" + stats_str(st, c) +
                 " without=" + stats_str(st2, 0));
    }
}

void exec_case(gen_t& g, long icase, bool thorough, double eps, const case_t& c, bool all_samples);

void run_case(gen_t& g, long icase, bool thorough, double eps)
{
    const auto rows = g.rows(thorough);
    cnt.rows_hist[rows <= 1 ? 1 : rows <= 2 ? 2 : rows <= 4 ? 4 : rows <= 12 ? 12 : rows <= 40 ? 40 : rows <= 100 ? 100 : 300]++;
    case_t c;
    c.rows = rows;
    // input features: up to ~20 flatten columns
    const auto ncols_target = g.rng.range(1, 20);
    long       ncols        = 0;
    while (ncols < ncols_target)
    {
        const auto what = g.rng.range(0, 9);
        if (what == 0)
        {
            c.feats.push_back(g.categorical(rows, false, true, cnt.patterns));
            ncols += c.feats.back().width - 1;
        }
        else if (what == 1)
        {
            c.feats.push_back(g.categorical(rows, true, true, cnt.patterns));
            ncols += c.feats.back().width;
        }
        else
        {
            const auto width = what <= 6 ? 1 : static_cast<int>(g.rng.range(2, 4));
            c.feats.push_back(g.continuous(rows, width, true, cnt.kinds, cnt.patterns));
            ncols += width;
        }
    }
    // target (never optional): continuous with 1..5 components, or categorical
    const auto tkind = g.rng.range(0, 5);
    cnt.target_kinds[static_cast<int>(tkind)]++;
    if (tkind == 0)
    {
        c.feats.push_back(g.categorical(rows, false, false, cnt.patterns));
    }
    else if (tkind == 1)
    {
        c.feats.push_back(g.categorical(rows, true, false, cnt.patterns));
    }
    else
    {
        c.feats.push_back(g.continuous(rows, static_cast<int>(g.rng.range(1, 5)), false, cnt.kinds, cnt.patterns));
    }
    exec_case(g, icase, thorough, eps, c, false);
}

void exec_case(gen_t& g, long icase, bool thorough, double eps, const case_t& c, bool all_samples)
{
    const auto rows = c.rows;
    c14_datasource_t ds(c);
    ds.load();
    dataset_t dataset{ds};
    // generator order decides the column order (so that categorical columns are first, in the middle or last)
    int order[4] = {0, 1, 2, 3};
    for (int i = 3; i > 0; --i) std::swap(order[i], order[g.rng.range(0, i)]);
    for (const auto o : order)
    {
        switch (o)
        {
        case 0: dataset.add<sclass_identity_generator_t>(); break;
        case 1: dataset.add<mclass_identity_generator_t>(); break;
        case 2: dataset.add<scalar_identity_generator_t>(); break;
        default: dataset.add<struct_identity_generator_t>(); break;
        }
    }
    if (dataset.columns() == 0)
    {
        return;
    }
    cnt.cases++;

    // samples: all, a sorted subset, a shuffled subset, a single sample
    indices_t samples = arange(0, rows);
    {
        static const int hows[] = {0, 0, 0, 0, 0, 3, 3, 4, 4, 5}; // 0: all, 3: sorted subset, 4: shuffled subset, 5: single
        const auto       how    = hows[g.rng.range(0, 9)];
        if (how >= 3 && rows > 1 && !all_samples)
        {
            std::vector<tensor_size_t> idx(static_cast<size_t>(rows));
            for (tensor_size_t i = 0; i < rows; ++i) idx[static_cast<size_t>(i)] = i;
            for (auto i = rows - 1; i > 0; --i) std::swap(idx[static_cast<size_t>(i)], idx[static_cast<size_t>(g.rng.range(0, i))]);
            const auto keep = how == 5 ? 1 : g.rng.range(1, rows);
            idx.resize(static_cast<size_t>(keep));
            if (how == 3) std::sort(idx.begin(), idx.end());
            samples = indices_t(keep);
            for (tensor_size_t i = 0; i < keep; ++i) samples(i) = idx[static_cast<size_t>(i)];
        }
    }
    static const tensor_size_t batches[] = {1, 2, 3, 4, 7, 10, 64, 1000};
    const auto                 batch     = batches[g.rng.range(0, 7)];

    tensor2d_t buffer;
    tensor2d_t raw = dataset.flatten(samples, buffer);
    const auto C   = raw.cols();
    const auto S   = raw.rows();

    const auto fstats = scalar_stats_t::make_flatten_stats(dataset, samples, batch);
    const auto tstats = scalar_stats_t::make_targets_stats(dataset, samples, batches[g.rng.range(0, 7)]);
    tensor4d_t tbuffer;
    tensor2d_t traw = dataset.targets(samples, tbuffer).reshape(S, -1);
    const auto T    = traw.cols();
    const auto tcat = dataset.target().is_sclass() || dataset.target().is_mclass();

    std::vector<uint8_t> enabled(static_cast<size_t>(C));
    for (tensor_size_t col = 0; col < C; ++col)
    {
        const auto feature               = dataset.feature(dataset.column2feature(col));
        enabled[static_cast<size_t>(col)] = (feature.is_sclass() || feature.is_mclass()) ? 0U : 1U;
    }

    // ---- statistics: flatten columns, then target columns ------------------------------------------------------
    const auto emit_columns = [&](const tensor2d_t& data, const scalar_stats_t& st, const std::string& tag, const auto& en)
    {
        for (tensor_size_t col = 0; col < data.cols(); ++col)
        {
            const auto id  = std::to_string(icase) + "." + tag + std::to_string(col);
            const auto v   = column_of(data, col);
            const auto e   = en(col);
            long       fin = 0;
            for (const auto x : v) fin += std::isfinite(x) ? 1 : 0;
            cnt.columns++;
            cnt.values += static_cast<long>(v.size());
            cnt.categorical_columns += e ? 0 : 1;
            cnt.empty_columns += (e && fin == 0) ? 1 : 0;
            cnt.single_columns += (e && fin == 1) ? 1 : 0;
            cnt.constant_columns += (e && fin > 1 && st.m_min(col) == st.m_max(col)) ? 1 : 0;
            cnt.guard_range_columns += (e && fin > 1 && st.m_max(col) - st.m_min(col) < eps) ? 1 : 0;
            cnt.guard_stdev_columns += (e && fin > 1 && st.m_stdev(col) < eps) ? 1 : 0;
            std::printf("COL %s en=%d i=%ld of=%ld | %s = %s\n", id.c_str(), e ? 1 : 0, static_cast<long>(col),
                        static_cast<long>(data.cols()), hexjoin(v).c_str(), stats_str(st, col).c_str());
            cnt.col_lines++;
            check_column_stats(id, v, st, col, e, eps);
        }
    };
    emit_columns(raw, fstats, "f", [&](tensor_size_t col) { return enabled[static_cast<size_t>(col)] != 0U; });
    emit_columns(traw, tstats, "t", [&](tensor_size_t) { return !tcat; });

    // metamorphic: drop the missing samples of up to two continuous columns
    for (int k = 0, tried = 0; k < 2 && tried < 8; ++tried)
    {
        const auto col = g.rng.range(0, C - 1);
        if (enabled[static_cast<size_t>(col)] != 0U)
        {
            check_missing_metamorphic(std::to_string(icase) + ".f" + std::to_string(col), column_of(raw, col), fstats, col, batch);
            ++k;
        }
    }

    // ---- scale / upscale on the data and on fresh values, all four modes ---------------------------------------
    tensor2d_t fresh(std::min<tensor_size_t>(S, 4), C);
    for (tensor_size_t r = 0; r < fresh.rows(); ++r)
    {
        for (tensor_size_t col = 0; col < C; ++col)
        {
            const auto base = raw(g.rng.range(0, S - 1), col);
            const auto what = g.rng.range(0, 3);
            fresh(r, col)   = !std::isfinite(base) ? (what == 0 ? base : g.full()) :
                              what == 0            ? base :
                              what == 1            ? base * (0.5 + 1.5 * g.rng.unit()) :
                              what == 2            ? g.full() :
                                                     std::numeric_limits<double>::quiet_NaN();
            if (enabled[static_cast<size_t>(col)] == 0U && std::isfinite(fresh(r, col)))
            {
                fresh(r, col) = (g.rng.next() & 1U) ? 1.0 : -1.0;
            }
        }
    }
    for (int mode = 0; mode < 4; ++mode)
    {
        const auto run = [&](const tensor2d_t& data, const scalar_stats_t& st, const std::string& tag, const auto& en, bool isfresh)
        {
            // targets go through the 4D overloads (as targets_iterator_t does), inputs through the 2D ones
            const auto use4d  = tag == "t";
            tensor2d_t scaled = data;
            if (use4d)
            {
                st.scale(modes[mode], scaled.reshape(data.rows(), data.cols(), 1, 1));
            }
            else
            {
                st.scale(modes[mode], scaled.tensor());
            }
            tensor2d_t upscaled = scaled;
            if (use4d)
            {
                st.upscale(modes[mode], upscaled.reshape(data.rows(), data.cols(), 1, 1));
            }
            else
            {
                st.upscale(modes[mode], upscaled.tensor());
            }
            for (tensor_size_t col = 0; col < data.cols(); ++col)
            {
                const auto id = std::to_string(icase) + "." + tag + std::to_string(col);
                const auto v  = column_of(data, col);
                const auto s  = column_of(scaled, col);
                const auto u  = column_of(upscaled, col);
                check_column_scaling(id, mode, v, s, u, st, col, en(col), isfresh, eps);
                // correspondence lines: at most 24 entries per column (first ones, plus the extremes)
                std::vector<size_t> pick;
                for (size_t i = 0; i < v.size() && pick.size() < 20; ++i) pick.push_back(i);
                for (size_t i = 20; i < v.size() && pick.size() < 24; ++i)
                {
                    if (v[i] == st.m_min(col) || v[i] == st.m_max(col) || !std::isfinite(v[i])) pick.push_back(i);
                }
                std::vector<double> pv, ps, pu;
                for (const auto i : pick)
                {
                    pv.push_back(v[i]);
                    ps.push_back(s[i]);
                    pu.push_back(u[i]);
                }
                std::printf("SC %s mode=%d | %s | %s = %s ; %s\n", id.c_str(), mode, stats_str(st, col).c_str(), hexjoin(pv).c_str(),
                            hexjoin(ps).c_str(), hexjoin(pu).c_str());
                cnt.sc_lines++;
                // extension: ALL values of a longer column as bit patterns, for the bit-for-bit comparison with the PrimFloat twin
                // and the proved bounds (the SC line above lists at most 24)
                if (v.size() > pick.size())
                {
                    std::string line = "FSC " + id + " mode=" + std::to_string(mode) + " | " + stats_str(st, col) + " | ";
                    line += bitjoin(v);
                    line += " = ";
                    line += bitjoin(s);
                    line += " ; ";
                    line += bitjoin(u);
                    std::puts(line.c_str());
                    cnt.fsc_lines++;
                    cnt.fsc_values += static_cast<long>(v.size());
                }
            }
        };
        run(raw, fstats, "f", [&](tensor_size_t col) { return enabled[static_cast<size_t>(col)] != 0U; }, false);
        run(fresh, fstats, "x", [&](tensor_size_t col) { return enabled[static_cast<size_t>(col)] != 0U; }, true);
        run(traw, tstats, "t", [&](tensor_size_t) { return !tcat; }, false);
    }

    // the iterator delivers exactly the scaled values (spot check, mode chosen at random)
    {
        const auto mode     = static_cast<int>(g.rng.range(0, 3));
        auto       iterator = flatten_iterator_t{dataset, samples};
        iterator.scaling(modes[mode]);
        iterator.batch(batch);
        tensor2d_t expected = raw;
        fstats.scale(modes[mode], expected.tensor());
        tensor2d_t got(S, C);
        iterator.loop([&](tensor_range_t range, size_t, tensor2d_cmap_t inputs) { got.slice(range) = inputs; });
        for (tensor_size_t i = 0; i < got.size(); ++i)
        {
            if (!same_bits(got(i), expected(i)))
            {
                fail("iterator", std::to_string(icase), "flatten_iterator_t value differs from scalar_stats_t::scale: mode=" +
                                                            std::to_string(mode) + " index=" + std::to_string(i) + " got=" +
                                                            vh::hexf(got(i)) + " expected=" + vh::hexf(expected(i)));
                break;
            }
        }
    }

    // ---- affine up-scaling: W' x + b' == upscale_t(W scale_f(x) + b) ----------------------------------------------
    const int npairs = thorough ? 6 : 3;
    for (int pair = 0; pair < npairs; ++pair)
    {
        const auto fm = static_cast<int>(g.rng.range(0, 3));
        const auto tm = pair == 0 ? fm : static_cast<int>(g.rng.range(0, 3)); // linear_t uses the same mode for both
        tensor2d_t W(T, C);
        tensor1d_t b(T);
        const auto wm = g.mag(-3, 3);
        for (tensor_size_t i = 0; i < W.size(); ++i)
        {
            W(i) = g.rng.range(0, 9) == 0 ? 0.0 : g.sgn() * wm * (0.05 + g.rng.unit());
        }
        for (tensor_size_t i = 0; i < T; ++i)
        {
            b(i) = g.rng.range(0, 9) == 0 ? 0.0 : g.sgn() * g.mag(-3, 3);
        }
        tensor2d_t W2 = W;
        tensor1d_t b2 = b;
        ::nano::upscale(fstats, modes[fm], tstats, modes[tm], W2.tensor(), b2.tensor());

        std::string ws, ws2;
        for (tensor_size_t i = 0; i < T; ++i)
        {
            std::vector<double> r1, r2;
            for (tensor_size_t j = 0; j < C; ++j)
            {
                r1.push_back(W(i, j));
                r2.push_back(W2(i, j));
            }
            ws += (i ? "/" : "") + hexjoin(r1);
            ws2 += (i ? "/" : "") + hexjoin(r2);
        }
        std::printf("AFF %ld fm=%d tm=%d | %s | %s | %s | %s = %s | %s\n", icase, fm, tm, all_stats_str(fstats).c_str(),
                    all_stats_str(tstats).c_str(), ws.c_str(), hexjoin(b).c_str(), ws2.c_str(), hexjoin(b2).c_str());
        cnt.aff_lines++;

        // predictions on raw finite inputs: rows of the data without missing values and fresh finite rows
        tensor2d_t X(S + fresh.rows(), C);
        tensor_size_t nx = 0;
        const auto    add_row = [&](const tensor2d_t& src, tensor_size_t r)
        {
            for (tensor_size_t j = 0; j < C; ++j)
            {
                if (!std::isfinite(src(r, j))) return;
            }
            for (tensor_size_t j = 0; j < C; ++j) X(nx, j) = src(r, j);
            ++nx;
        };
        for (tensor_size_t r = 0; r < S && nx < 12; ++r) add_row(raw, r);
        for (tensor_size_t r = 0; r < fresh.rows(); ++r) add_row(fresh, r);
        if (nx < 2)
        {
            // too many missing values: fill them with a finite value of the column (or an arbitrary one)
            for (tensor_size_t r = 0; r < std::min<tensor_size_t>(S, 3); ++r)
            {
                for (tensor_size_t j = 0; j < C; ++j)
                {
                    X(nx, j) = std::isfinite(raw(r, j)) ? raw(r, j) : (enabled[static_cast<size_t>(j)] != 0U ? g.full() : 1.0);
                }
                ++nx;
            }
        }
        tensor2d_t Xs = X;
        fstats.scale(modes[fm], Xs.tensor());
        for (tensor_size_t r = 0; r < nx; ++r)
        {
            tensor2d_t y(1, T);
            std::vector<ld> mag(static_cast<size_t>(T));
            for (tensor_size_t i = 0; i < T; ++i)
            {
                ld acc = b(i), m = std::fabs(static_cast<ld>(b(i)));
                for (tensor_size_t j = 0; j < C; ++j)
                {
                    acc += static_cast<ld>(W(i, j)) * Xs(r, j);
                    m += std::fabs(static_cast<ld>(W(i, j)) * Xs(r, j));
                }
                y(0, i)                     = static_cast<double>(acc);
                mag[static_cast<size_t>(i)] = m;
            }
            tstats.upscale(modes[tm], y.tensor());
            cnt.pred_rows++;
            for (tensor_size_t i = 0; i < T; ++i)
            {
                ld p1 = b2(i), m1 = std::fabs(static_cast<ld>(b2(i)));
                for (tensor_size_t j = 0; j < C; ++j)
                {
                    p1 += static_cast<ld>(W2(i, j)) * X(r, j);
                    m1 += std::fabs(static_cast<ld>(W2(i, j)) * X(r, j));
                }
                // magnitude of the terms summed inside b' = (W fb + b - tb) / tw
                const ld tw = div_of(tstats, tm, i);
                const ld tb = -static_cast<ld>(offset_of(tstats, tm, i)) * tw;
                ld       mb = std::fabs(static_cast<ld>(b(i))) + std::fabs(tb);
                for (tensor_size_t j = 0; j < C; ++j)
                {
                    mb += std::fabs(static_cast<ld>(W(i, j)) * offset_of(fstats, fm, j) * div_of(fstats, fm, j));
                }
                const ld M = m1 + mb / std::fabs(tw) + mag[static_cast<size_t>(i)] * mul_of(tstats, tm, i) +
                             std::fabs(static_cast<ld>(offset_of(tstats, tm, i)));
                const ld tol = 32 * (C + 8) * U * M + 1e-300L;
                if (!(std::fabs(p1 - static_cast<ld>(y(0, i))) <= tol))
                {
                    std::vector<double> xr, wr, wr2;
                    for (tensor_size_t j = 0; j < C; ++j)
                    {
                        xr.push_back(X(r, j));
                        wr.push_back(W(i, j));
                        wr2.push_back(W2(i, j));
                    }
                    fail("affine", std::to_string(icase),
                         "W'x+b' != upscale(W scale(x) + b): fm=" + std::to_string(fm) + " tm=" + std::to_string(tm) + " output=" +
                             std::to_string(i) + " lhs=" + vh::hexf(static_cast<double>(p1)) + " rhs=" + vh::hexf(y(0, i)) +
                             " tol=" + vh::hexf(static_cast<double>(tol)) + " x=" + hexjoin(xr) + " w=" + hexjoin(wr) + " b=" +
                             vh::hexf(b(i)) + " w'=" + hexjoin(wr2) + " b'=" + vh::hexf(b2(i)) + " fstats=" + all_stats_str(fstats) +
                             " tstat=" + stats_str(tstats, i));
                    r = nx;
                    break;
                }
            }
        }
    }
}
} // namespace

int main(int argc, char** argv)
{
    std::setvbuf(stdout, nullptr, _IOLBF, 0);
    const bool thorough = argc > 1 && std::string(argv[1]) == "thorough";
    long       ncases   = thorough ? 4000 : 500;
    if (argc > 2)
    {
        ncases = std::atol(argv[2]);
    }
    const auto chunk = argc > 3 ? std::strtoull(argv[3], nullptr, 10) : 0ULL;
    const auto eps   = epsilon2<scalar_t>();
    std::printf("CONST %s %s\n", vh::hexf(eps).c_str(), vh::hexf(std::numeric_limits<scalar_t>::max()).c_str());

    gen_t g((vh::env_seed() + 1000003ULL * chunk) * 0x9E3779B97F4A7C15ULL + 14U);

    // one continuous column (nan = missing) + a continuous target, all samples
    const auto column_case = [&](const std::vector<double>& col, long icase)
    {
        case_t cc;
        cc.rows = static_cast<tensor_size_t>(col.size());
        feat_t f, t;
        f.kind = k_scalar;
        t.kind = k_scalar;
        for (size_t i = 0; i < col.size(); ++i)
        {
            f.present.push_back(std::isfinite(col[i]) ? 1U : 0U);
            f.values.push_back({col[i]});
            t.present.push_back(1U);
            t.values.push_back({static_cast<double>(i % 3) - 0.5});
        }
        cc.feats = {f, t};
        exec_case(g, icase, thorough, eps, cc, true);
    };

    if (argc > 2 && std::string(argv[1]) == "column")
    {
        // replay of one column: c14_scaling column v1,v2,...   (decimal or hex floats, nan = missing)
        std::vector<double> col;
        for (const auto& tok : vh::split(argv[2], ','))
        {
            col.push_back(vh::parsef(tok));
        }
        column_case(col, 0);
        std::printf("DONE cases=%ld fails=%ld\n", cnt.cases, cnt.fails);
        return 0;
    }

    // fixed corpus (chunk 0 only): constant columns of every length 2..12 and a few larger ones, for constants whose
    // one-pass variance is known to round below zero (C14 finding, fixed in 4a52c08) and for "nice" constants
    long icase = 0;
    if (chunk == 0)
    {
        const double consts[] = {-524.2281314218426, 0.1, 0.3, 1e-3, 123456.789, -0.7, 1.1, 1e6 / 3.0, 1e-6 * 7.0, 2.0 / 3.0};
        const int    sizes[]  = {2, 3, 4, 5, 6, 7, 8, 9, 10, 11, 12, 33, 100, 300};
        for (const auto c : consts)
        {
            for (const auto n : sizes)
            {
                column_case(std::vector<double>(static_cast<size_t>(n), c), icase++);
            }
        }
        cnt.corpus_cases = icase;
    }
    for (; icase < ncases; ++icase)
    {
        run_case(g, icase, thorough, eps);
    }

    const auto hist = [](const std::map<int, int>& m)
    {
        std::string s;
        for (const auto& kv : m) s += (s.empty() ? "" : ",") + std::to_string(kv.first) + ":" + std::to_string(kv.second);
        return s;
    };
    std::printf("DONE corpus_cases=%ld cases=%ld columns=%ld values=%ld fails=%ld col_lines=%ld sc_lines=%ld aff_lines=%ld pred_rows=%ld rt_values=%ld "
                "missing_values=%ld categorical_columns=%ld constant_columns=%ld single_columns=%ld empty_columns=%ld "
                "guard_range_columns=%ld guard_stdev_columns=%ld meta_columns=%ld fsc_lines=%ld fsc_values=%ld kinds=%s patterns=%s rows=%s targets=%s\n",
                cnt.corpus_cases, cnt.cases, cnt.columns, cnt.values, cnt.fails, cnt.col_lines, cnt.sc_lines, cnt.aff_lines, cnt.pred_rows,
                cnt.rt_values, cnt.missing_values, cnt.categorical_columns, cnt.constant_columns, cnt.single_columns,
                cnt.empty_columns, cnt.guard_range_columns, cnt.guard_stdev_columns, cnt.meta_columns, cnt.fsc_lines, cnt.fsc_values, hist(cnt.kinds).c_str(),
                hist(cnt.patterns).c_str(), hist(cnt.rows_hist).c_str(), hist(cnt.target_kinds).c_str());
    return 0;
}
