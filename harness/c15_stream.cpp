// C15 harness: serialises real libnano objects (tensors, parameters, configurables, features, factory objects,
// fitted linear / gradient boosting models and weak learners), reads them back, and reports for every object
//   * the written bytes, * the verdict (accept / failbit / exception) of the real reader on EVERY strict prefix,
//   * the verdict on single-byte corruptions, * a semantic dump of the object (for the model to compare with).
// Direct property oracles (independent of the Coq model) print FAIL lines:
//   ROUNDTRIP (re-read object differs / re-serialisation differs / predictions differ), TRUNC (a strict prefix was
//   accepted), PAYLOAD (an altered tensor payload byte was accepted), HEADER (an altered header byte was accepted and
//   the decoded tensor is not the original one).
// Usage: c15_stream <quick|thorough> [corrupt]
//   without `corrupt` (ASan+UBSan build): round trips, all truncations, tensor corruptions whose implied allocation is small
//   with `corrupt` (plain build, RLIMIT_AS = 2 GiB so that absurd sizes fail with bad_alloc instead of thrashing):
//   single-byte corruptions of every object, including those that blow up size fields.
// All random choices derive from VERIF_SEED.
#include "common.h"
#include <algorithm>
#include <functional>
#include <nano/configurable.h>
#include <nano/core/stream.h>
#include <nano/feature.h>
#include <nano/loss.h>
#include <nano/lsearch0.h>
#include <nano/lsearchk.h>
#include <nano/parameter.h>
#include <nano/solver.h>
#include <nano/splitter.h>
#include <nano/tensor/stream.h>
#include <nano/tuner.h>
#include <map>
#include <set>
#include <sstream>
#include <sys/resource.h>
#include "c15_models.h"

using namespace nano;

static long        g_fail    = 0;
static long        g_objects = 0;
static bool        g_corrupt = false; // `corrupt` mode (plain build)
static bool        g_thorough = false;
static vh::rng_t   g_rng(1);
static vh::rng_t   g_crng(2); // corruption choices: separate stream so that both modes build the same objects

#define FAIL(...)                                                                                                      \
    do {                                                                                                               \
        std::printf("FAIL ");                                                                                          \
        std::printf(__VA_ARGS__);                                                                                      \
        std::printf("\n");                                                                                             \
        ++g_fail;                                                                                                      \
    } while (0)

static std::string hex(const std::string& s)
{
    static const char* d = "0123456789abcdef";
    std::string        o;
    o.reserve(2 * s.size());
    for (unsigned char c : s)
    {
        o.push_back(d[c >> 4]);
        o.push_back(d[c & 15]);
    }
    return o;
}

static std::string joins(const std::vector<std::string>& v)
{
    std::string o;
    for (const auto& s : v) o += (o.empty() ? "" : ",") + s;
    return o;
}

// returns 'A' (accepted: stream good, no exception), 'R' (failed stream state), 'X' (exception)
using reader_t = std::function<char(const std::string&, std::string*)>;

template <class tobject, class tmake>
reader_t make_reader(tmake make)
{
    return [make](const std::string& bytes, std::string* reser) -> char
    {
        try
        {
            tobject            object = make();
            std::istringstream stream(bytes);
            if (!::nano::read(stream, object))
            {
                return 'R';
            }
            if (reser != nullptr)
            {
                std::ostringstream out;
                ::nano::write(out, object);
                *reser = out.str();
            }
            return 'A';
        }
        catch (const std::exception&)
        {
            return 'X';
        }
    };
}

template <class tobject>
std::string serialize(const tobject& object)
{
    std::ostringstream out;
    ::nano::write(out, object);
    if (!out)
    {
        FAIL("WRITE stream failed");
    }
    return out.str();
}

// round trip into a destination that is NOT fresh: `used` already holds another object of the same type (a re-used
// model / feature / tensor); after a successful read it must be observationally the written object, i.e. serialize to
// the very same bytes (seeded changes C15/4, C15/5: an "early exit" / "avoid reallocating" shortcut in a reader keeps
// stale state of the destination while reporting success)
// what a destination serialises to (a null factory pointer: nothing)
template <class tobject>
std::string dest_bytes(const tobject& object)
{
    return serialize(object);
}
template <class tobject>
std::string dest_bytes(const std::unique_ptr<tobject>& object)
{
    return object ? serialize(object) : std::string{};
}

static long g_reuse = 0;

// every such read is also a line for the STATEFUL reader model (C15_Dest_Defs.read_into):
//   REUSE spec | bytes of the destination before the read | stream | verdict | bytes of the destination afterwards
template <class tobject>
void reuse_roundtrip(const std::string& spec, const std::string& bytes, tobject used)
{
    const char* kind = spec.c_str();
    std::string before;
    try
    {
        before = dest_bytes(used);
    }
    catch (const std::exception&)
    {
        return;
    }
    ++g_reuse;
    try
    {
        std::istringstream stream(bytes);
        if (!::nano::read(stream, used))
        {
            std::printf("REUSE %s | %s | %s | R | -\n", kind, hex(before).c_str(), hex(bytes).c_str());
            FAIL("ROUNDTRIP-REUSED %s: reading a valid stream into a used destination failed hex=%s", kind, hex(bytes).c_str());
            return;
        }
        const auto again = dest_bytes(used);
        std::printf("REUSE %s | %s | %s | A | %s\n", kind, hex(before).c_str(), hex(bytes).c_str(), hex(again).c_str());
        if (again != bytes)
        {
            FAIL("ROUNDTRIP-REUSED %s: the destination keeps stale state: re-serialized hex=%s written hex=%s dest hex=%s", kind,
                 hex(again).c_str(), hex(bytes).c_str(), hex(before).c_str());
        }
    }
    catch (const std::exception& e)
    {
        std::printf("REUSE %s | %s | %s | X | -\n", kind, hex(before).c_str(), hex(bytes).c_str());
        FAIL("ROUNDTRIP-REUSED %s: exception %s hex=%s", kind, e.what(), hex(bytes).c_str());
    }
}

// a read that FAILS half-way (a strict prefix of a valid stream) into a used destination: failure must be reported; the
// state the destination is left in is printed for the model (C15_Dest_Defs.rd), it is NOT required to be the old one
//   HALF spec | destination before | truncated stream | verdict | destination afterwards
template <class tobject>
void half_read(const std::string& spec, const std::string& prefix, tobject used)
{
    const auto before = dest_bytes(used);
    char       verdict = 'R';
    try
    {
        std::istringstream stream(prefix);
        if (::nano::read(stream, used))
        {
            verdict = 'A';
            FAIL("TRUNC %s strict prefix of %zu bytes accepted into a used destination hex=%s", spec.c_str(), prefix.size(), hex(prefix).c_str());
        }
    }
    catch (const std::exception&)
    {
        verdict = 'X';
    }
    std::printf("HALF %s | %s | %s | %c | %s\n", spec.c_str(), hex(before).c_str(), hex(prefix).c_str(), verdict,
                hex(dest_bytes(used)).c_str());
}

// soft RLIMIT_AS = current virtual size + 4 MiB while corrupted streams are read (plain build only): absurd size
// fields then fail with bad_alloc at once instead of zero-filling gigabytes
static void limit_memory(bool on)
{
#if !defined(__SANITIZE_ADDRESS__)
    static rlim_t hard = 0;
    rlimit        lim{};
    getrlimit(RLIMIT_AS, &lim);
    if (hard == 0) hard = lim.rlim_max;
    if (on)
    {
        long  pages = 0;
        FILE* f     = std::fopen("/proc/self/statm", "r");
        if (f != nullptr)
        {
            if (std::fscanf(f, "%ld", &pages) != 1) pages = 0;
            std::fclose(f);
        }
        lim.rlim_cur = static_cast<rlim_t>(pages) * 4096U + (rlim_t{4} << 20);
    }
    else
    {
        lim.rlim_cur = hard;
    }
    setrlimit(RLIMIT_AS, &lim);
#else
    (void)on;
#endif
}

static std::map<std::string, int> g_budget; // corrupt mode, quick tier: objects per kind that get corrupted

struct corruption_t
{
    size_t        pos;
    unsigned char byte;
};

// region of a *standalone tensor stream* a byte belongs to: 0 version, 1 rank, 2 dims, 3 sizeof, 4 hash, 5 payload
static int tensor_region(size_t rank, size_t pos)
{
    if (pos < 4) return 0;
    if (pos < 8) return 1;
    if (pos < 8 + 4 * rank) return 2;
    if (pos < 12 + 4 * rank) return 3;
    if (pos < 20 + 4 * rank) return 4;
    return 5;
}

struct tensor_info_t
{
    bool   is_tensor{false};
    size_t rank{0};
    size_t width{0};
};

// number of elements the reader will try to allocate for the (corrupted) dims of a standalone tensor stream
static bool tensor_alloc_risky(const tensor_info_t& ti, const std::string& bytes)
{
    int64_t prod = 1;
    for (size_t i = 0; i < ti.rank; ++i)
    {
        int32_t d = 0;
        std::memcpy(&d, bytes.data() + 8 + 4 * i, 4);
        if (d < 0) return true;
        prod *= d;
        if (prod > (int64_t{1} << 22)) return true;
    }
    return false;
}

static void process(const std::string& spec, const std::string& bytes, const reader_t& rd, const std::string& info,
                    const tensor_info_t& ti = tensor_info_t{})
{
    if (g_corrupt && !ti.is_tensor && !g_thorough)
    {
        auto it = g_budget.find(spec);
        if (it == g_budget.end()) it = g_budget.emplace(spec, spec == "param" ? 14 : spec.rfind("object:", 0) == 0 ? 2 : 3).first;
        if (it->second-- <= 0) return;
    }
    ++g_objects;
    const size_t n = bytes.size();

    // 1. full read + re-serialisation
    {
        std::string re;
        const char  v = rd(bytes, &re);
        if (v != 'A')
        {
            FAIL("ROUNDTRIP %s valid stream rejected (%c) hex=%s", spec.c_str(), v, hex(bytes).c_str());
        }
        else if (re != bytes)
        {
            FAIL("ROUNDTRIP %s re-serialisation differs hex=%s re=%s", spec.c_str(), hex(bytes).c_str(), hex(re).c_str());
        }
    }

    // 2. every strict prefix
    std::string trunc = "-";
    if (!g_corrupt)
    {
        trunc.assign(n, '?');
        for (size_t k = 0; k < n; ++k)
        {
            trunc[k] = rd(bytes.substr(0, k), nullptr);
            if (trunc[k] == 'A')
            {
                FAIL("TRUNC %s prefix of %zu bytes (of %zu) accepted hex=%s", spec.c_str(), k, n, hex(bytes).c_str());
            }
        }
    }

    // 3. single-byte corruptions
    std::vector<corruption_t> cs;
    {
        // positions: all of them for small streams, otherwise a sample that always contains the first 64 bytes
        std::vector<size_t> positions;
        const size_t        cap = g_thorough ? (ti.is_tensor ? 4000 : 1000) : ti.is_tensor ? 600 : 160;
        if (n <= cap)
        {
            for (size_t p = 0; p < n; ++p) positions.push_back(p);
        }
        else
        {
            std::set<size_t> chosen;
            for (size_t p = 0; p < 64; ++p) chosen.insert(p);
            while (chosen.size() < cap) chosen.insert(static_cast<size_t>(g_crng.range(0, static_cast<int64_t>(n) - 1)));
            positions.assign(chosen.begin(), chosen.end());
        }
        for (const auto p : positions)
        {
            const auto old = static_cast<unsigned char>(bytes[p]);
            unsigned char news[3] = {static_cast<unsigned char>(old ^ 0x01U), static_cast<unsigned char>(old ^ 0x80U),
                                     static_cast<unsigned char>(g_crng.range(0, 255))};
            if (news[2] == old || news[2] == news[0] || news[2] == news[1]) news[2] = static_cast<unsigned char>(old + 3U);
            const int nvar = ti.is_tensor ? 3 : 2;
            for (int i = 0; i < nvar; ++i) cs.push_back({p, news[i == 1 && !ti.is_tensor ? 2 : i]});
            // boundary: the next smaller value of a header field (sizeof - 1, rank - 1, dim - 1, ...)
            if (ti.is_tensor && old > 1 && tensor_region(ti.rank, p) != 5) cs.push_back({p, static_cast<unsigned char>(old - 1U)});
            if (!ti.is_tensor && (p % 4) == 3) cs.push_back({p, news[1]}); // sign / top bit of many fields
        }
    }
    std::ostringstream corr;
    bool               first = true;
    if (g_corrupt) limit_memory(true);
    for (const auto& c : cs)
    {
        std::string b = bytes;
        b[c.pos]      = static_cast<char>(c.byte);
        if (ti.is_tensor)
        {
            const bool risky = tensor_alloc_risky(ti, b);
            if (risky != g_corrupt) continue; // ASan run: small allocations only; plain run: the rest
        }
        else if (!g_corrupt)
        {
            continue;
        }
        std::string re;
        const char  v = rd(b, &re);
        if (!first) corr << ";";
        first = false;
        corr << c.pos << ":" << static_cast<int>(c.byte) << ":" << v;
        if (v == 'A' && ti.is_tensor)
        {
            const int region = tensor_region(ti.rank, c.pos);
            if (region == 5)
            {
                FAIL("PAYLOAD %s altered payload byte %zu -> %d accepted hex=%s", spec.c_str(), c.pos,
                     static_cast<int>(c.byte), hex(bytes).c_str());
            }
            else if (region == 2 && re != bytes && n == 20 + 4 * ti.rank)
            {
                // an EMPTY tensor whose dimensions changed but still multiply to zero (the hash only covers the
                // elements): accepted as a tensor of another shape -- counted, see notes/C15.md and C15_dims_corruption_refuted
                std::printf("EMPTYDIMS %s pos=%zu byte=%d hex=%s re=%s\n", spec.c_str(), c.pos, static_cast<int>(c.byte),
                            hex(bytes).c_str(), hex(re).c_str());
            }
            else
            {
                // version / rank / sizeof / stored hash altered, or the dimensions of a non-empty tensor: must be rejected
                FAIL("HEADER %s altered header byte %zu -> %d (region %d) accepted hex=%s re=%s", spec.c_str(), c.pos,
                     static_cast<int>(c.byte), region, hex(bytes).c_str(), hex(re).c_str());
            }
        }
    }
    if (g_corrupt) limit_memory(false);
    std::printf("OBJ %s | %s | %s | %s | %s\n", spec.c_str(), hex(bytes).c_str(), trunc.c_str(), corr.str().c_str(),
                info.c_str());
}

// ------------------------------------------------------------------------------------------------
// tensors: 10 scalar types x rank 1..5 x dims 0..6, elements = arbitrary bit patterns
// ------------------------------------------------------------------------------------------------
template <class tscalar>
struct scalar_traits
{
    static constexpr bool is_signed_int = std::is_integral_v<tscalar> && std::is_signed_v<tscalar>;
};

template <class tscalar, size_t R>
void one_tensor(const char* tname, size_t max_elems)
{
    std::array<tensor_size_t, R> dims{};
    for (int attempt = 0;; ++attempt)
    {
        tensor_size_t prod = 1;
        const auto    kind = g_rng.range(0, 9);
        for (size_t i = 0; i < R; ++i)
        {
            // mostly non-empty tensors: kind 0 small dims with zeros, kind 1 all ones, kind 2 the full 0..6 range, else 1..6
            dims[i] = (kind == 0) ? g_rng.range(0, 2) : (kind == 1) ? 1 : (kind == 2) ? g_rng.range(0, 6) : g_rng.range(1, attempt > 20 ? 2 : 6);
            prod *= dims[i];
        }
        if (static_cast<size_t>(prod) <= max_elems) break;
    }
    tensor_mem_t<tscalar, R> tensor(dims);
    const auto               fill = g_rng.range(0, 7);
    for (tensor_size_t i = 0; i < tensor.size(); ++i)
    {
        unsigned char raw[sizeof(tscalar)];
        for (auto& b : raw)
        {
            b = (fill == 0) ? 0x00 : (fill == 1) ? 0xFF : static_cast<unsigned char>(g_rng.range(0, 255));
        }
        if (fill == 2 && (i % 3) == 0) std::memset(raw, 0x80, sizeof(raw));
        std::memcpy(tensor.data() + i, raw, sizeof(tscalar));
    }

    const auto bytes = serialize(tensor);

    // semantic dump through the element accessor (not through the writer)
    std::ostringstream info;
    info << "dims=" << vh::join(dims.begin(), dims.end()) << ";elems=";
    for (tensor_size_t i = 0; i < tensor.size(); ++i)
    {
        const tscalar value = tensor(i);
        uint64_t      u     = 0;
        std::memcpy(&u, &value, sizeof(tscalar));
        char buf[32];
        std::snprintf(buf, sizeof(buf), "%s%" PRIx64, i ? "," : "", u);
        info << buf;
    }
    {
        char buf[64];
        std::snprintf(buf, sizeof(buf), ";hash=%" PRIx64, ::nano::detail::hash(tensor.data(), tensor.size()));
        info << buf;
    }

    // direct round trip oracle: dims and bit patterns of the re-read tensor
    {
        tensor_mem_t<tscalar, R> other;
        std::istringstream       stream(bytes);
        if (!::nano::read(stream, other) || other.dims() != tensor.dims() ||
            (tensor.size() > 0 && std::memcmp(other.data(), tensor.data(), sizeof(tscalar) * static_cast<size_t>(tensor.size())) != 0))
        {
            FAIL("ROUNDTRIP tensor %s rank %zu: re-read tensor differs hex=%s", tname, R, hex(bytes).c_str());
        }
        if (static_cast<size_t>(stream.tellg()) != bytes.size())
        {
            FAIL("ROUNDTRIP tensor %s rank %zu: reader consumed %ld of %zu bytes", tname, R, static_cast<long>(stream.tellg()), bytes.size());
        }
    }

    std::ostringstream spec;
    spec << "tensor:" << R << ":" << sizeof(tscalar) << ":" << (scalar_traits<tscalar>::is_signed_int ? 1 : 0) << ":" << tname;

    // re-used destinations: the previous tensor of this type and rank; the same element count in another shape
    // (dimensions reversed; for empty tensors another empty shape); a one-element tensor
    {
        static tensor_mem_t<tscalar, R> prev;
        reuse_roundtrip(spec.str(), bytes, prev);
        auto rdims = dims;
        std::reverse(rdims.begin(), rdims.end());
        tensor_mem_t<tscalar, R> reversed(rdims);
        reversed.full(static_cast<tscalar>(3));
        reuse_roundtrip(spec.str(), bytes, reversed);
        std::array<tensor_size_t, R> zdims{};
        for (size_t i = 0; i < R; ++i) zdims[i] = (i + 1 == R) ? 0 : 3;
        reuse_roundtrip(spec.str(), bytes, tensor_mem_t<tscalar, R>(zdims));
        // failing reads (header cut, payload cut in the middle of an element / after the first element) into the
        // reversed shape (same element count: the buffer is kept) and into the previous tensor
        const size_t hdr = 20 + 4 * R;
        for (const size_t cut : {size_t{7}, hdr - 1, hdr, hdr + sizeof(tscalar), hdr + sizeof(tscalar) + sizeof(tscalar) / 2, bytes.size() - 1})
        {
            if (cut < bytes.size())
            {
                half_read(spec.str(), bytes.substr(0, cut), reversed);
                half_read(spec.str(), bytes.substr(0, cut), prev);
            }
        }
        prev = tensor;
    }

    tensor_info_t ti;
    ti.is_tensor = true;
    ti.rank      = R;
    ti.width     = sizeof(tscalar);
    process(spec.str(), bytes, make_reader<tensor_mem_t<tscalar, R>>([] { return tensor_mem_t<tscalar, R>{}; }), info.str(), ti);
}

template <class tscalar>
void tensors_of(const char* tname, int per_rank, size_t max_elems)
{
    for (int i = 0; i < per_rank; ++i)
    {
        one_tensor<tscalar, 1>(tname, max_elems);
        one_tensor<tscalar, 2>(tname, max_elems);
        one_tensor<tscalar, 3>(tname, max_elems);
        one_tensor<tscalar, 4>(tname, max_elems);
        one_tensor<tscalar, 5>(tname, max_elems);
    }
}

static void all_tensors()
{
    const int    per_rank  = g_thorough ? 6 : 2;
    const size_t max_elems = g_thorough ? 400 : 60;
    tensors_of<int8_t>("int8", per_rank, max_elems);
    tensors_of<int16_t>("int16", per_rank, max_elems);
    tensors_of<int32_t>("int32", per_rank, max_elems);
    tensors_of<int64_t>("int64", per_rank, max_elems);
    tensors_of<uint8_t>("uint8", per_rank, max_elems);
    tensors_of<uint16_t>("uint16", per_rank, max_elems);
    tensors_of<uint32_t>("uint32", per_rank, max_elems);
    tensors_of<uint64_t>("uint64", per_rank, max_elems);
    tensors_of<float>("float", per_rank, max_elems);
    tensors_of<double>("double", per_rank, max_elems);
}

// the 64-bit content hash is not injective: replay of the one-byte collision proved in Coq (C15_payload_refuted,
// found with z3) on the real reader, for uint64 and for double tensors (same bit patterns)
template <class tscalar>
void collision_replay(const char* tname)
{
    const uint64_t a = 0xfde60bd381e8fe5cULL, b = 0x005f8802b261efc4ULL;
    tensor_mem_t<tscalar, 1> tensor(2);
    std::memcpy(tensor.data() + 0, &a, 8);
    std::memcpy(tensor.data() + 1, &b, 8);
    auto bytes = serialize(tensor);
    auto other = bytes;
    other[24]  = static_cast<char>(0x36); // first payload byte 0x5c -> 0x36
    tensor_mem_t<tscalar, 1> read_back;
    std::istringstream       stream(other);
    bool                     accepted = false;
    try { accepted = static_cast<bool>(::nano::read(stream, read_back)); } catch (const std::exception&) {}
    const bool differs = accepted && std::memcmp(read_back.data(), tensor.data(), 16) != 0;
    std::printf("COLLIDE %s verdict=%c differs=%d hex=%s corrupted=%s\n", tname, accepted ? 'A' : 'R', differs ? 1 : 0,
                hex(bytes).c_str(), hex(other).c_str());
}

// ------------------------------------------------------------------------------------------------
// parameters / configurables / features
// ------------------------------------------------------------------------------------------------
static std::string random_name(int maxlen = 12)
{
    const auto  len = g_rng.range(0, maxlen);
    std::string s;
    for (int64_t i = 0; i < len; ++i)
    {
        const auto k = g_rng.range(0, 20);
        s.push_back(k == 0 ? static_cast<char>(g_rng.range(0, 255)) : static_cast<char>(g_rng.range('a', 'z')));
    }
    return s;
}

static LEorLT random_comp()
{
    return g_rng.range(0, 1) == 0 ? LEorLT{LE} : LEorLT{LT};
}

enum class c15_enum_t : uint8_t
{
    alpha,
    beta,
    gamma_delta
};

namespace nano
{
template <>
inline enum_map_t<c15_enum_t> enum_string()
{
    return {
        {c15_enum_t::alpha, "alpha"}, {c15_enum_t::beta, "beta"}, {c15_enum_t::gamma_delta, "gamma-delta"}
    };
}
} // namespace nano

static parameter_t random_parameter(const std::string& name, int kind)
{
    switch (kind)
    {
    case 0: return parameter_t{};
    case 1: return parameter_t::make_enum(name, static_cast<c15_enum_t>(g_rng.range(0, 2)));
    case 2:
    {
        const auto lo = g_rng.range(-1000000, 1000), hi = lo + g_rng.range(2, 100000000);
        return parameter_t::make_integer(name, lo, random_comp(), g_rng.range(lo + 1, hi - 1), random_comp(), hi);
    }
    case 3:
    {
        const auto lo = (g_rng.unit() - 0.5) * 1e3, hi = lo + 1e-3 + g_rng.unit() * 1e6;
        return parameter_t::make_scalar(name, lo, random_comp(), lo + (hi - lo) * (0.01 + 0.98 * g_rng.unit()), random_comp(), hi);
    }
    case 4:
    {
        const auto lo = g_rng.range(-1000, 1000), hi = lo + g_rng.range(4, 100000);
        const auto v1 = g_rng.range(lo + 1, hi - 2), v2 = g_rng.range(v1 + 1, hi - 1);
        return parameter_t::make_integer_pair(name, lo, random_comp(), v1, random_comp(), v2, random_comp(), hi);
    }
    case 5:
    {
        const auto lo = (g_rng.unit() - 0.5) * 1e3, hi = lo + 1.0 + g_rng.unit() * 1e6;
        const auto v1 = lo + (hi - lo) * (0.01 + 0.4 * g_rng.unit()), v2 = v1 + (hi - v1) * (0.01 + 0.9 * g_rng.unit());
        return parameter_t::make_scalar_pair(name, lo, random_comp(), v1, random_comp(), v2, random_comp(), hi);
    }
    default: return parameter_t::make_string(name, random_name(20));
    }
}

static std::string param_info(const parameter_t& param)
{
    std::ostringstream info;
    info << "ptype=" << (static_cast<int>(param.storage().index()) - 1) << ";name=" << hex(param.name());
    return info.str();
}

static void all_parameters()
{
    const int reps = g_thorough ? 8 : 2;
    for (int rep = 0; rep < reps; ++rep)
    {
        for (int kind = 0; kind <= 6; ++kind)
        {
            const auto param = random_parameter(kind == 0 ? std::string{} : random_name(), kind);
            const auto bytes = serialize(param);
            {
                parameter_t        other;
                std::istringstream stream(bytes);
                bool               ok = false;
                try { ok = static_cast<bool>(::nano::read(stream, other)) && other == param; } catch (const std::exception&) {}
                if (!ok) FAIL("ROUNDTRIP parameter kind %d: re-read parameter differs hex=%s", kind, hex(bytes).c_str());
            }
            {
                static parameter_t prev;
                reuse_roundtrip("param", bytes, prev);
                // a destination of the same kind with another (longer / shorter) name, and every strict prefix cut at
                // a field boundary region into the previous parameter
                reuse_roundtrip("param", bytes, random_parameter("a-rather-long-stale-name", kind));
                reuse_roundtrip("param", bytes, random_parameter("s", 6));
                prev = param;
            }
            process("param", bytes, make_reader<parameter_t>([] { return parameter_t{}; }), param_info(param));
        }
    }
}

static void randomize(configurable_t& object); // below

static configurable_t random_configurable()
{
    configurable_t        object;
    const auto            count = g_rng.range(0, 6);
    std::set<std::string> names;
    for (int64_t i = 0; i < count; ++i)
    {
        auto name = random_name();
        if (name.empty() || !names.insert(name).second) continue;
        object.register_parameter(random_parameter(name, static_cast<int>(g_rng.range(1, 6))));
    }
    return object;
}

static bool same_parameters(const configurable_t& a, const configurable_t& b)
{
    return a.parameters() == b.parameters();
}

static void all_configurables()
{
    const int reps = g_thorough ? 12 : 3;
    for (int rep = 0; rep < reps; ++rep)
    {
        const auto object = random_configurable();
        const auto bytes  = serialize(object);
        {
            configurable_t     other;
            std::istringstream stream(bytes);
            bool               ok = false;
            try { ok = static_cast<bool>(::nano::read(stream, other)) && same_parameters(object, other); } catch (const std::exception&) {}
            if (!ok) FAIL("ROUNDTRIP configurable: re-read parameters differ hex=%s", hex(bytes).c_str());
        }
        {
            // the registered parameters of the destination are the destinations of the element reads
            static configurable_t prev;
            reuse_roundtrip("config", bytes, prev);
            reuse_roundtrip("config", bytes, random_configurable());
            prev = object;
        }
        std::ostringstream info;
        info << "nparams=" << object.parameters().size();
        process("config", bytes, make_reader<configurable_t>([] { return configurable_t{}; }), info.str());
    }
}

static feature_t random_feature()
{
    feature_t  feature(random_name());
    const auto kind = g_rng.range(0, 3);
    if (kind == 0)
    {
        strings_t labels(static_cast<size_t>(g_rng.range(0, 5)));
        for (auto& label : labels) label = random_name(6);
        feature.sclass(labels);
    }
    else if (kind == 1)
    {
        strings_t labels(static_cast<size_t>(g_rng.range(0, 5)));
        for (auto& label : labels) label = random_name(6);
        feature.mclass(labels);
    }
    else
    {
        feature.scalar(static_cast<feature_type>(g_rng.range(0, 9)),
                       make_dims(g_rng.range(1, 4), g_rng.range(1, 3), g_rng.range(1, 2)));
    }
    return feature;
}

static void all_features()
{
    const int reps = g_thorough ? 16 : 5;
    for (int rep = 0; rep < reps; ++rep)
    {
        const auto feature = random_feature();
        const auto bytes   = serialize(feature);
        {
            feature_t          other;
            std::istringstream stream(bytes);
            bool               ok = false;
            try { ok = static_cast<bool>(::nano::read(stream, other)) && other == feature; } catch (const std::exception&) {}
            if (!ok) FAIL("ROUNDTRIP feature: re-read feature differs hex=%s", hex(bytes).c_str());
        }
        {
            static feature_t prev;
            reuse_roundtrip("feature", bytes, prev);
            // same kind and label count, all labels / the name non-empty in the destination
            auto named = feature_t{"previous"};
            if (feature.is_sclass()) named.sclass(strings_t(feature.labels().size(), "stale"));
            else if (feature.is_mclass()) named.mclass(strings_t(feature.labels().size(), "stale"));
            reuse_roundtrip("feature", bytes, named);
            prev = feature;
        }
        if (rep == 0)
        {
            // directed: empty strings in the stream (labels not yet discovered, unnamed feature) over non-empty ones
            for (const auto& empty : {feature_t{}, feature_t{""}.sclass(3), feature_t{"f"}.mclass(2), feature_t{""}.sclass(strings_t{"", "b", ""})})
            {
                const auto ebytes = serialize(empty);
                reuse_roundtrip("feature", ebytes, feature_t{"named"}.sclass(strings_t{"cat", "dog", "cow"}));
                reuse_roundtrip("feature", ebytes, feature_t{"named"}.mclass(strings_t{"x", "y"}));
            }
            for (const auto& text : {std::string{}, std::string{"a"}, std::string{"wxyz"}, std::string(300, 'z')})
            {
                std::ostringstream out;
                ::nano::write(out, text);
                for (const auto& stale : {std::string{}, std::string{"stale"}, std::string{"abcdef"}, std::string(1000, 'q')})
                {
                    std::string        dest = stale;
                    std::istringstream in(out.str());
                    if (!::nano::read(in, dest) || dest != text)
                    {
                        FAIL("ROUNDTRIP-REUSED string: wrote %zu bytes, read back %zu bytes into a destination holding %zu bytes", text.size(),
                             dest.size(), stale.size());
                    }
                    reuse_roundtrip("string", out.str(), stale);
                    // failing reads: the size field cut, the characters cut (C15_dest_failure_not_atomic: "abcdef" <- 4,"xy")
                    for (size_t cut = 0; cut < out.str().size() && cut < 8; ++cut) half_read("string", out.str().substr(0, cut), stale);
                }
            }
            {
                const std::string witness{"\x04\x00\x00\x00xy", 6};
                half_read("string", witness, std::string{"abcdef"});
            }
        }
        std::ostringstream info;
        info << "ftype=" << scat(feature.type()) << ";name=" << hex(feature.name()) << ";labels=" << feature.labels().size();
        process("feature", bytes, make_reader<feature_t>([] { return feature_t{}; }), info.str());
    }
}

// ------------------------------------------------------------------------------------------------
// configured factory objects (loss, solver, tuner, splitter, line-search): type id + configurable
// ------------------------------------------------------------------------------------------------
static void randomize(configurable_t& object)
{
    for (const auto& cparam : object.parameters())
    {
        auto& param = object.parameter(cparam.name());
        try
        {
            std::visit(overloaded{[&](const parameter_t::enum_t& p)
                                  { param = p.m_domain[static_cast<size_t>(g_rng.range(0, static_cast<int64_t>(p.m_domain.size()) - 1))]; },
                                  [&](const parameter_t::irange_t& p)
                                  {
                                      const auto lo = p.m_min + (std::holds_alternative<LT_t>(p.m_mincomp) ? 1 : 0);
                                      const auto hi = p.m_max - (std::holds_alternative<LT_t>(p.m_maxcomp) ? 1 : 0);
                                      if (lo <= hi) param = g_rng.range(lo, std::min(hi, lo + 1000000));
                                  },
                                  [&](const parameter_t::frange_t& p)
                                  {
                                      const auto u = 0.001 + 0.998 * g_rng.unit();
                                      param        = p.m_min + (p.m_max - p.m_min) * u;
                                  },
                                  [&](const parameter_t::iprange_t& p)
                                  {
                                      const auto lo = p.m_min + 1, hi = p.m_max - 1;
                                      if (lo + 1 <= hi)
                                      {
                                          const auto v1 = g_rng.range(lo, std::min(hi - 1, lo + 1000));
                                          const auto v2 = g_rng.range(v1 + 1, std::min(hi, v1 + 1000));
                                          param         = std::make_tuple(v1, v2);
                                      }
                                  },
                                  [&](const parameter_t::fprange_t& p)
                                  {
                                      const auto u1 = 0.001 + 0.4 * g_rng.unit(), u2 = 0.5 + 0.4 * g_rng.unit();
                                      param = std::make_tuple(p.m_min + (p.m_max - p.m_min) * u1, p.m_min + (p.m_max - p.m_min) * u2);
                                  },
                                  [&](const string_t&) { param = random_name(16); }, [&](const std::monostate&) {}},
                       cparam.storage());
        }
        catch (const std::exception&)
        {
            // keep the default when the sampled value is outside the (open) domain
        }
    }
}

template <class tbase>
void factory_objects(const char* kind)
{
    const auto ids = tbase::all().ids();
    std::printf("IDS %s %s\n", kind, joins(ids).c_str());
    const int reps = g_thorough ? 2 : 1;
    for (const auto& id : ids)
    {
        for (int rep = 0; rep < reps; ++rep)
        {
            auto object = tbase::all().get(id);
            if (rep > 0 || g_rng.range(0, 3) != 0) randomize(*object);
            const auto bytes = serialize(object);
            {
                std::unique_ptr<tbase> other;
                std::istringstream     stream(bytes);
                bool                   ok = false;
                try
                {
                    ok = static_cast<bool>(::nano::read(stream, other)) && other && other->type_id() == id &&
                         same_parameters(*object, *other);
                }
                catch (const std::exception&)
                {
                }
                if (!ok) FAIL("ROUNDTRIP %s/%s: re-read object differs hex=%s", kind, id.c_str(), hex(bytes).c_str());
            }
            {
                // destinations: the previously serialised object of this base (another type id), a randomized object of
                // the same type, nothing
                static std::unique_ptr<tbase> prev;
                reuse_roundtrip(std::string("object:") + kind, bytes, prev ? prev->clone() : std::unique_ptr<tbase>{});
                auto same = tbase::all().get(id);
                randomize(*same);
                reuse_roundtrip(std::string("object:") + kind, bytes, std::move(same));
                prev = object->clone();
            }
            process(std::string("object:") + kind, bytes,
                    make_reader<std::unique_ptr<tbase>>([] { return std::unique_ptr<tbase>{}; }),
                    "id=" + id + ";nparams=" + std::to_string(object->parameters().size()));
        }
    }
}

int main(int argc, char** argv)
{
    std::setvbuf(stdout, nullptr, _IOLBF, 0);
    const std::string mode = argc > 1 ? argv[1] : "quick";
    g_thorough             = mode == "thorough";
    g_corrupt              = argc > 2 && std::string(argv[2]) == "corrupt";
    g_rng                  = vh::rng_t(vh::env_seed());
    g_crng                 = vh::rng_t(vh::env_seed() ^ 0xC0DEC0DEULL);
    std::printf("VERSION %d %d %d\n", static_cast<int>(nano::major_version), static_cast<int>(nano::minor_version),
                static_cast<int>(nano::patch_version));
    {
        const auto options = enum_string<feature_type>();
        std::string names;
        for (const auto& option : options) names += (names.empty() ? "" : ",") + std::string(option.second);
        std::printf("FTYPES %s\n", names.c_str());
    }

    if (!g_corrupt)
    {
        collision_replay<uint64_t>("uint64");
        collision_replay<double>("double");
    }
    all_tensors();
    all_parameters();
    all_configurables();
    all_features();
    factory_objects<loss_t>("loss");
    factory_objects<solver_t>("solver");
    factory_objects<tuner_t>("tuner");
    factory_objects<splitter_t>("splitter");
    factory_objects<lsearch0_t>("lsearch0");
    factory_objects<lsearchk_t>("lsearchk");
    c15::all_models(g_rng, g_thorough,
                    [](const std::string& spec, const std::string& bytes, const reader_t& rd, const std::string& info)
                    { process(spec, bytes, rd, info); },
                    [](const std::string& what) { FAIL("%s", what.c_str()); });

    std::printf("DONE objects=%ld reuse=%ld fails=%ld mode=%s%s\n", g_objects, g_reuse, g_fail, mode.c_str(), g_corrupt ? " corrupt" : "");
    return 0;
}
