// C19 harness: nano::parameter_t / configurable_t / the 11 factories, driven through the public interface.
//
// Output protocol (one line per operation, consumed by ocaml/c19_driver.ml and tools/checks/c19.py):
//   MAKE <st> = OK <st> | THROW                       construct a parameter (make_integer/make_scalar/...)
//   SETI z | SETD f | SETIP a b | SETIP32 a b | SETFP a b | SETS hex t1 t2 d0 d1 d2 | SETE hex | WR
//        ... ub=0 = OK|THROW | <st>                    assignment on the current parameter, state afterwards (the ub field is
//                                                     kept for the line format; since fix 0c6dfeb no assignment is undefined)
//   RDI|RDF|RDIP|RDFP|RDS|RDE = value(s) | THROW | SKIPUB
//   CFG ...                                           configurable_t histories (several objects, clones)
//   DEFAULT <factory> <idhex> <namehex> <st>           every registered parameter of every factory object
//   FACT <factory> <idhex> params=<n> cls=<hex>         per-object summary of the factory enumeration; cls = demangled dynamic type
//   CLONED <factory> <idhex> :: <tree> :: <tree>        (stage CLONETAB) a modified object and its clone; tree = <clshex> <cfg> [## <memberhex> <clshex> <cfg>]*
//   CONST F|I <c++ expression> <value>                 the symbolic constants used by register_parameter calls, as compiled
//                                                     (checked against the table of tools/checks/c19_params.py)
//   FAIL <what> :: <context>                           direct property oracle violated (independent of the model)
//   DONE ...
// <st> = N | E <hexv> <n> <hexd>... | I v mn mx c c | F v mn mx c c | IP v1 v2 mn mx c c c | FP ... | S <hex>
// strings are hex-encoded ("-" = empty), doubles are %a, c in {le,lt}.
#include "common.h"
#include <nano/configurable.h>
#include <nano/core/stream.h>
#include <nano/datasource.h>
#include <nano/function.h>
#include <nano/generator.h>
#include <nano/linear.h>
#include <nano/loss.h>
#include <nano/lsearch0.h>
#include <nano/lsearchk.h>
#include <nano/parameter.h>
#include <nano/solver.h>
#include <nano/splitter.h>
#include <nano/tuner.h>
#include <nano/wlearner.h>
#include <nano/dataset/scaling.h>
#include <nano/gboost/enums.h>
#include <nano/solver/lstep.h>
#include <nano/task.h>
#include <nano/wlearner/criterion.h>
#include <nano/wlearner/hinge.h>
#include <cxxabi.h>
#include <functional>
#include <limits>
#include <set>
#include <typeinfo>

using namespace nano;

namespace nano
{
enum class ea_t : uint8_t
{
    alpha,
    beta,
    gamma
};
enum class eb_t : uint8_t
{
    beta,
    delta
};
template <>
inline enum_map_t<ea_t> enum_string<ea_t>()
{
    return {
        {ea_t::alpha, "alpha"},
        { ea_t::beta,  "beta"},
        {ea_t::gamma, "gamma"}
    };
}
template <>
inline enum_map_t<eb_t> enum_string<eb_t>()
{
    return {
        { eb_t::beta,  "beta"},
        {eb_t::delta, "delta"}
    };
}
} // namespace nano

namespace
{
using std::string;
using ipar_t  = parameter_t::irange_t;
using fpar_t  = parameter_t::frange_t;
using ippar_t = parameter_t::iprange_t;
using fppar_t = parameter_t::fprange_t;
using epar_t  = parameter_t::enum_t;

constexpr int64_t IMIN = std::numeric_limits<int64_t>::min();
constexpr int64_t IMAX = std::numeric_limits<int64_t>::max();

long g_fail = 0, g_ops = 0, g_cases = 0, g_ub = 0, g_accept = 0, g_reject = 0;

string hexs(const string& s)
{
    if (s.empty()) return "-";
    static const char* d = "0123456789abcdef";
    string             o;
    for (unsigned char c : s)
    {
        o.push_back(d[c >> 4]);
        o.push_back(d[c & 15]);
    }
    return o;
}

const char* cs(const LEorLT& c)
{
    return std::holds_alternative<LE_t>(c) ? "le" : "lt";
}
bool isle(const LEorLT& c)
{
    return std::holds_alternative<LE_t>(c);
}
LEorLT mk(bool le)
{
    return le ? LEorLT{LE} : LEorLT{LT};
}

string st_of(const parameter_t::storage_t& st)
{
    std::ostringstream o;
    if (std::get_if<std::monostate>(&st)) o << "N";
    else if (const auto* e = std::get_if<epar_t>(&st))
    {
        o << "E " << hexs(e->m_value) << " " << e->m_domain.size();
        for (const auto& d : e->m_domain) o << " " << hexs(d);
    }
    else if (const auto* i = std::get_if<ipar_t>(&st))
        o << "I " << i->m_value << " " << i->m_min << " " << i->m_max << " " << cs(i->m_mincomp) << " " << cs(i->m_maxcomp);
    else if (const auto* f = std::get_if<fpar_t>(&st))
        o << "F " << vh::hexf(f->m_value) << " " << vh::hexf(f->m_min) << " " << vh::hexf(f->m_max) << " " << cs(f->m_mincomp)
          << " " << cs(f->m_maxcomp);
    else if (const auto* ip = std::get_if<ippar_t>(&st))
        o << "IP " << ip->m_value1 << " " << ip->m_value2 << " " << ip->m_min << " " << ip->m_max << " " << cs(ip->m_mincomp)
          << " " << cs(ip->m_valcomp) << " " << cs(ip->m_maxcomp);
    else if (const auto* fp = std::get_if<fppar_t>(&st))
        o << "FP " << vh::hexf(fp->m_value1) << " " << vh::hexf(fp->m_value2) << " " << vh::hexf(fp->m_min) << " "
          << vh::hexf(fp->m_max) << " " << cs(fp->m_mincomp) << " " << cs(fp->m_valcomp) << " " << cs(fp->m_maxcomp);
    else if (const auto* s = std::get_if<string_t>(&st)) o << "S " << hexs(*s);
    return o.str();
}

// the domain part only (what no assignment may ever change)
string dom_of(const parameter_t::storage_t& st)
{
    std::ostringstream o;
    if (std::get_if<std::monostate>(&st)) o << "N";
    else if (const auto* e = std::get_if<epar_t>(&st))
    {
        o << "E";
        for (const auto& d : e->m_domain) o << " " << hexs(d);
    }
    else if (const auto* i = std::get_if<ipar_t>(&st)) o << "I " << i->m_min << " " << i->m_max << cs(i->m_mincomp) << cs(i->m_maxcomp);
    else if (const auto* f = std::get_if<fpar_t>(&st))
        o << "F " << vh::hexf(f->m_min) << " " << vh::hexf(f->m_max) << cs(f->m_mincomp) << cs(f->m_maxcomp);
    else if (const auto* ip = std::get_if<ippar_t>(&st))
        o << "IP " << ip->m_min << " " << ip->m_max << cs(ip->m_mincomp) << cs(ip->m_valcomp) << cs(ip->m_maxcomp);
    else if (const auto* fp = std::get_if<fppar_t>(&st))
        o << "FP " << vh::hexf(fp->m_min) << " " << vh::hexf(fp->m_max) << cs(fp->m_mincomp) << cs(fp->m_valcomp) << cs(fp->m_maxcomp);
    else o << "S";
    return o.str();
}

// ---- the property's own oracle on the raw storage (written independently of src/parameter.cpp) ----
template <class T>
bool ord(bool le, T a, T b)
{
    return le ? (a <= b) : (a < b);
}
bool in_domain(const parameter_t::storage_t& st)
{
    if (const auto* e = std::get_if<epar_t>(&st))
    {
        for (const auto& d : e->m_domain)
            if (d == e->m_value) return true;
        return false;
    }
    if (const auto* i = std::get_if<ipar_t>(&st)) return ord(isle(i->m_mincomp), i->m_min, i->m_value) && ord(isle(i->m_maxcomp), i->m_value, i->m_max);
    if (const auto* f = std::get_if<fpar_t>(&st))
        return std::isfinite(f->m_value) && ord(isle(f->m_mincomp), f->m_min, f->m_value) && ord(isle(f->m_maxcomp), f->m_value, f->m_max);
    if (const auto* p = std::get_if<ippar_t>(&st))
        return ord(isle(p->m_mincomp), p->m_min, p->m_value1) && ord(isle(p->m_valcomp), p->m_value1, p->m_value2) &&
               ord(isle(p->m_maxcomp), p->m_value2, p->m_max);
    if (const auto* p = std::get_if<fppar_t>(&st))
        return std::isfinite(p->m_value1) && std::isfinite(p->m_value2) && ord(isle(p->m_mincomp), p->m_min, p->m_value1) &&
               ord(isle(p->m_valcomp), p->m_value1, p->m_value2) && ord(isle(p->m_maxcomp), p->m_value2, p->m_max);
    return true;
}

void fail(const string& what, const string& ctx)
{
    ++g_fail;
    if (g_fail <= 200) std::printf("FAIL %s :: %s\n", what.c_str(), ctx.c_str());
}

bool same_bits(double a, double b)
{
    return std::memcmp(&a, &b, sizeof(double)) == 0 || (std::isnan(a) && std::isnan(b));
}

// double -> int64 is defined iff the truncated value is representable
bool cast_defined(double v)
{
    return std::isfinite(v) && v > -9223372036854777856.0 && v < 9223372036854775808.0;
}

// independent tokenisation for the expected value of pair strings
std::pair<string, string> my_split(const string& s)
{
    std::vector<string> toks;
    string              cur;
    auto                isd = [](char c) { return c == ';' || c == ',' || c == ':' || c == '|' || c == '/' || c == ' '; };
    for (char c : s)
    {
        if (isd(c))
        {
            if (!cur.empty()) toks.push_back(cur);
            cur.clear();
        }
        else cur.push_back(c);
    }
    if (!cur.empty()) toks.push_back(cur);
    if (toks.empty()) return {"", ""};
    if (toks.size() == 1) return {toks[0], ""};
    return {toks[0], toks.back()};
}

struct sd_t
{
    bool   ok{false};
    double v{0};
};
sd_t my_stod(const string& s)
{
    try
    {
        return {true, std::stod(s)};
    }
    catch (std::exception&)
    {
        return {false, 0.0};
    }
}
struct sl_t
{
    bool    ok{false};
    int64_t v{0};
};
sl_t my_stoll(const string& s)
{
    try
    {
        return {true, static_cast<int64_t>(std::stoll(s))};
    }
    catch (std::exception&)
    {
        return {false, 0};
    }
}
string sdo(const sd_t& d)
{
    return d.ok ? vh::hexf(d.v) : string("x");
}

// ---- operations -----------------------------------------------------------------------------------
struct op_t
{
    enum kind_t
    {
        seti,
        setd,
        setip,
        setip32,
        setfp,
        sets,
        sete_a,
        sete_b,
        wr,
        rdi,
        rdf,
        rdip,
        rdfp,
        rds,
        rde
    } kind{seti};
    int64_t i1{0}, i2{0};
    double  d1{0}, d2{0};
    string  s;
    int     e{0};
};

int kind_index(const parameter_t::storage_t& st)
{
    return static_cast<int>(st.index()); // 0 none, 1 enum, 2 irange, 3 frange, 4 iprange, 5 fprange, 6 string
}

// expected converted value of an accepted assignment, computed without the library
struct expect_t
{
    bool    known{false};
    int     kind{0};
    int64_t i1{0}, i2{0};
    double  d1{0}, d2{0};
    string  s;
};

bool read_matches(const parameter_t& p, const expect_t& e)
{
    const auto& st = p.storage();
    switch (e.kind)
    {
    case 1: return std::get<epar_t>(st).m_value == e.s;
    case 2: return p.value<int64_t>() == e.i1;
    case 3: return same_bits(p.value<scalar_t>(), e.d1);
    case 4:
    {
        const auto [a, b] = p.value_pair<int64_t>();
        return a == e.i1 && b == e.i2;
    }
    case 5:
    {
        const auto [a, b] = p.value_pair<scalar_t>();
        return same_bits(a, e.d1) && same_bits(b, e.d2);
    }
    case 6: return p.value<string_t>() == e.s;
    default: return true;
    }
}

// is the (independently converted) value inside the declared domain of `st`? (own comparisons, not the library's)
bool value_in_domain(const parameter_t::storage_t& st, const expect_t& e)
{
    if (const auto* en = std::get_if<epar_t>(&st))
    {
        for (const auto& d : en->m_domain)
            if (d == e.s) return true;
        return false;
    }
    if (const auto* i = std::get_if<ipar_t>(&st)) return ord(isle(i->m_mincomp), i->m_min, e.i1) && ord(isle(i->m_maxcomp), e.i1, i->m_max);
    if (const auto* f = std::get_if<fpar_t>(&st)) return std::isfinite(e.d1) && ord(isle(f->m_mincomp), f->m_min, e.d1) && ord(isle(f->m_maxcomp), e.d1, f->m_max);
    if (const auto* p = std::get_if<ippar_t>(&st))
        return ord(isle(p->m_mincomp), p->m_min, e.i1) && ord(isle(p->m_valcomp), e.i1, e.i2) && ord(isle(p->m_maxcomp), e.i2, p->m_max);
    if (const auto* p = std::get_if<fppar_t>(&st))
        return std::isfinite(e.d1) && std::isfinite(e.d2) && ord(isle(p->m_mincomp), p->m_min, e.d1) && ord(isle(p->m_valcomp), e.d1, e.d2) &&
               ord(isle(p->m_maxcomp), e.d2, p->m_max);
    return std::get_if<string_t>(&st) != nullptr;
}

// apply one operation to `p`, print the protocol line, run the direct oracle
void apply(parameter_t& p, const op_t& op, const string& ctx)
{
    ++g_ops;
    const auto before = st_of(p.storage());
    const auto dom0   = dom_of(p.storage());
    const int  k      = kind_index(p.storage());
    const bool isint  = k == 2 || k == 4;

    std::ostringstream line;
    bool               ub = false, nonconv = false, threw = false, is_set = true, expect_throw_kind = false;
    expect_t           ex;
    ex.kind = k;
    string result;

    auto guard = [&](auto&& f)
    {
        try
        {
            f();
        }
        catch (std::exception&)
        {
            threw = true;
        }
    };

    switch (op.kind)
    {
    case op_t::seti:
        line << "SETI " << op.i1;
        expect_throw_kind = !(k == 2 || k == 3);
        ex.known = true, ex.i1 = op.i1, ex.d1 = static_cast<double>(op.i1);
        guard([&] { p = op.i1; });
        break;
    case op_t::setd:
        line << "SETD " << vh::hexf(op.d1);
        // fix 0c6dfeb: a double that does not truncate into int64 must be REJECTED by an integer parameter
        nonconv           = k == 2 && !cast_defined(op.d1);
        expect_throw_kind = !(k == 2 || k == 3) || nonconv;
        ex.known = !nonconv, ex.d1 = op.d1;
        if (k == 2 && !nonconv) ex.i1 = static_cast<int64_t>(op.d1);
        guard([&] { p = op.d1; });
        break;
    case op_t::setip:
    case op_t::setip32:
        line << (op.kind == op_t::setip ? "SETIP " : "SETIP32 ") << op.i1 << " " << op.i2;
        expect_throw_kind = !(k == 4 || k == 5);
        ex.known = true, ex.i1 = op.i1, ex.i2 = op.i2, ex.d1 = static_cast<double>(op.i1), ex.d2 = static_cast<double>(op.i2);
        if (op.kind == op_t::setip) guard([&] { p = std::make_tuple(op.i1, op.i2); });
        else guard([&] { p = std::make_tuple(static_cast<int32_t>(op.i1), static_cast<int32_t>(op.i2)); });
        break;
    case op_t::setfp:
        line << "SETFP " << vh::hexf(op.d1) << " " << vh::hexf(op.d2);
        nonconv           = k == 4 && (!cast_defined(op.d1) || !cast_defined(op.d2));
        expect_throw_kind = !(k == 4 || k == 5) || nonconv;
        ex.known = !nonconv, ex.d1 = op.d1, ex.d2 = op.d2;
        if (k == 4 && !nonconv) ex.i1 = static_cast<int64_t>(op.d1), ex.i2 = static_cast<int64_t>(op.d2);
        guard([&] { p = std::make_tuple(op.d1, op.d2); });
        break;
    case op_t::sets:
    {
        const auto [t1, t2] = my_split(op.s);
        line << "SETS " << hexs(op.s) << " " << hexs(t1) << " " << hexs(t2) << " " << sdo(my_stod(op.s)) << " " << sdo(my_stod(t1))
             << " " << sdo(my_stod(t2));
        expect_throw_kind = k == 0;
        ex.s              = op.s;
        ex.known          = true;
        if (k == 2)
        {
            const auto v = my_stoll(op.s);
            ex.known = v.ok, ex.i1 = v.v;
        }
        else if (k == 3)
        {
            const auto v = my_stod(op.s);
            ex.known = v.ok, ex.d1 = v.v;
        }
        else if (k == 4)
        {
            const auto a = my_stoll(t1), b = my_stoll(t2);
            ex.known = a.ok && b.ok, ex.i1 = a.v, ex.i2 = b.v;
        }
        else if (k == 5)
        {
            const auto a = my_stod(t1), b = my_stod(t2);
            ex.known = a.ok && b.ok, ex.d1 = a.v, ex.d2 = b.v;
        }
        // an unparsable string must be rejected
        if (k >= 2 && k <= 5 && !ex.known) expect_throw_kind = true;
        guard([&] { p = op.s; });
        break;
    }
    case op_t::sete_a:
    case op_t::sete_b:
    {
        const string name = op.kind == op_t::sete_a ? scat(static_cast<ea_t>(op.e)) : scat(static_cast<eb_t>(op.e));
        line << "SETE " << hexs(name);
        expect_throw_kind = k != 1;
        ex.known = true, ex.s = name;
        if (op.kind == op_t::sete_a) guard([&] { p = static_cast<ea_t>(op.e); });
        else guard([&] { p = static_cast<eb_t>(op.e); });
        break;
    }
    case op_t::wr:
    {
        line << "WR " << hexs(p.name());
        ex.known = false;
        const parameter_t copy = p;
        guard(
            [&]
            {
                std::ostringstream os;
                p.write(os);
                std::istringstream is(os.str());
                p.read(is);
                if (!(p == copy) || p != copy) fail("write+read changed the parameter", ctx + " " + before);
                // a default-constructed parameter reads the same thing
                parameter_t        q;
                std::istringstream is2(os.str());
                q.read(is2);
                if (!(q == copy) || st_of(q.storage()) != before || q.name() != copy.name())
                    fail("write+read into a fresh parameter differs", ctx + " " + before);
            });
        if (threw) fail("write+read throws", ctx + " " + before);
        break;
    }
    default: is_set = false; break;
    }

    if (is_set)
    {
        const auto after = st_of(p.storage());
        line << " ub=" << (ub ? 1 : 0) << " = " << (threw ? "THROW" : "OK") << " | " << after;
        std::printf("%s\n", line.str().c_str());
        const string c2 = ctx + " :: " + before + " :: " + line.str();
        g_ub += nonconv ? 1 : 0;
        (threw ? g_reject : g_accept) += 1;
        // --- direct oracle ---
        if (!in_domain(p.storage())) fail("stored value outside the declared domain", c2);
        if (dom_of(p.storage()) != dom0) fail("assignment changed the declared domain", c2);
        if (threw && after != before) fail("rejected assignment modified the parameter", c2);
        if (expect_throw_kind && !threw) fail("assignment of a mismatched kind / unparsable text / non-convertible double did not throw", c2);
        if (threw && !ub && !expect_throw_kind && ex.known && op.kind != op_t::wr && value_in_domain(p.storage(), ex))
            fail("assignment of a value inside the declared domain was rejected", c2);
        if (!threw && nonconv) fail("a double that is not convertible to int64 (NaN/inf/out of range) was accepted by an integer parameter", c2);
        if (!threw && !ub && ex.known && op.kind != op_t::wr && !read_matches(p, ex)) fail("accepted assignment is not read back as assigned", c2);
        return;
    }

    // typed reads
    const auto& st = p.storage();
    const char* name = "";
    try
    {
        switch (op.kind)
        {
        case op_t::rdi:
            name = "RDI";
            if (const auto* f = std::get_if<fpar_t>(&st); f && !cast_defined(f->m_value)) result = "SKIPUB";
            else result = scat(p.value<int64_t>());
            break;
        case op_t::rdf:
            name   = "RDF";
            result = vh::hexf(p.value<scalar_t>());
            break;
        case op_t::rdip:
            name = "RDIP";
            if (const auto* f = std::get_if<fppar_t>(&st); f && (!cast_defined(f->m_value1) || !cast_defined(f->m_value2))) result = "SKIPUB";
            else
            {
                const auto [a, b] = p.value_pair<int64_t>();
                result            = scat(a, " ", b);
            }
            break;
        case op_t::rdfp:
        {
            name              = "RDFP";
            const auto [a, b] = p.value_pair<scalar_t>();
            result            = vh::hexf(a) + " " + vh::hexf(b);
            break;
        }
        case op_t::rds:
            name   = "RDS";
            result = hexs(p.value<string_t>());
            break;
        case op_t::rde:
        {
            name = "RDE";
            // read with the enumeration type the parameter was made from (its domain tells which)
            const auto* e = std::get_if<epar_t>(&st);
            if (e != nullptr && e->m_domain.size() == 2U) result = hexs(scat(p.value<eb_t>()));
            else result = hexs(scat(p.value<ea_t>()));
            break;
        }
        default: break;
        }
    }
    catch (std::exception&)
    {
        result = "THROW";
    }
    std::printf("%s = %s\n", name, result.c_str());
    const string c2 = ctx + " :: " + before + " :: " + name + " = " + result;
    // --- direct oracle: type-mismatched reads throw, matching ones return the stored value ---
    const bool should_throw = (op.kind == op_t::rdi || op.kind == op_t::rdf)     ? !(k == 2 || k == 3)
                              : (op.kind == op_t::rdip || op.kind == op_t::rdfp) ? !(k == 4 || k == 5)
                              : op.kind == op_t::rds                             ? k != 6
                                                                                 : k != 1;
    if (should_throw != (result == "THROW")) fail("typed read: throw/no-throw does not match the parameter kind", c2);
    if (st_of(p.storage()) != before) fail("read modified the parameter", c2);
    (void)isint;
}

// ---- generators -----------------------------------------------------------------------------------
struct gen_t
{
    vh::rng_t rng;
    explicit gen_t(uint64_t seed)
        : rng(seed)
    {
    }

    int64_t pick_i(int64_t mn, int64_t mx)
    {
        auto add = [](int64_t a, int64_t d)
        {
            if (d > 0 && a > IMAX - d) return IMAX;
            if (d < 0 && a < IMIN - d) return IMIN;
            return a + d;
        };
        switch (rng.range(0, 15))
        {
        case 0: return add(mn, -1);
        case 1: return mn;
        case 2: return add(mn, 1);
        case 3: return add(mx, -1);
        case 4: return mx;
        case 5: return add(mx, 1);
        case 6: return 0;
        case 7: return IMIN;
        case 8: return IMAX;
        case 9: return (int64_t{1} << 53) + 1;
        case 10: return -((int64_t{1} << 53) + 1);
        case 11: return rng.range(-3, 12);
        default:
        {
            // inside the range (mostly valid)
            const auto lo = static_cast<double>(mn), hi = static_cast<double>(mx);
            const auto v  = lo + (hi - lo) * rng.unit();
            if (!(v > -9.2e18 && v < 9.2e18)) return static_cast<int64_t>(rng.next() >> 1);
            return static_cast<int64_t>(v);
        }
        }
    }

    double pick_d(double mn, double mx)
    {
        const double inf = std::numeric_limits<double>::infinity();
        switch (rng.range(0, 27))
        {
        case 0: return mn;
        case 1: return std::nextafter(mn, -inf);
        case 2: return std::nextafter(mn, inf);
        case 3: return mx;
        case 4: return std::nextafter(mx, -inf);
        case 5: return std::nextafter(mx, inf);
        case 6: return std::nan("");
        case 7: return inf;
        case 8: return -inf;
        case 9: return -0.0;
        case 10: return 0.0;
        case 11: return 0.5;
        case 12: return -0.5;
        case 13: return 2.7;
        case 14: return 1e19;
        case 15: return -1e19;
        case 16: return 9223372036854775808.0;  // 2^63: not representable as int64
        case 17: return -9223372036854775808.0; // -2^63: representable
        case 18: return 9223372036854774784.0;  // largest double below 2^63
        case 19: return 1e300;
        case 20: return 4.9406564584124654e-324;
        case 21: return 9007199254740994.0;
        case 22: return static_cast<double>(rng.range(-3, 12)) + 0.25 * static_cast<double>(rng.range(0, 3));
        case 23: return -0.999;
        default:
        {
            const double lo = std::isfinite(mn) ? mn : -1e6, hi = std::isfinite(mx) ? mx : 1e6;
            return lo + (hi - lo) * rng.unit();
        }
        }
    }

    string num_i(int64_t v) { return std::to_string(v); }
    string num_d(double v)
    {
        char buf[64];
        switch (rng.range(0, 3))
        {
        case 0: std::snprintf(buf, sizeof(buf), "%.17g", v); break;
        case 1: std::snprintf(buf, sizeof(buf), "%a", v); break;
        case 2: std::snprintf(buf, sizeof(buf), "%g", v); break;
        default: std::snprintf(buf, sizeof(buf), "%.3f", v); break;
        }
        return buf;
    }

    string garbage()
    {
        static const char* g[] = {"",      "what", "abc",   " ",     "-",      "+",     "--5",  "0x10", "1e3",   "5.7",     "nan",
                                  "inf",   "-inf", "1e400", "1e-400", "5abc",   " 5",    "+5",   "\t7",  "5 ",    "99999999999999999999",
                                  "-9223372036854775808", "9223372036854775807", "9223372036854775808", "-9223372036854775809", ".5", "5.",
                                  "- 5",   "٣",    "1_0",   "0",     "-0",     "00012", "1e",   "e1",   "0x",    "infinity", "NAN(1)", "0x1p-1"};
        return g[rng.range(0, static_cast<int64_t>(sizeof(g) / sizeof(g[0])) - 1)];
    }

    string sep()
    {
        static const char* s[] = {",", ";", ":", "|", "/", " ", ", ", " , ", ",,", ";|", "  "};
        return s[rng.range(0, 10)];
    }

    // a string for a scalar parameter with range [mn, mx]
    string str_scalar(bool isint, double mn, double mx, int64_t imn, int64_t imx)
    {
        const auto r = rng.range(0, 9);
        if (r <= 2) return garbage();
        string s = isint ? (rng.range(0, 3) == 0 ? num_d(pick_d(mn, mx)) : num_i(pick_i(imn, imx))) : (rng.range(0, 3) == 0 ? num_i(pick_i(imn, imx)) : num_d(pick_d(mn, mx)));
        if (r == 3) s = " " + s;
        if (r == 4) s += "xyz";
        if (r == 5) s += " ";
        return s;
    }

    string str_pair(bool isint, double mn, double mx, int64_t imn, int64_t imx)
    {
        const auto r = rng.range(0, 11);
        if (r == 0) return garbage();
        auto one = [&]() { return isint ? (rng.range(0, 5) == 0 ? num_d(pick_d(mn, mx)) : num_i(pick_i(imn, imx))) : num_d(pick_d(mn, mx)); };
        string a = one(), b = one();
        if (r >= 6)
        {
            // ordered, mostly valid
            if (isint)
            {
                auto x = pick_i(imn, imx), y = pick_i(imn, imx);
                if (x > y) std::swap(x, y);
                a = num_i(x), b = num_i(y);
            }
            else
            {
                auto x = pick_d(mn, mx), y = pick_d(mn, mx);
                if (x > y) std::swap(x, y);
                a = num_d(x), b = num_d(y);
            }
        }
        switch (r)
        {
        case 1: return a;
        case 2: return a + sep();
        case 3: return sep() + a + sep() + b + sep();
        case 4: return a + sep() + one() + sep() + b;
        case 5: return a + sep() + garbage();
        default: return a + sep() + b;
        }
    }

    string str_enum(const strings_t& dom)
    {
        const auto r = rng.range(0, 9);
        if (r <= 5 && !dom.empty()) return dom[static_cast<size_t>(rng.range(0, static_cast<int64_t>(dom.size()) - 1))];
        static const char* g[] = {"", "alph", "alpha ", " alpha", "ALPHA", "delta", "beta", "gamma", "betagamma", "what", "0", "alpha,beta"};
        return g[rng.range(0, 11)];
    }
};

// the numeric view of the current domain (for value generation)
struct dview_t
{
    double  mn{0}, mx{1};
    int64_t imn{0}, imx{1};
};
dview_t view(const parameter_t::storage_t& st)
{
    dview_t v;
    auto    clampi = [](double d) { return d >= 9.2e18 ? IMAX : d <= -9.2e18 ? IMIN : static_cast<int64_t>(d); };
    if (const auto* i = std::get_if<ipar_t>(&st)) v = {static_cast<double>(i->m_min), static_cast<double>(i->m_max), i->m_min, i->m_max};
    else if (const auto* p = std::get_if<ippar_t>(&st)) v = {static_cast<double>(p->m_min), static_cast<double>(p->m_max), p->m_min, p->m_max};
    else if (const auto* f = std::get_if<fpar_t>(&st)) v = {f->m_min, f->m_max, std::isfinite(f->m_min) ? clampi(f->m_min) : IMIN, std::isfinite(f->m_max) ? clampi(f->m_max) : IMAX};
    else if (const auto* q = std::get_if<fppar_t>(&st)) v = {q->m_min, q->m_max, std::isfinite(q->m_min) ? clampi(q->m_min) : IMIN, std::isfinite(q->m_max) ? clampi(q->m_max) : IMAX};
    return v;
}

op_t random_op(gen_t& g, const parameter_t& p)
{
    const auto& st = p.storage();
    const int   k  = kind_index(st);
    const auto  dv = view(st);
    op_t        op;
    // 70%: an operation of the parameter's own kind; 15%: a read; 15%: any operation
    const auto r = g.rng.range(0, 99);
    int        what;
    if (r < 15) what = static_cast<int>(g.rng.range(op_t::rdi, op_t::rde));
    else if (r < 30) what = static_cast<int>(g.rng.range(op_t::seti, op_t::wr));
    else
    {
        static const int own[7][4] = {
            {  op_t::sets,   op_t::seti,     op_t::wr,   op_t::setd},
            {  op_t::sets, op_t::sete_a, op_t::sete_b, op_t::sete_a},
            {  op_t::seti,   op_t::setd,   op_t::sets,   op_t::seti},
            {  op_t::setd,   op_t::seti,   op_t::sets,   op_t::setd},
            { op_t::setip,  op_t::setfp,   op_t::sets, op_t::setip32},
            { op_t::setfp,  op_t::setip,   op_t::sets,  op_t::setfp},
            {  op_t::sets,   op_t::sets,     op_t::wr,   op_t::seti}
        };
        what = own[k][g.rng.range(0, 3)];
        if (g.rng.range(0, 19) == 0) what = op_t::wr;
    }
    op.kind = static_cast<op_t::kind_t>(what);
    switch (op.kind)
    {
    case op_t::seti: op.i1 = g.pick_i(dv.imn, dv.imx); break;
    case op_t::setd: op.d1 = g.pick_d(dv.mn, dv.mx); break;
    case op_t::setip:
        op.i1 = g.pick_i(dv.imn, dv.imx), op.i2 = g.pick_i(dv.imn, dv.imx);
        if (g.rng.range(0, 2) != 0 && op.i1 > op.i2) std::swap(op.i1, op.i2);
        break;
    case op_t::setip32:
        op.i1 = static_cast<int32_t>(g.pick_i(dv.imn, dv.imx)), op.i2 = static_cast<int32_t>(g.pick_i(dv.imn, dv.imx));
        if (g.rng.range(0, 2) != 0 && op.i1 > op.i2) std::swap(op.i1, op.i2);
        break;
    case op_t::setfp:
        op.d1 = g.pick_d(dv.mn, dv.mx), op.d2 = g.pick_d(dv.mn, dv.mx);
        if (g.rng.range(0, 2) != 0 && op.d1 > op.d2) std::swap(op.d1, op.d2);
        break;
    case op_t::sets:
        if (k == 1) op.s = g.str_enum(std::get<epar_t>(st).m_domain);
        else if (k == 4 || k == 5) op.s = g.str_pair(k == 4, dv.mn, dv.mx, dv.imn, dv.imx);
        else if (k == 6 || k == 0) op.s = g.rng.range(0, 1) ? g.garbage() : g.str_pair(false, 0, 1, 0, 1);
        else op.s = g.str_scalar(k == 2, dv.mn, dv.mx, dv.imn, dv.imx);
        break;
    case op_t::sete_a: op.e = static_cast<int>(g.rng.range(0, 2)); break;
    case op_t::sete_b: op.e = static_cast<int>(g.rng.range(0, 1)); break;
    default: break;
    }
    return op;
}

// ---- construction of the parameter under test ------------------------------------------------------
struct spec_t
{
    int     kind{2}; // as storage index
    int64_t iv1{0}, iv2{0}, imn{0}, imx{0};
    double  dv1{0}, dv2{0}, dmn{0}, dmx{0};
    bool    c1{true}, c2{true}, c3{true};
    int     e{0};
    string  s;
};

string spec_str(const spec_t& s)
{
    std::ostringstream o;
    switch (s.kind)
    {
    case 0: o << "N"; break;
    case 1:
        if (s.e < 10) o << "E " << hexs(scat(static_cast<ea_t>(s.e))) << " 3 " << hexs("alpha") << " " << hexs("beta") << " " << hexs("gamma");
        else o << "E " << hexs(scat(static_cast<eb_t>(s.e - 10))) << " 2 " << hexs("beta") << " " << hexs("delta");
        break;
    case 2: o << "I " << s.iv1 << " " << s.imn << " " << s.imx << " " << (s.c1 ? "le" : "lt") << " " << (s.c3 ? "le" : "lt"); break;
    case 3: o << "F " << vh::hexf(s.dv1) << " " << vh::hexf(s.dmn) << " " << vh::hexf(s.dmx) << " " << (s.c1 ? "le" : "lt") << " " << (s.c3 ? "le" : "lt"); break;
    case 4:
        o << "IP " << s.iv1 << " " << s.iv2 << " " << s.imn << " " << s.imx << " " << (s.c1 ? "le" : "lt") << " " << (s.c2 ? "le" : "lt") << " "
          << (s.c3 ? "le" : "lt");
        break;
    case 5:
        o << "FP " << vh::hexf(s.dv1) << " " << vh::hexf(s.dv2) << " " << vh::hexf(s.dmn) << " " << vh::hexf(s.dmx) << " " << (s.c1 ? "le" : "lt") << " "
          << (s.c2 ? "le" : "lt") << " " << (s.c3 ? "le" : "lt");
        break;
    default: o << "S " << hexs(s.s); break;
    }
    return o.str();
}

parameter_t construct(const string& name, const spec_t& s)
{
    switch (s.kind)
    {
    case 0: return parameter_t{};
    case 1: return s.e < 10 ? parameter_t::make_enum(name, static_cast<ea_t>(s.e)) : parameter_t::make_enum(name, static_cast<eb_t>(s.e - 10));
    case 2: return parameter_t::make_integer(name, s.imn, mk(s.c1), s.iv1, mk(s.c3), s.imx);
    case 3: return parameter_t::make_scalar(name, s.dmn, mk(s.c1), s.dv1, mk(s.c3), s.dmx);
    case 4: return parameter_t::make_integer_pair(name, s.imn, mk(s.c1), s.iv1, mk(s.c2), s.iv2, mk(s.c3), s.imx);
    case 5: return parameter_t::make_scalar_pair(name, s.dmn, mk(s.c1), s.dv1, mk(s.c2), s.dv2, mk(s.c3), s.dmx);
    default: return parameter_t::make_string(name, s.s);
    }
}

// make a parameter, print the MAKE line; returns false when construction threw
bool make_param(const string& name, const spec_t& s, parameter_t& out, const char* tag = "MAKE")
{
    const auto text = spec_str(s);
    try
    {
        out = construct(name, s);
    }
    catch (std::exception&)
    {
        std::printf("%s %s = THROW\n", tag, text.c_str());
        return false;
    }
    std::printf("%s %s = OK %s\n", tag, text.c_str(), st_of(out.storage()).c_str());
    if (!in_domain(out.storage())) fail("constructed parameter outside its domain", text);
    if (out.name() != (s.kind == 0 ? string() : name)) fail("constructed parameter has another name", text);
    return true;
}

spec_t random_spec(gen_t& g)
{
    spec_t s;
    s.kind = static_cast<int>(g.rng.range(0, 99));
    s.kind = s.kind < 3 ? 0 : s.kind < 12 ? 1 : s.kind < 32 ? 2 : s.kind < 52 ? 3 : s.kind < 72 ? 4 : s.kind < 92 ? 5 : 6;
    s.c1 = g.rng.range(0, 1) != 0, s.c2 = g.rng.range(0, 1) != 0, s.c3 = g.rng.range(0, 1) != 0;
    static const int64_t idom[][2] = {
        {0, 10}, {-5, 5}, {7, 7}, {0, 1}, {IMIN, IMAX}, {0, IMAX}, {IMIN, 0}, {-(int64_t{1} << 53) - 1, (int64_t{1} << 53) + 1}, {1, 1000000}, {3, 4}, {-1, 1}};
    const double         inf       = std::numeric_limits<double>::infinity();
    const double         ddom[][2] = {
        {0.0, 1.0}, {-1.0, 1.0}, {0.0, 1e6}, {-inf, inf}, {0.0, inf}, {1e-12, 1e-3}, {0.5, 0.5}, {-9223372036854775808.0, 9223372036854775808.0},
        {0.0, 10.0}, {-5.5, 5.5}, {-1e300, 1e300}, {0.0, 4.9406564584124654e-324}, {1.0, std::nextafter(1.0, 2.0)}, {std::nan(""), 1.0}, {0.0, std::nan("")}};
    const auto id = g.rng.range(0, 10);
    const auto dd = g.rng.range(0, 14);
    s.imn = idom[id][0], s.imx = idom[id][1];
    s.dmn = ddom[dd][0], s.dmx = ddom[dd][1];
    // initial values: mostly inside the domain (a few constructions must fail)
    auto mid_i = [&]()
    {
        if (g.rng.range(0, 9) == 0) return g.pick_i(s.imn, s.imx);
        const auto span = static_cast<uint64_t>(s.imx) - static_cast<uint64_t>(s.imn);
        return static_cast<int64_t>(static_cast<uint64_t>(s.imn) + (span == 0 ? 0 : g.rng.next() % span) + (span > 1 ? 1 : 0) - (span == UINT64_MAX ? 1 : 0));
    };
    auto mid_d = [&]()
    {
        if (g.rng.range(0, 9) == 0) return g.pick_d(s.dmn, s.dmx);
        const double lo = std::isfinite(s.dmn) ? s.dmn : -1e6, hi = std::isfinite(s.dmx) ? s.dmx : 1e6;
        return lo / 2 + hi / 2 + (hi / 2 - lo / 2) * (g.rng.unit() - 0.5);
    };
    s.iv1 = mid_i(), s.iv2 = mid_i();
    if (s.iv1 > s.iv2 && g.rng.range(0, 9) != 0) std::swap(s.iv1, s.iv2);
    s.dv1 = mid_d(), s.dv2 = mid_d();
    if (s.dv1 > s.dv2 && g.rng.range(0, 9) != 0) std::swap(s.dv1, s.dv2);
    if (!s.c1 || !s.c3)
    {
        // strict bounds: keep away from the ends most of the time
        if (s.kind == 2 && s.imx - 1 > s.imn && g.rng.range(0, 4) != 0 && s.imn > IMIN / 2 && s.imx < IMAX / 2) s.iv1 = s.imn + 1;
    }
    s.e = static_cast<int>(g.rng.range(0, 4));
    if (s.e >= 3) s.e = 10 + (s.e - 3);
    s.s = g.garbage();
    return s;
}

// ---- section 1: exhaustive single assignments and pairs of assignments over a finite alphabet -------
void exhaustive(gen_t& g, bool thorough)
{
    const double              inf  = std::numeric_limits<double>::infinity();
    const std::vector<bool>   comp = {true, false};
    std::vector<op_t>         alpha;
    const std::vector<int64_t> ivals = {-1, 0, 1, 4, 5, 9, 10, 11, IMIN, IMAX, (int64_t{1} << 53) + 1};
    const std::vector<double>  dvals = {0.0, -0.0, std::nextafter(0.0, -1.0), std::nextafter(0.0, 1.0), 0.5, -0.5, 2.7, 5.0, 10.0, std::nextafter(10.0, 0.0),
                                       std::nextafter(10.0, 20.0), 10.5, std::nan(""), inf, -inf, 1e19, -1e19, 9223372036854775808.0,
                                       -9223372036854775808.0, 9223372036854774784.0, 1e300};
    const std::vector<string>  svals = {"", "what", "5", " 5", "+5", "-1", "10", "11", "5abc", "5.7", "1e1", "0x5", "nan", "inf", "1e400",
                                        "99999999999999999999", "0,10", "0;10", "1 2", "1, 2", "1,2,3", ",1,2", "1,", "1", "a,2", "2,1", "5,5",
                                        "0.5,0.75", "1e1,2e1", "0|10/3", "alpha", "beta", "delta", "alph", "gamma ", "9223372036854775807",
                                        "-9223372036854775808", "9223372036854775808", "0:0", "10:10", "-0", "1e-400"};
    for (auto v : ivals)
    {
        op_t o;
        o.kind = op_t::seti, o.i1 = v;
        alpha.push_back(o);
    }
    for (auto v : dvals)
    {
        op_t o;
        o.kind = op_t::setd, o.d1 = v;
        alpha.push_back(o);
    }
    for (const auto& v : svals)
    {
        op_t o;
        o.kind = op_t::sets, o.s = v;
        alpha.push_back(o);
    }
    const std::vector<std::pair<int64_t, int64_t>> ipairs = {{0, 10}, {1, 9}, {5, 5}, {0, 0}, {10, 10}, {-1, 5}, {5, 11}, {6, 5}, {IMIN, IMAX}, {0, 1}};
    for (auto v : ipairs)
    {
        op_t o;
        o.kind = op_t::setip, o.i1 = v.first, o.i2 = v.second;
        alpha.push_back(o);
        if (v.first > INT32_MIN && v.second < INT32_MAX)
        {
            o.kind = op_t::setip32;
            alpha.push_back(o);
        }
    }
    const std::vector<std::pair<double, double>> dpairs = {{0.0, 10.0}, {0.5, 0.75}, {5.0, 5.0}, {0.0, 0.0}, {-0.0, 0.0}, {10.0, 10.0}, {std::nextafter(0.0, -1.0), 5.0},
                                                          {5.0, std::nextafter(10.0, 20.0)}, {6.0, 5.0}, {std::nan(""), 5.0}, {5.0, std::nan("")}, {-inf, inf}, {1.0, inf},
                                                          {2.7, 3.9}, {1e19, 1e19}, {0.0, 9223372036854775808.0}, {std::nextafter(5.0, 0.0), 5.0}};
    for (auto v : dpairs)
    {
        op_t o;
        o.kind = op_t::setfp, o.d1 = v.first, o.d2 = v.second;
        alpha.push_back(o);
    }
    for (int e = 0; e < 3; ++e)
    {
        op_t o;
        o.kind = op_t::sete_a, o.e = e;
        alpha.push_back(o);
    }
    for (int e = 0; e < 2; ++e)
    {
        op_t o;
        o.kind = op_t::sete_b, o.e = e;
        alpha.push_back(o);
    }
    {
        op_t o;
        o.kind = op_t::wr;
        alpha.push_back(o);
    }
    std::vector<op_t> reads;
    for (int r = op_t::rdi; r <= op_t::rde; ++r)
    {
        op_t o;
        o.kind = static_cast<op_t::kind_t>(r);
        reads.push_back(o);
    }

    // start states: every kind x LE/LT combination on the domain [0, 10]
    std::vector<spec_t> specs;
    for (int kind = 0; kind <= 6; ++kind)
    {
        for (bool c1 : comp)
            for (bool c2 : comp)
                for (bool c3 : comp)
                {
                    if ((kind == 2 || kind == 3) && !c2) continue;
                    if ((kind < 2 || kind == 6) && !(c1 && c2 && c3)) continue;
                    spec_t s;
                    s.kind = kind, s.c1 = c1, s.c2 = c2, s.c3 = c3;
                    s.imn = 0, s.imx = 10, s.iv1 = 4, s.iv2 = 6, s.dmn = 0.0, s.dmx = 10.0, s.dv1 = 4.5, s.dv2 = 6.5, s.e = 1, s.s = "init";
                    specs.push_back(s);
                    if (kind == 1)
                    {
                        s.e = 11;
                        specs.push_back(s);
                    }
                }
    }
    for (const auto& s : specs)
    {
        // single operations, each followed by every typed read
        for (const auto& op : alpha)
        {
            parameter_t p;
            if (!make_param("x", s, p)) continue;
            ++g_cases;
            apply(p, op, "exh1 " + spec_str(s));
            for (const auto& rd : reads) apply(p, rd, "exh1 " + spec_str(s));
        }
        // pairs of operations: (accepted or rejected) followed by (accepted or rejected)
        const size_t stride = thorough ? 1 : 7;
        size_t       off    = static_cast<size_t>(g.rng.range(0, static_cast<int64_t>(stride) - 1));
        for (size_t a = 0; a < alpha.size(); ++a)
            for (size_t b = (a + off) % stride; b < alpha.size(); b += stride)
            {
                parameter_t p;
                if (!make_param("x", s, p)) continue;
                ++g_cases;
                apply(p, alpha[a], "exh2 " + spec_str(s));
                apply(p, alpha[b], "exh2 " + spec_str(s));
                apply(p, reads[static_cast<size_t>(g.rng.range(0, 5))], "exh2 " + spec_str(s));
            }
    }
}

// ---- section 2: random domains, random histories of up to 6 assignments (+ reads) -------------------
void random_histories(gen_t& g, long count)
{
    for (long c = 0; c < count; ++c)
    {
        const auto  s = random_spec(g);
        parameter_t p;
        if (!make_param("rnd", s, p)) continue;
        ++g_cases;
        const auto ctx = "rnd#" + std::to_string(c) + " " + spec_str(s);
        const auto n   = g.rng.range(1, 6);
        for (int64_t i = 0; i < n; ++i)
        {
            apply(p, random_op(g, p), ctx);
            if (g.rng.range(0, 2) == 0)
            {
                op_t rd;
                rd.kind = static_cast<op_t::kind_t>(g.rng.range(op_t::rdi, op_t::rde));
                apply(p, rd, ctx);
            }
        }
        // the natural read at the end
        op_t rd;
        static const op_t::kind_t nat[7] = {op_t::rdi, op_t::rde, op_t::rdi, op_t::rdf, op_t::rdip, op_t::rdfp, op_t::rds};
        rd.kind                          = nat[kind_index(p.storage())];
        apply(p, rd, ctx);
    }
}

// ---- section 3: configurable_t histories with clones ------------------------------------------------
struct cfg_t final : public configurable_t
{
};

string cfg_state(const configurable_t& c)
{
    std::ostringstream o;
    bool               first = true;
    for (const auto& p : c.parameters())
    {
        if (!first) o << " ; ";
        first = false;
        o << hexs(p.name()) << " " << st_of(p.storage());
    }
    if (first) o << ".";
    return o.str();
}

string all_state(const std::vector<cfg_t>& objs)
{
    string s;
    for (size_t i = 0; i < objs.size(); ++i) s += (i ? " || " : "") + cfg_state(objs[i]);
    return s;
}

// lookup by exact name, written independently of configurable.cpp
const parameter_t* my_find(const configurable_t& c, const string& name)
{
    for (const auto& p : c.parameters())
        if (p.name() == name) return &p;
    return nullptr;
}

void config_histories(gen_t& g, long count)
{
    static const char* names[] = {"a", "b", "solver::eps", "a::b", "", "A"};
    for (long c = 0; c < count; ++c)
    {
        std::vector<cfg_t> objs(1);
        std::printf("CFG NEW\n");
        ++g_cases;
        const auto nops = g.rng.range(3, 12);
        for (int64_t i = 0; i < nops; ++i)
        {
            const auto   o    = static_cast<size_t>(g.rng.range(0, static_cast<int64_t>(objs.size()) - 1));
            string       name = names[g.rng.range(0, 5)];
            const auto   r    = g.rng.range(0, 9);
            const auto   all0 = all_state(objs);
            const auto   ctx  = "cfg#" + std::to_string(c) + " obj " + std::to_string(o) + " :: " + all0;
            std::vector<string> others;
            for (size_t j = 0; j < objs.size(); ++j) others.push_back(cfg_state(objs[j]));
            ++g_ops;
            if (r <= 2 || objs[o].parameters().empty())
            {
                // register (duplicates must be rejected, invalid constructions too)
                const auto  s = random_spec(g);
                parameter_t p;
                if (s.kind == 0) name.clear(); // a default-constructed parameter has no name
                std::printf("CFG %zu REG %s ", o, hexs(name).c_str());
                bool threw = false;
                const bool made = make_param(name, s, p, "MK");
                const bool dup  = my_find(objs[o], name) != nullptr;
                if (made)
                {
                    try
                    {
                        objs[o].register_parameter(p);
                    }
                    catch (std::exception&)
                    {
                        threw = true;
                    }
                    if (dup != threw) fail("register_parameter: duplicate detection wrong", ctx + " name=" + name);
                    std::printf("CFG %zu REGD = %s | %s\n", o, threw ? "THROW" : "OK", cfg_state(objs[o]).c_str());
                }
            }
            else if (r <= 6)
            {
                // assignment through parameter(name)
                const auto* target = my_find(objs[o], name);
                if (objs[o].parameter_if(name) != target)
                    fail("lookup by name does not return the first parameter with exactly that name (or finds an unknown name)", ctx + " name=" + name);
                parameter_t probe  = target ? *target : parameter_t::make_integer("probe", 0, LE, 5, LE, 10);
                const auto  op     = random_op(g, probe);
                if (op.kind >= op_t::rdi)
                {
                    // typed read through the configurable
                    string res;
                    try
                    {
                        res = op.kind == op_t::rdi   ? scat(objs[o].parameter(name).value<int64_t>())
                              : op.kind == op_t::rds ? hexs(objs[o].parameter(name).value<string_t>())
                                                     : vh::hexf(objs[o].parameter(name).value<scalar_t>());
                    }
                    catch (std::exception&)
                    {
                        res = "THROW";
                    }
                    const char* rn = op.kind == op_t::rdi ? "RDI" : op.kind == op_t::rds ? "RDS" : "RDF";
                    if (const auto* f = target ? std::get_if<fpar_t>(&target->storage()) : nullptr; f && op.kind == op_t::rdi && !cast_defined(f->m_value)) res = "SKIPUB";
                    std::printf("CFG %zu GET %s %s = %s\n", o, hexs(name).c_str(), rn, res.c_str());
                    if (!target && res != "THROW") fail("read of an unknown parameter name did not throw", ctx + " name=" + name);
                }
                else if (!target)
                {
                    bool threw = false;
                    try
                    {
                        objs[o].parameter(name) = int64_t{1};
                    }
                    catch (std::exception&)
                    {
                        threw = true;
                    }
                    std::printf("CFG %zu SET %s SETI 1 ub=0 = %s | -\n", o, hexs(name).c_str(), threw ? "THROW" : "OK");
                    std::printf("CFG %zu STATE = %s\n", o, cfg_state(objs[o]).c_str());
                    if (!threw) fail("unknown parameter name did not throw", ctx + " name=" + name);
                }
                else
                {
                    std::printf("CFG %zu SET %s ", o, hexs(name).c_str());
                    apply(objs[o].parameter(name), op, ctx + " name=" + name);
                    std::printf("CFG %zu STATE = %s\n", o, cfg_state(objs[o]).c_str());
                    // frame: the other parameters of the same object are untouched (checked on the serialised state)
                }
            }
            else if (r <= 8 && objs.size() < 4)
            {
                const cfg_t copy = objs[o]; // clone = copy (what every clone() of the library does: make_unique<T>(*this))
                objs.push_back(copy);
                std::printf("CFG %zu CLONE = %zu | %s\n", o, objs.size() - 1, cfg_state(objs.back()).c_str());
                others.push_back(others[o]);
                if (cfg_state(objs.back()) != others[o]) fail("clone differs from the original", ctx);
                if (!(objs.back().parameters() == objs[o].parameters())) fail("clone parameters not operator== to the original", ctx);
            }
            else
            {
                // write + read of the whole configurable into a fresh object
                std::ostringstream os;
                objs[o].write(os);
                cfg_t              q;
                std::istringstream is(os.str());
                q.read(is);
                std::printf("CFG %zu CWR = %s\n", o, cfg_state(q).c_str());
                if (cfg_state(q) != cfg_state(objs[o])) fail("configurable write+read differs", ctx);
            }
            // independence: no other object changed
            for (size_t j = 0; j < objs.size() && j < others.size(); ++j)
                if (j != o && cfg_state(objs[j]) != others[j]) fail("operation on one object changed another (clone not independent)", ctx);
            // names stay unique
            std::set<string> seen;
            for (const auto& p : objs[o].parameters())
                if (!seen.insert(p.name()).second) fail("duplicate parameter name registered", ctx);
        }
        std::printf("CFG ALL = %s\n", all_state(objs).c_str());
    }
}

// ---- section 4: every id of every factory ----------------------------------------------------------
// change a parameter to some other valid value (returns false when the domain has a single point)
bool perturb(parameter_t& p)
{
    const auto before = st_of(p.storage());
    auto       tryset = [&](auto&& f)
    {
        try
        {
            f();
        }
        catch (std::exception&)
        {
        }
        return st_of(p.storage()) != before;
    };
    const auto& st = p.storage();
    if (const auto* e = std::get_if<epar_t>(&st))
    {
        for (const auto& d : e->m_domain)
            if (d != e->m_value)
            {
                const string v = d;
                return tryset([&] { p = v; });
            }
        return false;
    }
    if (const auto* i = std::get_if<ipar_t>(&st))
    {
        const auto v = i->m_value;
        return tryset([&] { p = v + 1; }) || tryset([&] { p = v - 1; });
    }
    if (const auto* f = std::get_if<fpar_t>(&st))
    {
        const auto v = f->m_value, mn = f->m_min, mx = f->m_max;
        return tryset([&] { p = v / 2 + mx / 2; }) || tryset([&] { p = v / 2 + mn / 2; }) || tryset([&] { p = std::nextafter(v, mx); }) ||
               tryset([&] { p = std::nextafter(v, mn); });
    }
    if (const auto* q = std::get_if<ippar_t>(&st))
    {
        const auto a = q->m_value1, b = q->m_value2;
        return tryset([&] { p = std::make_tuple(a, b + 1); }) || tryset([&] { p = std::make_tuple(a - 1, b); }) || tryset([&] { p = std::make_tuple(a + 1, b); }) ||
               tryset([&] { p = std::make_tuple(a, b - 1); });
    }
    if (const auto* q = std::get_if<fppar_t>(&st))
    {
        const auto a = q->m_value1, b = q->m_value2, mn = q->m_min, mx = q->m_max;
        return tryset([&] { p = std::make_tuple(a, b / 2 + mx / 2); }) || tryset([&] { p = std::make_tuple(a / 2 + mn / 2, b); }) ||
               tryset([&] { p = std::make_tuple(a, a / 2 + b / 2); });
    }
    if (const auto* s = std::get_if<string_t>(&st))
    {
        const string v = *s + "x";
        return tryset([&] { p = v; });
    }
    return false;
}

long g_enum_typed_checks = 0;
// typed read-back of an enumeration parameter: if the parameter's domain is the name table of the enum type E, every value of
// E assigned (typed and by name) must be read back by value<E>() as that very value -- names that are proper prefixes of other
// names of the same enum (aic / aicc) are what a prefix-matching from_string gets wrong
template <class E>
bool enum_typed_roundtrip(parameter_t& p, const string& ctx)
{
    const auto* e = std::get_if<epar_t>(&p.storage());
    if (e == nullptr) return false;
    const auto options = enum_string<E>();
    if (options.size() != e->m_domain.size()) return false;
    for (size_t i = 0; i < options.size(); ++i)
        if (string(options[i].second) != e->m_domain[i]) return false;
    const auto original = p.value<E>();
    for (const auto& [value, name] : options)
    {
        ++g_enum_typed_checks;
        try
        {
            p = value;
            if (p.value<E>() != value) fail("enum parameter assigned (typed) is read back as another value", ctx + " " + p.name() + " value=" + string(name));
            p = string(name);
            if (p.value<E>() != value) fail("enum parameter assigned by name is read back (typed) as another value", ctx + " " + p.name() + " name=" + string(name));
            if (std::get_if<epar_t>(&p.storage())->m_value != string(name)) fail("enum parameter assigned by name stores another name", ctx + " " + p.name() + " name=" + string(name));
        }
        catch (const std::exception& ex)
        {
            fail(string("enum parameter: assigning / reading a value of its own domain throws: ") + ex.what(), ctx + " " + p.name() + " name=" + string(name));
        }
    }
    p = original;
    return true;
}
void enum_typed_all(parameter_t& p, const string& ctx)
{
    (void)(enum_typed_roundtrip<wlearner_criterion>(p, ctx) || enum_typed_roundtrip<scaling_type>(p, ctx) ||
           enum_typed_roundtrip<interpolation_type>(p, ctx) || enum_typed_roundtrip<gboost_wscale>(p, ctx) ||
           enum_typed_roundtrip<gboost_shrinkage>(p, ctx) || enum_typed_roundtrip<gboost_subsample>(p, ctx) ||
           enum_typed_roundtrip<task_type>(p, ctx) || enum_typed_roundtrip<hinge_type>(p, ctx) ||
           enum_typed_roundtrip<lsearch_type>(p, ctx));
}

long g_fact_objs = 0, g_fact_params = 0, g_fact_perturbed = 0;

string demangled(const std::type_info& ti)
{
    int   status = 0;
    char* d      = abi::__cxa_demangle(ti.name(), nullptr, nullptr, &status);
    string r     = (status == 0 && d != nullptr) ? string(d) : string(ti.name());
    std::free(d);
    return r;
}

// the symbolic constants that appear as arguments of parameter_t::make_*: evaluated by the compiler here, resolved by a
// table in tools/checks/c19_params.py there -- the check compares the two on every run
void constants()
{
#define CF(expr) std::printf("CONST F %s %s\n", #expr, vh::hexf(static_cast<double>(expr)).c_str())
#define CI(expr) std::printf("CONST I %s %lld\n", #expr, static_cast<long long>(expr))
    CF(std::numeric_limits<scalar_t>::max());
    CF(std::numeric_limits<scalar_t>::lowest());
    CF(std::numeric_limits<scalar_t>::min());
    CF(std::numeric_limits<scalar_t>::epsilon());
    CF(std::numeric_limits<double>::max());
    CF(std::numeric_limits<double>::lowest());
    CF(std::numeric_limits<double>::epsilon());
    CF(epsilon<scalar_t>());
    CF(epsilon0<scalar_t>());
    CF(epsilon1<scalar_t>());
    CF(epsilon2<scalar_t>());
    CF(epsilon3<scalar_t>());
    CI(std::numeric_limits<int64_t>::max());
    CI(std::numeric_limits<int64_t>::min());
    CI(std::numeric_limits<int64_t>::lowest());
    CI(std::numeric_limits<int32_t>::max());
    CI(std::numeric_limits<int32_t>::min());
    CI(std::numeric_limits<int>::max());
    CI(std::numeric_limits<int>::min());
    CI(std::numeric_limits<tensor_size_t>::max());
    CI(std::numeric_limits<tensor_size_t>::min());
    // the C++ types behind the typed reads value<T>() that the generator classifies (sizes in bits, signedness)
    std::printf("CONST I sizeof(tensor_size_t)*signed %d\n", static_cast<int>(sizeof(tensor_size_t) * 8) * (std::is_signed_v<tensor_size_t> ? 1 : -1));
    std::printf("CONST I sizeof(size_t)*signed %d\n", static_cast<int>(sizeof(size_t) * 8) * (std::is_signed_v<size_t> ? 1 : -1));
    std::printf("CONST I sizeof(int)*signed %d\n", static_cast<int>(sizeof(int) * 8) * (std::is_signed_v<int> ? 1 : -1));
    std::printf("CONST I sizeof(scalar_t) %d\n", static_cast<int>(sizeof(scalar_t) * 8));
#undef CF
#undef CI
}

template <class tobject>
const configurable_t* as_config(const tobject& o)
{
    if constexpr (std::is_base_of_v<configurable_t, tobject>) return &o;
    else return nullptr;
}
template <class tobject>
configurable_t* as_config_mut(tobject& o)
{
    if constexpr (std::is_base_of_v<configurable_t, tobject>) return &o;
    else return nullptr;
}

// third extension (stage CLONETAB): an object as the clone model sees it -- dynamic class, parameter state, owned components
// (the two line-search objects of a solver): `<clshex> <cfg> [## <memberhex> <clshex> <cfg>]*`
long g_cloned_lines = 0;
template <class tobject>
string tree_of(const tobject& o)
{
    const auto* c = as_config(o);
    string      s = hexs(demangled(typeid(o))) + " " + (c != nullptr ? cfg_state(*c) : string("."));
    if constexpr (std::is_base_of_v<solver_t, tobject>)
    {
        s += " ## " + hexs("m_lsearch0") + " " + hexs(demangled(typeid(o.lsearch0()))) + " " + cfg_state(o.lsearch0());
        s += " ## " + hexs("m_lsearchk") + " " + hexs(demangled(typeid(o.lsearchk()))) + " " + cfg_state(o.lsearchk());
    }
    return s;
}
template <class tobject>
void cloned_line(const char* fname, const string& id, const tobject& orig, const tobject& clone)
{
    ++g_cloned_lines;
    std::printf("CLONED %s %s :: %s :: %s\n", fname, hexs(id).c_str(), tree_of(orig).c_str(), tree_of(clone).c_str());
}

template <class tobject, class tbehave>
void factory(const char* fname, factory_t<tobject>& all, const tbehave& behave)
{
    const auto ids = all.ids();
    if (ids.empty()) fail("factory has no registered ids", fname);
    std::set<string> uniq(ids.begin(), ids.end());
    if (uniq.size() != ids.size()) fail("factory ids not unique", fname);
    if (all.size() != ids.size()) fail("factory size != number of ids", fname);
    if (all.get("no-such-id-for-sure") != nullptr) fail("factory returned an object for an unknown id", fname);
    for (const auto& id : ids)
    {
        const string ctx = string(fname) + " " + id;
        ++g_fact_objs;
        auto obj = all.get(id);
        if (!obj)
        {
            fail("factory.get returned null for a listed id", ctx);
            continue;
        }
        if (obj->type_id() != id) fail("object reports another type_id than the id it is registered under", ctx + " type_id=" + obj->type_id());
        if (!all.has(id)) fail("factory.has false for a listed id", ctx);
        auto twin = all.get(id);
        auto cl   = obj->clone();
        if (!cl)
        {
            fail("clone returned null", ctx);
            continue;
        }
        if (cl->type_id() != id) fail("clone has another type_id", ctx);
        if (typeid(*cl) != typeid(*obj)) fail("clone has another dynamic type", ctx);
        size_t      nparams = 0;
        const auto* c0      = as_config(*obj);
        if (c0 != nullptr)
        {
            const auto* cc = as_config(*cl);
            const auto* ct = as_config(*twin);
            nparams        = c0->parameters().size();
            if (!(cc->parameters() == c0->parameters())) fail("clone parameters differ from the original", ctx);
            if (cfg_state(*cc) != cfg_state(*c0)) fail("clone parameter state differs from the original", ctx);
            if (cfg_state(*ct) != cfg_state(*c0)) fail("two objects from the same id differ", ctx);
            std::set<string> seen;
            for (const auto& p : c0->parameters())
            {
                ++g_fact_params;
                std::printf("DEFAULT %s %s %s %s\n", fname, hexs(id).c_str(), hexs(p.name()).c_str(), st_of(p.storage()).c_str());
                if (!in_domain(p.storage())) fail("default value outside its domain", ctx + " " + p.name() + " " + st_of(p.storage()));
                if (!seen.insert(p.name()).second) fail("duplicate parameter name", ctx + " " + p.name());
                if (std::get_if<std::monostate>(&p.storage())) fail("registered parameter without a kind", ctx + " " + p.name());
                // the value can be read in its natural type and re-assigned to itself
                try
                {
                    parameter_t q = p;
                    if (const auto* i = std::get_if<ipar_t>(&p.storage())) q = i->m_value;
                    if (const auto* f = std::get_if<fpar_t>(&p.storage())) q = f->m_value;
                    if (const auto* e = std::get_if<epar_t>(&p.storage())) q = e->m_value;
                    if (const auto* ip = std::get_if<ippar_t>(&p.storage())) q = std::make_tuple(ip->m_value1, ip->m_value2);
                    if (const auto* fp = std::get_if<fppar_t>(&p.storage())) q = std::make_tuple(fp->m_value1, fp->m_value2);
                    if (!(q == p)) fail("re-assigning the default changed the parameter", ctx + " " + p.name());
                }
                catch (std::exception&)
                {
                    fail("the default value is rejected when assigned again", ctx + " " + p.name() + " " + st_of(p.storage()));
                }
                // typed read-back of enumeration parameters (on a copy)
                {
                    parameter_t q = p;
                    enum_typed_all(q, ctx);
                }
            }
            // behaviour before any modification
            const auto b0 = behave(*obj), b1 = behave(*cl);
            if (b0 != b1) fail("clone behaves differently", ctx + " :: " + b0 + " vs " + b1);
            // independence, both directions: change every parameter of the clone, then of the original
            const auto s0  = cfg_state(*c0);
            auto*      ccm = as_config_mut(*cl);
            for (const auto& p : c0->parameters())
            {
                if (perturb(ccm->parameter(p.name()))) ++g_fact_perturbed;
            }
            if (cfg_state(*c0) != s0) fail("modifying the clone changed the original", ctx);
            if (cfg_state(*ct) != s0) fail("modifying the clone changed another object of the factory", ctx);
            const auto s1 = cfg_state(*cc);
            if (nparams > 0 && s1 == s0 && g_fact_perturbed == 0) fail("no parameter of the clone could be modified", ctx);
            auto* c0m = as_config_mut(*obj);
            for (const auto& p : cc->parameters())
            {
                auto& q = c0m->parameter(p.name());
                perturb(q);
                perturb(q);
            }
            if (cfg_state(*cc) != s1) fail("modifying the original changed the clone", ctx);
            // a fresh object from the factory still has the defaults (the prototype was not touched)
            const auto fresh = all.get(id);
            if (cfg_state(*as_config(*fresh)) != s0) fail("factory prototype was modified through a returned object", ctx);
            // a clone of the modified clone carries the modifications
            const auto cl2 = cl->clone();
            if (cfg_state(*as_config(*cl2)) != s1) fail("clone of a modified object does not carry the modified parameters", ctx);
            if (behave(*cl2) != behave(*cl)) fail("clone of a modified object behaves differently", ctx);
            cloned_line(fname, id, *cl, *cl2);
        }
        else
        {
            const auto b0 = behave(*obj), b1 = behave(*cl);
            if (b0 != b1) fail("clone behaves differently", ctx + " :: " + b0 + " vs " + b1);
            cloned_line(fname, id, *obj, *cl);
        }
        std::printf("FACT %s %s params=%zu cls=%s\n", fname, hexs(id).c_str(), nparams, hexs(demangled(typeid(*obj))).c_str());
    }
}

string behave_function(const function_t& f)
{
    std::ostringstream o;
    o << f.name() << " n=" << f.size() << " cvx=" << f.convex() << " smooth=" << f.smooth() << " sc=" << vh::hexf(f.strong_convexity());
    if (f.size() > 0 && f.size() <= 4096)
    {
        vector_t x(f.size()), gx(f.size());
        for (tensor_size_t i = 0; i < f.size(); ++i) x(i) = 0.25 + 0.125 * static_cast<double>(i % 5) - 0.0625 * static_cast<double>(i % 3);
        const auto fx = f.vgrad(x, gx);
        // rounded: Eigen reductions may depend on buffer alignment
        char buf[128];
        std::snprintf(buf, sizeof(buf), " f=%.9e g=%.9e", fx, gx.lpNorm<Eigen::Infinity>());
        o << buf;
    }
    return o.str();
}

string behave_loss(const loss_t& l)
{
    std::ostringstream o;
    tensor4d_t         targets(3, 2, 1, 1), outputs(3, 2, 1, 1);
    for (tensor_size_t i = 0; i < 6; ++i)
    {
        targets(i) = (i % 2) ? 1.0 : -1.0;
        outputs(i) = 0.3 * static_cast<double>(i) - 0.7;
    }
    tensor1d_t values(3), errors(3);
    tensor4d_t grads(3, 2, 1, 1);
    l.value(targets, outputs, values);
    l.error(targets, outputs, errors);
    l.vgrad(targets, outputs, grads);
    for (tensor_size_t i = 0; i < 3; ++i) o << vh::hexf(values(i)) << "," << vh::hexf(errors(i)) << ",";
    for (tensor_size_t i = 0; i < 6; ++i) o << vh::hexf(grads(i)) << ",";
    o << "cvx=" << l.convex() << " smooth=" << l.smooth();
    return o.str();
}

template <class tobject>
string behave_params(const tobject& o)
{
    const auto* c = as_config(o);
    return c ? cfg_state(*c) : string("-");
}

// the configuration of a line-search solver includes its two line-search components (ids AND their parameters)
string behave_lsearch(const solver_t& o)
{
    if (o.type() != solver_type::line_search) return "";
    return " | lsearch0=" + o.lsearch0().type_id() + ":" + cfg_state(o.lsearch0()) + " | lsearchk=" + o.lsearchk().type_id() + ":" + cfg_state(o.lsearchk());
}

long g_lsearch_clone_checks = 0;
// a solver whose line-search components were installed as CONFIGURED objects (non-default parameters) and then cloned: the
// clone must carry the same component ids and parameters and minimise identically (bit for bit), and stay independent
void solver_lsearch_clones()
{
    const auto fproto = function_t::all().get("rosenbrock");
    for (const auto& sid : solver_t::all().ids())
    {
        auto solver = solver_t::all().get(sid);
        if (solver->type() != solver_type::line_search) continue;
        for (const auto& l0 : lsearch0_t::all().ids())
            for (const auto& lk : lsearchk_t::all().ids())
            {
                const string ctx = "solver " + sid + " lsearch0=" + l0 + " lsearchk=" + lk;
                auto o0 = lsearch0_t::all().get(l0);
                auto ok = lsearchk_t::all().get(lk);
                bool changed = false;
                for (const auto& p : o0->parameters()) { const string name = p.name(); changed = perturb(o0->parameter(name)) || changed; }
                for (const auto& p : ok->parameters()) { const string name = p.name(); changed = perturb(ok->parameter(name)) || changed; }
                solver->lsearch0(*o0);
                solver->lsearchk(*ok);
                const auto cl = solver->clone();
                ++g_lsearch_clone_checks;
                cloned_line("solver", sid, *solver, *cl);
                if (behave_params(*cl) + behave_lsearch(*cl) != behave_params(*solver) + behave_lsearch(*solver))
                    fail("clone of a solver with configured line-search components is not configuration-equal", ctx + " :: " + behave_lsearch(*solver) + " vs " + behave_lsearch(*cl));
                if (fproto && (sid == "gd" || sid == "lbfgs" || sid == "bfgs" || sid == "cgd-pr"))
                {
                    const auto f = fproto->make(3, 10);
                    vector_t   x0(f->size());
                    for (tensor_size_t i = 0; i < x0.size(); ++i) x0(i) = 0.5 - 0.25 * static_cast<double>(i);
                    const auto a = solver->minimize(*f, x0, make_null_logger());
                    const auto b = cl->minimize(*f, x0, make_null_logger());
                    if (a.fx() != b.fx() || a.fcalls() != b.fcalls() || a.gcalls() != b.gcalls() || a.status() != b.status())
                        fail("clone of a solver with configured line-search components minimises differently", ctx);
                }
                (void)changed;
            }
    }
}

void factories()
{
    factory("solver", solver_t::all(), [](const solver_t& o) { return behave_params(o) + behave_lsearch(o); });
    solver_lsearch_clones();
    factory("lsearch0", lsearch0_t::all(), [](const lsearch0_t& o) { return behave_params(o); });
    factory("lsearchk", lsearchk_t::all(), [](const lsearchk_t& o) { return behave_params(o); });
    factory("loss", loss_t::all(), [](const loss_t& o) { return behave_loss(o) + " " + behave_params(o); });
    factory("splitter", splitter_t::all(), [](const splitter_t& o) { return behave_params(o); });
    factory("tuner", tuner_t::all(), [](const tuner_t& o) { return behave_params(o); });
    factory("generator", generator_t::all(), [](const generator_t& o) { return scat(o.type_id(), " fitted-features=", o.features()); });
    factory("wlearner", wlearner_t::all(), [](const wlearner_t& o) { return behave_params(o); });
    factory("linear", linear_t::all(), [](const linear_t& o) { return behave_params(o); });
    factory("datasource", datasource_t::all(), [](const datasource_t& o) { return behave_params(o); });
    factory("function", function_t::all(), [](const function_t& o) { return behave_function(o); });
}
} // namespace

int main(int argc, char** argv)
{
    std::setvbuf(stdout, nullptr, _IOLBF, 0);
    const bool thorough = argc > 1 && string(argv[1]) == "thorough";
    const auto seed     = vh::env_seed();
    gen_t      g(seed * 0x9E3779B97F4A7C15ULL + 19);

    // replay of a single case: c19_param replay "<spec and ops>" is not needed: every case is regenerated from the seed
    exhaustive(g, thorough);
    random_histories(g, thorough ? 60000 : 6000);
    config_histories(g, thorough ? 6000 : 600);
    constants();
    factories();

    std::printf("DONE cases=%ld ops=%ld accepted=%ld rejected=%ld nonconvertible=%ld factory_objects=%ld factory_params=%ld perturbed=%ld cloned=%ld fails=%ld\n", g_cases, g_ops,
                g_accept, g_reject, g_ub, g_fact_objs, g_fact_params, g_fact_perturbed, g_cloned_lines, g_fail);
    return 0;
}
