// C18 harness: "shared const objects are thread-safe with schedule-independent results".
//
//   c18_shared <quick|thorough|tsan> [only]   only in {loop,user,tune,fit,wfit,tieprobe}[:<scenario number>]; default: all except tieprobe;
//                                             tsan = reduced scenario set for the ThreadSanitizer run of the quick tier
//
// Everything random derives from VERIF_SEED (vh::env_seed()); a scenario's generator is a hash of (seed, family, scenario
// number) so that a scenario can be reproduced alone. NANO_VERIF hooks: g_max_threads = 16 (pools of up to 16 workers on
// any machine), g_rng_seed = 42 (the unseeded RNGs of the library become deterministic), a g_sched_hook with seeded random
// yields / short sleeps (delay level 0..2 chosen per scenario) and a g_event_hook counting the pool_t::map calls of ml::tune.
// g_clock is a global logical clock: every observed task takes a stamp at its start (t0) and its end (t1); two tasks
// overlap in time iff their [t0, t1] intervals intersect. `tid` is a small integer id per OS thread.
//
// OUTPUT (tokens separated by single spaces, sections by " | "):
//
//  LOOP <id> group=<g> kind=<flatten|flattent|targets|select|cachef|cachet> owner=<o> pool=<P> n=<elements>
//       chunk=<chunksize> caller=<tid> | <b>:<e>:<tnum>:<tid>:<t0>:<t1>:<s> ... | total=<sum of s> expect=<same sum, sequential>
//     one line per loop() call on a dataset iterator. A group = one shared dataset_t(source, P) used concurrently by U user
//     threads, each with its own iterator object (`owner`, unique over the run) calling loop() 1..3 times. s = exact int64
//     checksum (sum of 64 * value over the delivered block, NaN = missing skipped). select: one task per callback,
//     b = feature index, e = b + 1, n = number of scalar features, chunk = max(1, (n + P/2) / P).
//     cachef = cache_flatten() then loop(flatten callback); cachet = cache_targets() + cache_flatten() then
//     loop(flatten+targets callback): the tasks listed are those of the loop() that follows the caching.
//     oracles (FAIL): (a) the ranges tile [0, n) exactly once, (b) tnum < P, (c) delivered data == raw columns bit for bit,
//     (d) tasks of one owner with the same tnum never overlap in time, (e) total == expect.
//
//  USER <id> kind=<minimize|loss|dataset|predict> what=<solver id|loss id|..> threads=<T> reps=<r> objs=<ids of the
//       per-thread private objects> shared=<id of the shared object> result=<same|diff> [rng=1]
//     const interface of ONE shared object used by T threads at once (private function objects / buffers), compared bit for
//     bit with the same calls made sequentially before. rng=1: the solver draws random numbers (deterministic here because
//     g_rng_seed is set). One FAIL line per difference (thread, repetition, quantity, expected and obtained as %a).
//
//  TUNEB <id> pool=<P> batch=<k> old=<old_trials> new=<new_trials> folds=<F> | <trial>:<fold>:<closest_trial|-1>:<closest_fold|-1>:<tid>:<t0>:<t1> ...
//  TUNET <id> pool=<P> folds=<F> trials=<T> | <uid of the task that computed (trial,fold)>=<uid read back from extra(trial,fold)> ... (row-major)
//     nano::ml::tune driven directly with a deterministic callback, tune-pool sizes 1, 2, 16 (g_max_threads set before the call).
//     oracles: every (trial, fold) computed exactly once and inside its batch; extra(trial, fold) is the computing task's uid;
//     stored statistics are the callback's; `closest` is empty (first batch only) or from a trial < old_trials of the same fold;
//     params / values / statistics / optimum trial bit-identical between pool sizes.
//
//  FIT <id> model=<..> threads=<1|2|4|16> n=<samples> features=<selected features or -> maxrel=<%a> result=<same|diff> [affinity=<cpus>]
//     full fit() of linear models / gboost with (dataset pool, tune pool) = (1,1) reference, (1,P) [dataset_pool=1: must be
//     BIT-IDENTICAL to the reference] and (P,P), P = 2, 4, 16 [selected features, number of weak learners and tuning equal,
//     predictions within 1e-5 relative: |a-b| <= 1e-5 max(|a|,|b|,rms of the reference predictions); a different tuning with
//     validation errors within 1e-5 = result=tieflip; gboost differences are CAND lines, result=cand]. thorough: (P,P) repeated
//     under restricted CPU affinity.
//     NB: gboost::max_rounds has the domain [10, 1e6]: 10 rounds are used (the smallest admissible value).
//
//  WFIT <id> learner=<..> threads=<P> n=<samples> features=<F> dup=<base:copy:mode,..> ref=<features>@<score> got=<features>@<score> result=<same|tie|diff>
//     weak-learner fits on near-duplicate features, dataset pools of 2,3,4,8,16 workers vs one worker (see run_wfit)
//
//  TIEPROBE run=<i> threads=<t> features=<list> / TIEPROBE-SUMMARY distinct_feature_sets=<k>   (only on request, never FAIL)
//
//  FAIL <family> <what happened> ;; <seed, scenario number and all parameters>      (at most 40 printed, all counted)
//  CAND <kind> <what happened> ;; <context>     differences of a kind recorded as candidate finding of the unchanged code (not FAIL)
//  DONE scenarios=<n> fails=<m> cands=<c> loops=<LOOP lines> users=<USER lines> tunes=<TUNET lines> fits=<FIT lines>
#include "common.h"
#include <algorithm>
#include <any>
#include <array>
#include <atomic>
#include <chrono>
#include <filesystem>
#include <map>
#include <memory>
#include <mutex>
#include <nano/dataset.h>
#include <nano/dataset/iterator.h>
#include <nano/datasource.h>
#include <nano/function.h>
#include <nano/gboost/model.h>
#include <nano/generator/elemwise_identity.h>
#include <nano/linear.h>
#include <nano/loss.h>
#include <nano/machine/params.h>
#include <nano/machine/result.h>
#include <nano/machine/tune.h>
#include <nano/solver.h>
#include <nano/splitter.h>
#include <nano/tuner.h>
#include <nano/verif.h>
#include <nano/wlearner.h>
#include <sched.h>
#include <set>
#include <thread>

#ifndef NANO_VERIF
#error "this harness needs the NANO_VERIF hooks"
#endif

using namespace nano;

namespace
{
using vec_t = std::vector<double>;

// ------------------------------------------------------------------------------------------------------------------
// clocks, thread ids, hooks, output
// ------------------------------------------------------------------------------------------------------------------
std::atomic<uint64_t> g_clock{1};
std::atomic<int>      g_next_tid{0};
thread_local int      tl_tid = -1;

int my_tid()
{
    if (tl_tid < 0) tl_tid = g_next_tid.fetch_add(1);
    return tl_tid;
}
uint64_t stamp()
{
    return g_clock.fetch_add(1, std::memory_order_acq_rel);
}

std::atomic<uint64_t> g_sched_seed{0};
std::atomic<int>      g_delay_level{0};
thread_local uint64_t tl_rng  = 0;
thread_local bool     tl_init = false;

void on_sched(int point)
{
    if (!tl_init)
    {
        tl_rng  = g_sched_seed.fetch_add(0x9E3779B97F4A7C15ULL) ^ (static_cast<uint64_t>(point) << 32);
        tl_init = true;
    }
    vh::rng_t  rng(tl_rng);
    const auto r     = rng.next();
    tl_rng           = rng.s;
    const int  level = g_delay_level.load(std::memory_order_relaxed);
    if (level == 0) return;
    const auto m = r % 100;
    if (m < 30) std::this_thread::yield();
    else if (m < 30 + 10 * static_cast<unsigned>(level))
        std::this_thread::sleep_for(std::chrono::microseconds(1 + (r >> 8) % (50U * static_cast<unsigned>(level))));
}

// ml::tune: every tpool.map is one batch (a = number of tasks); only counted while a TUNE scenario runs
constexpr size_t                             max_batches = 1024;
std::atomic<bool>                            g_tune_on{false};
std::atomic<int>                             g_tune_batches{0};
std::array<std::atomic<uint64_t>, max_batches> g_tune_batch_tasks;

std::mutex g_out;
long       g_fails = 0, g_cands = 0, g_scenarios = 0, g_loops = 0, g_users = 0, g_tunes = 0, g_fits = 0;
long       g_next_obj = 0;

void emit(const std::string& line)
{
    const std::scoped_lock lock(g_out);
    std::fputs((line + "\n").c_str(), stdout);
}
void fail(const std::string& family, const std::string& what, const std::string& ctx)
{
    const std::scoped_lock lock(g_out);
    ++g_fails;
    if (g_fails <= 40) std::fputs(("FAIL " + family + " " + what + " ;; " + ctx + "\n").c_str(), stdout);
}

// a difference of the kind recorded as a CANDIDATE finding of the unchanged code (see notes/C18.md): not a FAIL
void cand(const std::string& kind, const std::string& what, const std::string& ctx)
{
    const std::scoped_lock lock(g_out);
    ++g_cands;
    if (g_cands <= 40) std::fputs(("CAND " + kind + " " + what + " ;; " + ctx + "\n").c_str(), stdout);
}

uint64_t mix(uint64_t a, uint64_t b)
{
    vh::rng_t r(a * 0x9E3779B97F4A7C15ULL + b + 0x1234567ULL);
    r.next();
    return r.next();
}

void busy_us(int us)
{
    if (us <= 0) return;
    const auto until = std::chrono::steady_clock::now() + std::chrono::microseconds(us);
    while (std::chrono::steady_clock::now() < until) {}
}

struct barrier_t
{
    explicit barrier_t(int n) : m_n(n) {}
    void wait()
    {
        m_count.fetch_add(1, std::memory_order_acq_rel);
        while (m_count.load(std::memory_order_acquire) < m_n) std::this_thread::yield();
    }
    std::atomic<int> m_count{0};
    int              m_n;
};

bool same_val(double a, double b)
{
    return (std::isnan(a) && std::isnan(b)) || std::memcmp(&a, &b, sizeof(double)) == 0;
}
// first index where the two vectors differ (NaN == NaN), -1 if none, -2 if the sizes differ
int64_t first_diff(const vec_t& a, const vec_t& b)
{
    if (a.size() != b.size()) return -2;
    for (size_t i = 0; i < a.size(); ++i)
        if (!same_val(a[i], b[i])) return static_cast<int64_t>(i);
    return -1;
}
int64_t q64(double v)
{
    if (std::isnan(v)) return 0;
    if (!(std::fabs(v) < 1e9)) return 0x7fffffff;
    return static_cast<int64_t>(std::llround(v * 64.0));
}
std::string il(const indices_t& v)
{
    std::string s;
    for (tensor_size_t i = 0; i < v.size(); ++i) s += (i ? "," : "") + std::to_string(v(i));
    return s.empty() ? std::string("-") : s;
}
indices_t mk_indices(const std::vector<tensor_size_t>& v)
{
    indices_t r(static_cast<tensor_size_t>(v.size()));
    for (size_t i = 0; i < v.size(); ++i) r(static_cast<tensor_size_t>(i)) = v[i];
    return r;
}
std::string seedctx(const char* family, long scenario)
{
    return "seed=" + std::to_string(vh::env_seed()) + " scenario=" + family + ":" + std::to_string(scenario);
}

// ------------------------------------------------------------------------------------------------------------------
// in-memory datasource (same pattern as c11): scalar columns first, then sclass columns, the scalar target last
// ------------------------------------------------------------------------------------------------------------------
class mem_datasource_t final : public datasource_t
{
public:
    mem_datasource_t(tensor_size_t samples, features_t features, size_t target, std::vector<vec_t> columns)
        : datasource_t("c18-mem")
        , m_samples(samples)
        , m_features(std::move(features))
        , m_target(target)
        , m_columns(std::move(columns))
    {
    }
    rdatasource_t clone() const override { return std::make_unique<mem_datasource_t>(*this); }

private:
    void do_load() override
    {
        datasource_t::resize(m_samples, m_features, m_target);
        for (size_t f = 0; f < m_features.size(); ++f)
            for (tensor_size_t s = 0; s < m_samples; ++s)
            {
                const auto v = m_columns[f][static_cast<size_t>(s)];
                if (std::isnan(v)) continue; // missing value
                if (m_features[f].type() == feature_type::sclass) set(s, static_cast<tensor_size_t>(f), static_cast<int32_t>(v));
                else set(s, static_cast<tensor_size_t>(f), v);
            }
    }
    tensor_size_t      m_samples;
    features_t         m_features;
    size_t             m_target;
    std::vector<vec_t> m_columns;
};

struct src_t
{
    tensor_size_t                     n{0};
    size_t                            nscalar{0}, nclass{0};
    std::vector<int>                  classes; // per sclass column
    std::vector<vec_t>                cols;    // nscalar scalar + nclass sclass + target
    std::unique_ptr<mem_datasource_t> source;
    tensor_size_t                     columns{0}; // expected flatten layout: scalar columns, then classes-1 columns per sclass
    vec_t                             E;          // expected flatten values, n x columns
    std::string                       desc;

    const vec_t& target() const { return cols.back(); }
    double       e(tensor_size_t s, tensor_size_t c) const { return E[static_cast<size_t>(s * columns + c)]; }
};

void finalize(src_t& d)
{
    features_t features;
    for (size_t f = 0; f < d.nscalar; ++f) features.push_back(feature_t{"x" + std::to_string(f)}.scalar(feature_type::float64));
    for (size_t f = 0; f < d.nclass; ++f)
    {
        strings_t labels;
        for (int j = 0; j < d.classes[f]; ++j) labels.push_back("c" + std::to_string(j));
        features.push_back(feature_t{"s" + std::to_string(f)}.sclass(labels));
    }
    features.push_back(feature_t{"target"}.scalar(feature_type::float64));
    d.source = std::make_unique<mem_datasource_t>(d.n, features, features.size() - 1, d.cols);
    d.source->load();
    d.columns = static_cast<tensor_size_t>(d.nscalar);
    for (const auto k : d.classes) d.columns += k - 1;
    d.E.assign(static_cast<size_t>(d.n * d.columns), 0.0);
    for (tensor_size_t s = 0; s < d.n; ++s)
    {
        tensor_size_t c = 0;
        for (size_t f = 0; f < d.nscalar; ++f) d.E[static_cast<size_t>(s * d.columns + c++)] = d.cols[f][static_cast<size_t>(s)];
        for (size_t f = 0; f < d.nclass; ++f)
        {
            const auto v = d.cols[d.nscalar + f][static_cast<size_t>(s)];
            for (int j = 0; j + 1 < d.classes[f]; ++j)
                d.E[static_cast<size_t>(s * d.columns + c++)] = std::isnan(v) ? std::nan("") : (static_cast<int>(v) == j ? +1.0 : -1.0);
        }
    }
}

// values k/64 in [-2, 2], some missing: every checksum is an exact integer
src_t make_dyadic_source(vh::rng_t& rng, tensor_size_t n, size_t nscalar, size_t nclass, int missing_percent)
{
    src_t d;
    d.n = n, d.nscalar = nscalar, d.nclass = nclass;
    const auto miss = [&]() { return missing_percent > 0 && rng.range(0, 99) < missing_percent; };
    for (size_t f = 0; f < nscalar; ++f)
    {
        vec_t c(static_cast<size_t>(n));
        for (auto& v : c) v = miss() ? std::nan("") : static_cast<double>(rng.range(-128, 128)) / 64.0;
        d.cols.push_back(c);
    }
    for (size_t f = 0; f < nclass; ++f)
    {
        const auto k = static_cast<int>(rng.range(2, 4));
        d.classes.push_back(k);
        vec_t c(static_cast<size_t>(n));
        for (auto& v : c) v = miss() ? std::nan("") : static_cast<double>(rng.range(0, k - 1));
        d.cols.push_back(c);
    }
    vec_t t(static_cast<size_t>(n));
    for (auto& v : t) v = static_cast<double>(rng.range(-256, 256)) / 64.0;
    d.cols.push_back(t);
    d.desc = "data(dyadic,n=" + std::to_string(n) + ",scalar=" + std::to_string(nscalar) + ",sclass=" + std::to_string(nclass) +
             ",missing%=" + std::to_string(missing_percent) + ")";
    finalize(d);
    return d;
}

// continuous features (no ties), target = exact affine function of the features (+ class effect) + small deterministic noise
src_t make_regression_source(vh::rng_t& rng, tensor_size_t n, size_t nscalar, size_t nclass, double noise)
{
    src_t d;
    d.n = n, d.nscalar = nscalar, d.nclass = nclass;
    for (size_t f = 0; f < nscalar; ++f)
    {
        vec_t c(static_cast<size_t>(n));
        for (auto& v : c) v = rng.unit() * 4.0 - 2.0;
        d.cols.push_back(c);
    }
    for (size_t f = 0; f < nclass; ++f)
    {
        const auto k = static_cast<int>(rng.range(2, 3));
        d.classes.push_back(k);
        vec_t c(static_cast<size_t>(n));
        for (auto& v : c) v = static_cast<double>(rng.range(0, k - 1));
        d.cols.push_back(c);
    }
    vec_t w(nscalar);
    for (auto& v : w) v = (rng.unit() * 2.0 - 1.0) + (rng.range(0, 1) ? 0.5 : -0.5);
    const double b = rng.unit() - 0.5;
    vec_t        t(static_cast<size_t>(n));
    for (size_t s = 0; s < t.size(); ++s)
    {
        double y = b + noise * (rng.unit() * 2.0 - 1.0);
        for (size_t f = 0; f < nscalar; ++f) y += w[f] * d.cols[f][s];
        if (nclass > 0) y += 0.7 * d.cols[nscalar][s];
        t[s] = y;
    }
    d.cols.push_back(t);
    d.desc = "data(regression,n=" + std::to_string(n) + ",scalar=" + std::to_string(nscalar) + ",sclass=" + std::to_string(nclass) +
             ",noise=" + vh::hexf(noise) + ")";
    finalize(d);
    return d;
}

// threads == 0: the default argument of dataset_t (pool_t::max_size(), i.e. g_max_threads)
std::unique_ptr<dataset_t> make_dataset(const src_t& d, size_t threads)
{
    auto ds = threads > 0 ? std::make_unique<dataset_t>(*d.source, threads) : std::make_unique<dataset_t>(*d.source);
    ds->add<scalar_identity_generator_t>();
    ds->add<sclass_identity_generator_t>();
    bool ok = ds->columns() == d.columns && ds->features() == static_cast<tensor_size_t>(d.nscalar + d.nclass);
    for (tensor_size_t i = 0; ok && i < ds->features(); ++i)
    {
        const auto want = i < static_cast<tensor_size_t>(d.nscalar) ? "x" + std::to_string(i) : "s" + std::to_string(i - static_cast<tensor_size_t>(d.nscalar));
        ok              = ds->feature(i).name() == want;
    }
    if (!ok) fail("harness", "the feature/column layout of the dataset is not the one the harness assumes", d.desc);
    return ds;
}

// ------------------------------------------------------------------------------------------------------------------
// (1) LOOP: dataset iterators hand per-thread buffers indexed by the worker id of the dataset's pool
// ------------------------------------------------------------------------------------------------------------------
enum lkind_t : int { k_flatten = 0, k_flattent, k_targets, k_select, k_cachef, k_cachet };
const char* const lkind_name[] = {"flatten", "flattent", "targets", "select", "cachef", "cachet"};

struct task_rec_t
{
    std::atomic<int> count{0};
    int64_t          begin{-1}, end{-1};
    int              tnum{-1}, tid{-1};
    uint64_t         t0{0}, t1{0};
    int64_t          s{0};
    int              delay_us{0};
    bool             bad{false};
    char             what[200]{};
};

struct call_rec_t
{
    explicit call_rec_t(size_t k) : recs(k) {}
    std::vector<task_rec_t> recs;
    std::atomic<int>        stray{0};

    task_rec_t* enter(int64_t slot)
    {
        if (slot < 0 || slot >= static_cast<int64_t>(recs.size())) { stray.fetch_add(1); return nullptr; }
        auto& r = recs[static_cast<size_t>(slot)];
        return r.count.fetch_add(1) == 0 ? &r : nullptr; // a second execution of the same chunk is only counted
    }
};

void mark_bad(task_rec_t& r, const char* what, int64_t row, int64_t col, double got, double want)
{
    if (r.bad) return;
    r.bad = true;
    std::snprintf(r.what, sizeof(r.what), "%s row=%lld col=%lld got=%s want=%s", what, static_cast<long long>(row), static_cast<long long>(col),
                  vh::hexf(got).c_str(), vh::hexf(want).c_str());
}

// compare the delivered flatten block with the raw columns (full contents) and return its checksum
int64_t check_flatten(const src_t& src, const indices_t& samples, int64_t b, int64_t e, const tensor2d_cmap_t& got, task_rec_t& r)
{
    int64_t s = 0;
    if (got.size<0>() != e - b || got.size<1>() != src.columns || b < 0 || e > samples.size())
    {
        mark_bad(r, "flatten-dims", got.size<0>(), got.size<1>(), 0, 0);
        return 0;
    }
    for (int64_t i = b; i < e; ++i)
        for (tensor_size_t c = 0; c < src.columns; ++c)
        {
            // (the iterators replace missing values by zero after scaling: scalar_stats_t::scale -> nan2zero)
            const auto g = got(i - b, c), w0 = src.e(samples(i), c), w = std::isnan(w0) ? 0.0 : w0;
            if (!same_val(g, w)) mark_bad(r, "flatten-value", i, c, g, w);
            s += q64(g);
        }
    return s;
}
int64_t check_targets(const src_t& src, const indices_t& samples, int64_t b, int64_t e, const tensor4d_cmap_t& got, task_rec_t& r)
{
    int64_t s = 0;
    if (got.size<0>() != e - b || got.size() != e - b || b < 0 || e > samples.size())
    {
        mark_bad(r, "targets-dims", got.size<0>(), got.size(), 0, 0);
        return 0;
    }
    for (int64_t i = b; i < e; ++i)
    {
        const auto g = got.data()[i - b], w = src.target()[static_cast<size_t>(samples(i))];
        if (!same_val(g, w)) mark_bad(r, "targets-value", i, 0, g, w);
        s += q64(g);
    }
    return s;
}
int64_t check_select(const src_t& src, const indices_t& samples, int64_t feature, const scalar_cmap_t& got, task_rec_t& r)
{
    int64_t s = 0;
    if (got.size() != samples.size() || feature < 0 || feature >= static_cast<int64_t>(src.nscalar))
    {
        mark_bad(r, "select-dims", got.size(), feature, 0, 0);
        return 0;
    }
    for (tensor_size_t i = 0; i < samples.size(); ++i)
    {
        const auto g = got(i), w = src.cols[static_cast<size_t>(feature)][static_cast<size_t>(samples(i))];
        if (!same_val(g, w)) mark_bad(r, "select-value", i, feature, g, w);
        s += q64(g);
    }
    return s;
}

struct loop_user_t
{
    int                                      kind{0}, owner{0}, ncalls{1}, caller{-1};
    tensor_size_t                            batch{10};
    indices_t                                samples;
    std::string                              sdesc;
    int64_t                                  n{0}, chunk{0}, expect{0};
    std::vector<std::unique_ptr<call_rec_t>> calls;
    std::vector<std::string>                 notes; // problems seen by the user thread itself (exceptions, cache failures)
};

void finish_task(task_rec_t& r, int64_t b, int64_t e, size_t tnum, uint64_t t0, int64_t s)
{
    r.begin = b, r.end = e, r.tnum = static_cast<int>(tnum), r.tid = my_tid(), r.s = s, r.t0 = t0;
    r.t1 = stamp();
}

// the program of one user thread: its own iterator object, ncalls loop() calls in sequence
void run_loop_user(const src_t& src, const dataset_t& dataset, loop_user_t& u, barrier_t& barrier)
{
    barrier.wait();
    u.caller = my_tid();
    try
    {
        const auto& samples = u.samples;
        const auto  batch   = u.batch;
        if (u.kind == k_select)
        {
            const auto it = select_iterator_t{dataset};
            for (auto& pcall : u.calls)
            {
                auto&                   call = *pcall;
                const scalar_callback_t cb   = [&](tensor_size_t feature, size_t tnum, scalar_cmap_t values)
                {
                    const auto t0 = stamp();
                    auto*      r  = call.enter(feature);
                    if (r == nullptr) return;
                    busy_us(r->delay_us);
                    const auto s = check_select(src, samples, feature, values, *r);
                    finish_task(*r, feature, feature + 1, tnum, t0, s);
                };
                it.loop(samples, cb);
            }
        }
        else if (u.kind == k_targets)
        {
            auto it = targets_iterator_t{dataset, samples};
            it.batch(batch);
            it.scaling(scaling_type::none);
            for (auto& pcall : u.calls)
            {
                auto&                    call = *pcall;
                const targets_callback_t cb   = [&](tensor_range_t range, size_t tnum, tensor4d_cmap_t targets)
                {
                    const auto t0 = stamp();
                    auto*      r  = call.enter(range.begin() / batch);
                    if (r == nullptr) return;
                    busy_us(r->delay_us);
                    const auto s = check_targets(src, samples, range.begin(), range.end(), targets, *r);
                    finish_task(*r, range.begin(), range.end(), tnum, t0, s);
                };
                it.loop(cb);
            }
        }
        else
        {
            auto it = flatten_iterator_t{dataset, samples};
            it.batch(batch);
            it.scaling(scaling_type::none);
            for (auto& pcall : u.calls)
            {
                auto&                    call = *pcall;
                const flatten_callback_t cbf  = [&](tensor_range_t range, size_t tnum, tensor2d_cmap_t flatten)
                {
                    const auto t0 = stamp();
                    auto*      r  = call.enter(range.begin() / batch);
                    if (r == nullptr) return;
                    busy_us(r->delay_us);
                    const auto s = check_flatten(src, samples, range.begin(), range.end(), flatten, *r);
                    finish_task(*r, range.begin(), range.end(), tnum, t0, s);
                };
                const flatten_targets_callback_t cbt = [&](tensor_range_t range, size_t tnum, tensor2d_cmap_t flatten, tensor4d_cmap_t targets)
                {
                    const auto t0 = stamp();
                    auto*      r  = call.enter(range.begin() / batch);
                    if (r == nullptr) return;
                    busy_us(r->delay_us);
                    auto s = check_flatten(src, samples, range.begin(), range.end(), flatten, *r);
                    s += check_targets(src, samples, range.begin(), range.end(), targets, *r);
                    finish_task(*r, range.begin(), range.end(), tnum, t0, s);
                };
                const auto huge = std::numeric_limits<tensor_size_t>::max();
                if (u.kind == k_cachef && !it.cache_flatten(huge)) u.notes.emplace_back("cache_flatten returned false");
                if (u.kind == k_cachet && (!it.cache_targets(huge) || !it.cache_flatten(huge))) u.notes.emplace_back("cache_targets/cache_flatten returned false");
                if (u.kind == k_flatten || u.kind == k_cachef) it.loop(cbf);
                else it.loop(cbt);
            }
        }
    }
    catch (const std::exception& e)
    {
        u.notes.emplace_back(std::string("exception: ") + e.what());
    }
}

void run_loop_group(const uint64_t seed, const long g, int& next_owner)
{
    vh::rng_t   rng(mix(seed ^ 0x100F100FULL, static_cast<uint64_t>(g)));
    static const int pools[] = {1, 2, 2, 3, 4, 6, 8, 12, 16, 16};
    const auto  P       = static_cast<size_t>(rng.range(0, 1) ? pools[rng.range(0, 9)] : rng.range(1, 16));
    const auto  U       = static_cast<int>(rng.range(1, 4));
    const auto  n       = static_cast<tensor_size_t>(rng.range(20, 400));
    const auto  nscalar = static_cast<size_t>(rng.range(2, 8));
    const auto  nclass  = static_cast<size_t>(rng.range(0, 2));
    const auto  missing = rng.range(0, 2) == 0 ? static_cast<int>(rng.range(1, 10)) : 0;
    const auto  delay   = static_cast<int>(rng.range(0, 2));
    g_delay_level.store(delay);
    g_sched_seed.store(rng.next());

    const auto src     = make_dyadic_source(rng, n, nscalar, nclass, missing);
    const auto dataset = make_dataset(src, P);
    const auto pool    = dataset->concurrency();
    const auto gctx    = seedctx("loop", g) + " pool=" + std::to_string(P) + " users=" + std::to_string(U) + " " + src.desc + " delay=" + std::to_string(delay);
    if (pool != P) fail("loop", "dataset_t(source, " + std::to_string(P) + ") has a pool of " + std::to_string(pool) + " workers", gctx);

    std::vector<loop_user_t> users(static_cast<size_t>(U));
    for (auto& u : users)
    {
        u.kind   = static_cast<int>(rng.range(0, 5));
        u.owner  = next_owner++;
        u.ncalls = static_cast<int>(rng.range(1, 3));
        u.batch  = static_cast<tensor_size_t>(rng.range(10, 64));
        // samples: all in order / all shuffled / sub-sampled in order / sub-sampled and shuffled
        const auto                 smode = rng.range(0, 3);
        std::vector<tensor_size_t> idx;
        for (tensor_size_t i = 0; i < n; ++i)
            if (smode < 2 || rng.range(0, 1) == 0) idx.push_back(i);
        while (idx.size() < 5) idx.push_back(static_cast<tensor_size_t>(idx.size()));
        if (smode == 1 || smode == 3)
            for (size_t i = idx.size(); i > 1; --i) std::swap(idx[i - 1], idx[static_cast<size_t>(rng.range(0, static_cast<int64_t>(i) - 1))]);
        u.samples = smode == 0 ? arange(0, n) : mk_indices(idx);
        static const char* const smodes[] = {"arange", "shuffled", "subsampled", "subsampled+shuffled"};
        u.sdesc = std::string(smodes[smode]) + ":" + std::to_string(u.samples.size());
        const auto m = u.samples.size();
        if (u.kind == k_select)
        {
            u.n     = static_cast<int64_t>(nscalar);
            u.chunk = std::max<int64_t>(1, (u.n + static_cast<int64_t>(pool) / 2) / static_cast<int64_t>(pool));
        }
        else
        {
            u.n     = m;
            u.chunk = u.batch;
        }
        const auto ntasks = u.kind == k_select ? nscalar : static_cast<size_t>((m + u.batch - 1) / u.batch);
        for (int c = 0; c < u.ncalls; ++c)
        {
            u.calls.emplace_back(std::make_unique<call_rec_t>(ntasks));
            for (auto& r : u.calls.back()->recs) r.delay_us = rng.range(0, 3) == 0 ? 0 : static_cast<int>(rng.range(0, 50));
        }
        // the checksum computed sequentially from the raw columns
        int64_t ex = 0;
        for (tensor_size_t i = 0; i < m; ++i)
        {
            const auto s = u.samples(i);
            if (u.kind == k_select)
                for (size_t f = 0; f < nscalar; ++f) ex += q64(src.cols[f][static_cast<size_t>(s)]);
            if (u.kind == k_flatten || u.kind == k_flattent || u.kind == k_cachef || u.kind == k_cachet)
                for (tensor_size_t c = 0; c < src.columns; ++c) ex += q64(src.e(s, c));
            if (u.kind == k_targets || u.kind == k_flattent || u.kind == k_cachet) ex += q64(src.target()[static_cast<size_t>(s)]);
        }
        u.expect = ex;
    }

    {
        barrier_t                barrier(U);
        std::vector<std::thread> threads;
        for (auto& u : users) threads.emplace_back([&src, &dataset, &u, &barrier] { run_loop_user(src, *dataset, u, barrier); });
        for (auto& t : threads) t.join();
    }
    g_delay_level.store(0);

    // lines and oracles (main thread, after every parallel call has returned)
    for (auto& u : users)
    {
        const auto uctx = gctx + " | owner=" + std::to_string(u.owner) + " kind=" + lkind_name[u.kind] + " batch=" + std::to_string(u.batch) +
                          " samples=" + u.sdesc + " calls=" + std::to_string(u.ncalls);
        for (const auto& note : u.notes) fail("loop", note, uctx);
        struct iv_t { uint64_t t0, t1; int tnum, call; int64_t b; };
        std::vector<iv_t> ivs;
        for (size_t ci = 0; ci < u.calls.size(); ++ci)
        {
            auto&       call = *u.calls[ci];
            const auto  cctx = uctx + " call=" + std::to_string(ci);
            std::string tasks;
            int64_t     total = 0;
            bool        tiled = call.stray.load() == 0;
            for (size_t k = 0; k < call.recs.size(); ++k)
            {
                const auto& r   = call.recs[k];
                const auto  cnt = r.count.load();
                if (cnt != 1) { tiled = false; }
                if (cnt == 0) continue;
                const auto wb = u.kind == k_select ? static_cast<int64_t>(k) : static_cast<int64_t>(k) * u.batch;
                const auto we = u.kind == k_select ? wb + 1 : std::min<int64_t>(wb + u.batch, u.n);
                if (r.begin != wb || r.end != we) tiled = false;
                if (r.tnum < 0 || static_cast<size_t>(r.tnum) >= pool)
                    fail("loop", "task [" + std::to_string(r.begin) + "," + std::to_string(r.end) + ") got tnum " + std::to_string(r.tnum) + " >= pool size " + std::to_string(pool), cctx);
                if (r.bad)
                    fail("loop", "delivered data differs from the raw columns in task [" + std::to_string(r.begin) + "," + std::to_string(r.end) + ") tnum=" +
                                     std::to_string(r.tnum) + ": " + r.what, cctx);
                total += r.s;
                tasks += (tasks.empty() ? "" : " ") + std::to_string(r.begin) + ":" + std::to_string(r.end) + ":" + std::to_string(r.tnum) + ":" +
                         std::to_string(r.tid) + ":" + std::to_string(r.t0) + ":" + std::to_string(r.t1) + ":" + std::to_string(r.s);
                ivs.push_back({r.t0, r.t1, r.tnum, static_cast<int>(ci), r.begin});
            }
            if (!tiled)
            {
                std::string got;
                for (const auto& r : call.recs) got += " [" + std::to_string(r.begin) + "," + std::to_string(r.end) + ")x" + std::to_string(r.count.load());
                fail("loop", "the task ranges do not cover [0," + std::to_string(u.n) + ") exactly once (stray=" + std::to_string(call.stray.load()) + "):" + got, cctx);
            }
            if (total != u.expect) fail("loop", "checksum total=" + std::to_string(total) + " != expect=" + std::to_string(u.expect), cctx);
            emit("LOOP " + std::to_string(g_loops++) + " group=" + std::to_string(g) + " kind=" + lkind_name[u.kind] + " owner=" + std::to_string(u.owner) +
                 " pool=" + std::to_string(pool) + " n=" + std::to_string(u.n) + " chunk=" + std::to_string(u.chunk) + " caller=" + std::to_string(u.caller) + " | " +
                 (tasks.empty() ? std::string("-") : tasks) + " | total=" + std::to_string(total) + " expect=" + std::to_string(u.expect));
        }
        // (d) the per-thread buffer `tnum` of one iterator is never used by two tasks at the same time
        for (size_t a = 0; a < ivs.size(); ++a)
            for (size_t b = a + 1; b < ivs.size(); ++b)
                if (ivs[a].tnum == ivs[b].tnum && ivs[a].t0 <= ivs[b].t1 && ivs[b].t0 <= ivs[a].t1)
                    fail("loop", "two tasks of the same iterator with tnum=" + std::to_string(ivs[a].tnum) + " overlap in time: call " + std::to_string(ivs[a].call) +
                                     " begin " + std::to_string(ivs[a].b) + " [" + std::to_string(ivs[a].t0) + "," + std::to_string(ivs[a].t1) + "] and call " +
                                     std::to_string(ivs[b].call) + " begin " + std::to_string(ivs[b].b) + " [" + std::to_string(ivs[b].t0) + "," + std::to_string(ivs[b].t1) + "]", uctx);
    }
    ++g_scenarios;
}

// ------------------------------------------------------------------------------------------------------------------
// (2) USER: the const interface of one shared object used by T threads at once
// ------------------------------------------------------------------------------------------------------------------
// runs op(thread, rep) for all threads at once (released together), reps times each
template <class top>
void run_threads(const int T, const int reps, const top& op)
{
    barrier_t                barrier(T);
    std::vector<std::thread> threads;
    for (int i = 0; i < T; ++i)
        threads.emplace_back(
            [&, i]
            {
                barrier.wait();
                for (int r = 0; r < reps; ++r) op(i, r);
            });
    for (auto& t : threads) t.join();
}

std::string user_line(const char* kind, const std::string& what, int T, int reps, bool same, const char* extra = "")
{
    const auto  shared = g_next_obj++;
    std::string objs;
    for (int i = 0; i < T; ++i) objs += (i ? "," : "") + std::to_string(g_next_obj++);
    return "USER " + std::to_string(g_users++) + " kind=" + kind + " what=" + what + " threads=" + std::to_string(T) + " reps=" + std::to_string(reps) +
           " objs=" + objs + " shared=" + std::to_string(shared) + " result=" + (same ? "same" : "diff") + extra;
}

std::string diff_text(int thread, int rep, const std::string& quantity, const std::string& expected, const std::string& obtained)
{
    return "thread " + std::to_string(thread) + " repetition " + std::to_string(rep) + ": " + quantity + " expected " + expected + " obtained " + obtained;
}
// compares two vectors of doubles bit for bit; reports the first difference
bool cmp_vec(const char* family, const std::string& ctx, int thread, int rep, const std::string& quantity, const vec_t& want, const vec_t& got)
{
    const auto d = first_diff(want, got);
    if (d == -1) return true;
    if (d == -2) fail(family, diff_text(thread, rep, quantity + ".size", std::to_string(want.size()), std::to_string(got.size())), ctx);
    else fail(family, diff_text(thread, rep, quantity + "[" + std::to_string(d) + "]", vh::hexf(want[static_cast<size_t>(d)]), vh::hexf(got[static_cast<size_t>(d)])), ctx);
    return false;
}

struct minres_t
{
    vec_t       x;
    double      fx{0};
    int         status{-1};
    int64_t     fcalls{0}, gcalls{0};
    std::string exc;
};

minres_t run_minimize(const solver_t& solver, const function_t& function, const vector_t& x0)
{
    minres_t r;
    try
    {
        const auto logger = make_null_logger();
        const auto state  = solver.minimize(function, x0, logger);
        r.x.assign(state.x().data(), state.x().data() + state.x().size());
        r.fx     = state.fx();
        r.status = static_cast<int>(state.status());
        r.fcalls = state.fcalls();
        r.gcalls = state.gcalls();
    }
    catch (const std::exception& e)
    {
        r.exc = e.what();
    }
    return r;
}

void user_minimize(const uint64_t seed, const long scenario, const std::string& id)
{
    vh::rng_t  rng(mix(seed ^ 0x200A200AULL, static_cast<uint64_t>(scenario)));
    const bool gs    = id == "gs" || id == "ags" || id == "gs-lbfgs" || id == "ags-lbfgs";
    const int  T     = static_cast<int>(rng.range(2, 16));
    const int  reps  = static_cast<int>(rng.range(1, 3));
    const auto delay = static_cast<int>(rng.range(0, 2));
    auto       rsolver = solver_t::all().get(id);
    if (!rsolver) return;
    const auto maxev = gs ? rng.range(50, 100) : rng.range(50, 200);
    rsolver->parameter("solver::max_evals") = maxev;
    rsolver->parameter("solver::epsilon")   = 1e-8;
    std::string ls = "default";
    const bool  line_search = rsolver->type() == solver_type::line_search;
    if (line_search && rng.range(0, 2) != 0)
    {
        static const char* const l0[] = {"cgdescent", "constant", "linear", "quadratic"};
        static const char* const lk[] = {"backtrack", "cgdescent", "fletcher", "lemarechal", "morethuente"};
        const auto* a = l0[rng.range(0, 3)];
        const auto* b = lk[rng.range(0, 4)];
        rsolver->lsearch0(a);
        rsolver->lsearchk(b);
        ls = std::string(a) + "/" + b;
    }
    const solver_t& solver = *rsolver; // the ONE shared instance

    // private objects: a function (clone of a benchmark function) and a starting point per thread
    std::vector<std::string> fids;
    for (const auto& fid : function_t::all().ids())
    {
        const auto proto = function_t::all().get(fid);
        if (proto && proto->convex() && (!line_search || proto->smooth())) fids.push_back(fid);
    }
    std::vector<rfunction_t> functions;
    std::vector<vector_t>    x0s;
    std::string              fdesc;
    for (int i = 0; i < T; ++i)
    {
        rfunction_t fn;
        for (int t = 0; t < 50 && !fn; ++t)
        {
            const auto& fid  = fids[static_cast<size_t>(rng.range(0, static_cast<int64_t>(fids.size()) - 1))];
            const auto  dims = static_cast<tensor_size_t>(rng.range(2, gs ? 4 : 6));
            auto        made = function_t::all().get(fid)->make(dims, 10);
            if (made) fn = made->clone();
        }
        if (!fn) return;
        vector_t     x0(fn->size());
        const double radius = 0.5 + 2.5 * rng.unit();
        for (tensor_size_t k = 0; k < x0.size(); ++k) x0(k) = (rng.unit() * 2.0 - 1.0) * radius;
        fdesc += (i ? "," : "") + fn->name();
        functions.push_back(std::move(fn));
        x0s.push_back(std::move(x0));
    }
    const auto ctx = seedctx("user", scenario) + " kind=minimize solver=" + id + " max_evals=" + std::to_string(maxev) + " epsilon=1e-8 lsearch=" + ls +
                     " threads=" + std::to_string(T) + " reps=" + std::to_string(reps) + " delay=" + std::to_string(delay) + " functions=" + fdesc;

    std::vector<minres_t> ref;
    for (int i = 0; i < T; ++i) ref.push_back(run_minimize(solver, *functions[static_cast<size_t>(i)], x0s[static_cast<size_t>(i)]));

    std::vector<std::vector<minres_t>> got(static_cast<size_t>(T), std::vector<minres_t>(static_cast<size_t>(reps)));
    g_delay_level.store(delay);
    g_sched_seed.store(rng.next());
    run_threads(T, reps, [&](int i, int r) { got[static_cast<size_t>(i)][static_cast<size_t>(r)] = run_minimize(solver, *functions[static_cast<size_t>(i)], x0s[static_cast<size_t>(i)]); });
    g_delay_level.store(0);

    bool same = true;
    for (int i = 0; i < T; ++i)
        for (int r = 0; r < reps; ++r)
        {
            const auto& w = ref[static_cast<size_t>(i)];
            const auto& o = got[static_cast<size_t>(i)][static_cast<size_t>(r)];
            if (w.exc != o.exc) { same = false; fail("user", diff_text(i, r, "exception", "`" + w.exc + "`", "`" + o.exc + "`"), ctx); continue; }
            if (!cmp_vec("user", ctx, i, r, "state.x", w.x, o.x)) same = false;
            if (!same_val(w.fx, o.fx)) { same = false; fail("user", diff_text(i, r, "state.fx", vh::hexf(w.fx), vh::hexf(o.fx)), ctx); }
            if (w.status != o.status) { same = false; fail("user", diff_text(i, r, "state.status", std::to_string(w.status), std::to_string(o.status)), ctx); }
            if (w.fcalls != o.fcalls) { same = false; fail("user", diff_text(i, r, "state.fcalls", std::to_string(w.fcalls), std::to_string(o.fcalls)), ctx); }
            if (w.gcalls != o.gcalls) { same = false; fail("user", diff_text(i, r, "state.gcalls", std::to_string(w.gcalls), std::to_string(o.gcalls)), ctx); }
        }
    emit(user_line("minimize", id, T, reps, same, gs ? " rng=1" : ""));
    ++g_scenarios;
}

void user_loss(const uint64_t seed, const long scenario, const std::string& id)
{
    vh::rng_t  rng(mix(seed ^ 0x200B200BULL, static_cast<uint64_t>(scenario)));
    const int  T     = static_cast<int>(rng.range(2, 16));
    const int  reps  = static_cast<int>(rng.range(1, 3));
    const auto delay = static_cast<int>(rng.range(0, 2));
    const auto rloss = loss_t::all().get(id);
    if (!rloss) return;
    const loss_t& loss   = *rloss; // shared
    const bool    single = id.compare(0, 2, "s-") == 0, multi = id.compare(0, 2, "m-") == 0;
    const auto    n = static_cast<tensor_size_t>(rng.range(30, 200));
    const auto    d = static_cast<tensor_size_t>((single || multi) ? rng.range(2, 5) : rng.range(1, 3));
    tensor4d_t    targets(n, d, 1, 1), outputs(n, d, 1, 1); // shared, read only
    for (tensor_size_t i = 0; i < n; ++i)
    {
        const auto hot = rng.range(0, d - 1);
        for (tensor_size_t k = 0; k < d; ++k)
        {
            outputs(i, k, 0, 0) = rng.unit() * 4.0 - 2.0;
            targets(i, k, 0, 0) = single ? (k == hot ? +1.0 : -1.0) : (multi ? (rng.range(0, 1) ? +1.0 : -1.0) : rng.unit() * 4.0 - 2.0);
        }
    }
    const tensor4d_t& ctargets = targets;
    const tensor4d_t& coutputs = outputs;
    const auto ctx = seedctx("user", scenario) + " kind=loss loss=" + id + " samples=" + std::to_string(n) + " tsize=" + std::to_string(d) +
                     " threads=" + std::to_string(T) + " reps=" + std::to_string(reps) + " delay=" + std::to_string(delay);
    struct out_t { vec_t errors, values, vgrads; std::string exc; };
    const auto compute = [&](tensor1d_t& errors, tensor1d_t& values, tensor4d_t& vgrads)
    {
        out_t o;
        try
        {
            loss.error(ctargets, coutputs, errors);
            loss.value(ctargets, coutputs, values);
            loss.vgrad(ctargets, coutputs, vgrads);
            o.errors.assign(errors.data(), errors.data() + errors.size());
            o.values.assign(values.data(), values.data() + values.size());
            o.vgrads.assign(vgrads.data(), vgrads.data() + vgrads.size());
        }
        catch (const std::exception& e) { o.exc = e.what(); }
        return o;
    };
    out_t ref;
    {
        tensor1d_t errors, values;
        tensor4d_t vgrads;
        ref = compute(errors, values, vgrads);
    }
    std::vector<std::vector<out_t>> got(static_cast<size_t>(T), std::vector<out_t>(static_cast<size_t>(reps)));
    struct bufs_t { tensor1d_t errors, values; tensor4d_t vgrads; };
    std::vector<bufs_t> bufs(static_cast<size_t>(T)); // private buffers, reused over the repetitions
    g_delay_level.store(delay);
    g_sched_seed.store(rng.next());
    run_threads(T, reps, [&](int i, int r)
                {
                    auto& b = bufs[static_cast<size_t>(i)];
                    got[static_cast<size_t>(i)][static_cast<size_t>(r)] = compute(b.errors, b.values, b.vgrads);
                });
    g_delay_level.store(0);
    bool same = true;
    for (int i = 0; i < T; ++i)
        for (int r = 0; r < reps; ++r)
        {
            const auto& o = got[static_cast<size_t>(i)][static_cast<size_t>(r)];
            if (ref.exc != o.exc) { same = false; fail("user", diff_text(i, r, "exception", "`" + ref.exc + "`", "`" + o.exc + "`"), ctx); continue; }
            if (!cmp_vec("user", ctx, i, r, "errors", ref.errors, o.errors)) same = false;
            if (!cmp_vec("user", ctx, i, r, "values", ref.values, o.values)) same = false;
            if (!cmp_vec("user", ctx, i, r, "vgrads", ref.vgrads, o.vgrads)) same = false;
        }
    emit(user_line("loss", id, T, reps, same));
    ++g_scenarios;
}

std::vector<indices_t> make_subsets(vh::rng_t& rng, const tensor_size_t n, const int T)
{
    std::vector<indices_t> subsets;
    for (int i = 0; i < T; ++i)
    {
        std::vector<tensor_size_t> idx;
        const auto                 mode = rng.range(0, 2);
        for (tensor_size_t k = 0; k < n; ++k)
            if (mode == 0 || rng.range(0, 2) != 0) idx.push_back(k);
        while (idx.size() < 3) idx.push_back(static_cast<tensor_size_t>(idx.size()));
        if (mode == 2)
            for (size_t k = idx.size(); k > 1; --k) std::swap(idx[k - 1], idx[static_cast<size_t>(rng.range(0, static_cast<int64_t>(k) - 1))]);
        subsets.push_back(mk_indices(idx));
    }
    return subsets;
}

void user_dataset(const uint64_t seed, const long scenario)
{
    vh::rng_t  rng(mix(seed ^ 0x200C200CULL, static_cast<uint64_t>(scenario)));
    const int  T     = static_cast<int>(rng.range(2, 16));
    const int  reps  = static_cast<int>(rng.range(1, 3));
    const auto delay = static_cast<int>(rng.range(0, 2));
    const auto P     = static_cast<size_t>(rng.range(1, 16));
    const auto src   = make_dyadic_source(rng, static_cast<tensor_size_t>(rng.range(20, 300)), static_cast<size_t>(rng.range(2, 8)),
                                          static_cast<size_t>(rng.range(0, 2)), rng.range(0, 1) ? static_cast<int>(rng.range(1, 10)) : 0);
    const auto       pdataset = make_dataset(src, P);
    const dataset_t& dataset  = *pdataset; // shared
    const auto       subsets  = make_subsets(rng, src.n, T);
    const auto ctx = seedctx("user", scenario) + " kind=dataset pool=" + std::to_string(P) + " " + src.desc + " threads=" + std::to_string(T) +
                     " reps=" + std::to_string(reps) + " delay=" + std::to_string(delay);
    struct out_t { vec_t flatten, targets; std::vector<vec_t> scalars, sclasses; std::string exc; };
    struct bufs_t { tensor2d_t flatten; tensor4d_t targets; scalar_mem_t scalar; sclass_mem_t sclass; };
    const auto compute = [&](const indices_t& samples, bufs_t& b)
    {
        out_t o;
        try
        {
            const auto f = dataset.flatten(samples, b.flatten);
            o.flatten.assign(f.data(), f.data() + f.size());
            const auto t = dataset.targets(samples, b.targets);
            o.targets.assign(t.data(), t.data() + t.size());
            for (size_t k = 0; k < src.nscalar; ++k)
            {
                const auto v = dataset.select(samples, static_cast<tensor_size_t>(k), b.scalar);
                o.scalars.emplace_back(v.data(), v.data() + v.size());
            }
            for (size_t k = 0; k < src.nclass; ++k)
            {
                const auto v = dataset.select(samples, static_cast<tensor_size_t>(src.nscalar + k), b.sclass);
                vec_t      c(static_cast<size_t>(v.size()));
                for (tensor_size_t i = 0; i < v.size(); ++i) c[static_cast<size_t>(i)] = static_cast<double>(v(i));
                o.sclasses.push_back(c);
            }
        }
        catch (const std::exception& e) { o.exc = e.what(); }
        return o;
    };
    std::vector<out_t> ref;
    for (int i = 0; i < T; ++i)
    {
        bufs_t b;
        ref.push_back(compute(subsets[static_cast<size_t>(i)], b));
        // the sequential reference itself against the raw columns
        const auto& o = ref.back();
        const auto& s = subsets[static_cast<size_t>(i)];
        bool        ok = o.exc.empty() && o.flatten.size() == static_cast<size_t>(s.size() * src.columns) && o.targets.size() == static_cast<size_t>(s.size());
        for (tensor_size_t k = 0; ok && k < s.size(); ++k)
        {
            ok = same_val(o.targets[static_cast<size_t>(k)], src.target()[static_cast<size_t>(s(k))]);
            for (tensor_size_t c = 0; ok && c < src.columns; ++c) ok = same_val(o.flatten[static_cast<size_t>(k * src.columns + c)], src.e(s(k), c));
            for (size_t f = 0; ok && f < src.nscalar; ++f) ok = same_val(o.scalars[f][static_cast<size_t>(k)], src.cols[f][static_cast<size_t>(s(k))]);
            for (size_t f = 0; ok && f < src.nclass; ++f)
            {
                const auto w = src.cols[src.nscalar + f][static_cast<size_t>(s(k))];
                ok           = o.sclasses[f][static_cast<size_t>(k)] == (std::isnan(w) ? -1.0 : w);
            }
        }
        if (!ok) fail("user", "sequential flatten/targets/select of thread " + std::to_string(i) + "'s samples differ from the raw columns " + o.exc, ctx);
    }
    std::vector<std::vector<out_t>> got(static_cast<size_t>(T), std::vector<out_t>(static_cast<size_t>(reps)));
    std::vector<bufs_t>             bufs(static_cast<size_t>(T));
    g_delay_level.store(delay);
    g_sched_seed.store(rng.next());
    run_threads(T, reps, [&](int i, int r) { got[static_cast<size_t>(i)][static_cast<size_t>(r)] = compute(subsets[static_cast<size_t>(i)], bufs[static_cast<size_t>(i)]); });
    g_delay_level.store(0);
    bool same = true;
    for (int i = 0; i < T; ++i)
        for (int r = 0; r < reps; ++r)
        {
            const auto& w = ref[static_cast<size_t>(i)];
            const auto& o = got[static_cast<size_t>(i)][static_cast<size_t>(r)];
            if (w.exc != o.exc) { same = false; fail("user", diff_text(i, r, "exception", "`" + w.exc + "`", "`" + o.exc + "`"), ctx); continue; }
            if (!cmp_vec("user", ctx, i, r, "flatten", w.flatten, o.flatten)) same = false;
            if (!cmp_vec("user", ctx, i, r, "targets", w.targets, o.targets)) same = false;
            for (size_t f = 0; f < w.scalars.size() && f < o.scalars.size(); ++f)
                if (!cmp_vec("user", ctx, i, r, "select(scalar " + std::to_string(f) + ")", w.scalars[f], o.scalars[f])) same = false;
            for (size_t f = 0; f < w.sclasses.size() && f < o.sclasses.size(); ++f)
                if (!cmp_vec("user", ctx, i, r, "select(sclass " + std::to_string(f) + ")", w.sclasses[f], o.sclasses[f])) same = false;
        }
    emit(user_line("dataset", "flatten+targets+select", T, reps, same));
    ++g_scenarios;
}

ml::params_t make_fit_params(const std::string& splitter_id, int64_t folds, int64_t split_seed, const std::string& tuner_id, int64_t tuner_evals,
                             const std::string& solver_id, double epsilon, int64_t max_evals)
{
    auto splitter = splitter_t::all().get(splitter_id);
    splitter->parameter("splitter::folds") = folds;
    splitter->parameter("splitter::seed")  = split_seed;
    auto tuner = tuner_t::all().get(tuner_id);
    tuner->parameter("tuner::max_evals") = tuner_evals;
    auto solver = solver_t::all().get(solver_id);
    solver->parameter("solver::max_evals") = max_evals;
    solver->parameter("solver::epsilon")   = epsilon;
    return ml::params_t{}.splitter(*splitter).tuner(*tuner).solver(*solver).logger(make_null_logger());
}

rwlearners_t make_prototypes(const std::vector<std::string>& ids)
{
    rwlearners_t protos;
    for (const auto& id : ids) protos.emplace_back(wlearner_t::all().get(id));
    return protos;
}

void user_predict(const uint64_t seed, const long scenario, const bool gboost)
{
    vh::rng_t  rng(mix(seed ^ 0x200D200DULL, static_cast<uint64_t>(scenario)));
    const int  T     = static_cast<int>(rng.range(2, 16));
    const int  reps  = static_cast<int>(rng.range(1, 3));
    const auto delay = static_cast<int>(rng.range(0, 2));
    const auto P     = static_cast<size_t>(rng.range(2, 16));
    const auto src   = make_regression_source(rng, static_cast<tensor_size_t>(rng.range(60, 120)), static_cast<size_t>(rng.range(2, 5)), gboost ? 1U : 0U, 0.05);
    const auto       pdataset = make_dataset(src, P);
    const dataset_t& dataset  = *pdataset;
    const auto       loss     = loss_t::all().get("mse");
    const auto       all      = arange(0, src.n);
    const auto       params   = make_fit_params("k-fold", 2, 7, "local-search", 10, "lbfgs", 1e-8, 300);
    std::string      what;
    std::unique_ptr<linear_t>       linear;
    std::unique_ptr<gboost_model_t> booster;
    const learner_t*                model = nullptr; // the shared fitted model
    const auto ctx = seedctx("user", scenario) + " kind=predict model=" + (gboost ? "gboost(stump+affine+dense-table,10 rounds)" : "linear(ordinary)") + " pool=" + std::to_string(P) + " " +
                     src.desc + " threads=" + std::to_string(T) + " reps=" + std::to_string(reps) + " delay=" + std::to_string(delay);
    try
    {
        if (gboost)
        {
            booster = std::make_unique<gboost_model_t>();
            booster->parameter("gboost::max_rounds") = 10;
            booster->parameter("gboost::batch")      = 16;
            booster->prototypes(make_prototypes({"stump", "affine", "dense-table"}));
            booster->fit(dataset, all, *loss, params);
            model = booster.get();
            what  = "gboost";
        }
        else
        {
            linear = linear_t::all().get("ordinary");
            linear->parameter("linear::batch") = 16;
            linear->fit(dataset, all, *loss, params);
            model = linear.get();
            what  = "linear-ordinary";
        }
    }
    catch (const std::exception& e)
    {
        fail("user", std::string("fitting the shared model throws: ") + e.what(), ctx);
        return;
    }
    const auto subsets = make_subsets(rng, src.n, T);
    struct out_t { vec_t outputs; std::string exc; };
    const auto compute = [&](const indices_t& samples)
    {
        out_t o;
        try
        {
            const auto out = model->predict(dataset, samples);
            o.outputs.assign(out.data(), out.data() + out.size());
        }
        catch (const std::exception& e) { o.exc = e.what(); }
        return o;
    };
    std::vector<out_t> ref;
    for (int i = 0; i < T; ++i) ref.push_back(compute(subsets[static_cast<size_t>(i)]));
    std::vector<std::vector<out_t>> got(static_cast<size_t>(T), std::vector<out_t>(static_cast<size_t>(reps)));
    g_delay_level.store(delay);
    g_sched_seed.store(rng.next());
    run_threads(T, reps, [&](int i, int r) { got[static_cast<size_t>(i)][static_cast<size_t>(r)] = compute(subsets[static_cast<size_t>(i)]); });
    g_delay_level.store(0);
    bool same = true;
    for (int i = 0; i < T; ++i)
        for (int r = 0; r < reps; ++r)
        {
            const auto& w = ref[static_cast<size_t>(i)];
            const auto& o = got[static_cast<size_t>(i)][static_cast<size_t>(r)];
            if (w.exc != o.exc) { same = false; fail("user", diff_text(i, r, "exception", "`" + w.exc + "`", "`" + o.exc + "`"), ctx); continue; }
            if (!cmp_vec("user", ctx, i, r, "predict", w.outputs, o.outputs)) same = false;
        }
    emit(user_line("predict", what, T, reps, same));
    ++g_scenarios;
}

// ------------------------------------------------------------------------------------------------------------------
// (3) TUNE: nano::ml::tune driven directly with a deterministic callback; tune pools of 1, 2 and 16 workers
// ------------------------------------------------------------------------------------------------------------------
struct textra_t
{
    int64_t uid{-1};
    int64_t fold{-1};
};

struct tcall_t
{
    vec_t    params;
    int64_t  fold{-1}, uid{-1}, batch{-1};
    bool     has_closest{false};
    int64_t  cuid{-1}, cfold{-1};
    int      tid{-1};
    uint64_t t0{0}, t1{0};
    int64_t  trial{-1}; // decoded afterwards
};

struct tune_out_t
{
    std::string exc;
    int64_t     trials{0}, folds{0}, optimum{-1};
    vec_t       params, means;
};

std::atomic<const void*> g_tune_queue{nullptr};

void on_event_tune(int kind, const void* object, uint64_t a, uint64_t)
{
    if (!g_tune_on.load(std::memory_order_acquire)) return;
    if (kind == verif::ev_push_all || kind == verif::ev_map_inline)
    {
        // the first pool that maps while a TUNE scenario runs is ml::tune's own pool (the callback uses no pool)
        const void* expected = nullptr;
        g_tune_queue.compare_exchange_strong(expected, object);
        if (g_tune_queue.load() != object) return;
        const auto k = g_tune_batches.fetch_add(1);
        if (k >= 0 && static_cast<size_t>(k) < max_batches) g_tune_batch_tasks[static_cast<size_t>(k)].store(a);
    }
}

void fill_values(tensor2d_t& out, const tensor_size_t n, const int64_t Merr, const int64_t Mloss)
{
    // per-sample values whose mean is exactly M/1024: m + delta_i with sum(delta) = 0, all multiples of 1/1024
    out.resize(2, n);
    for (int row = 0; row < 2; ++row)
    {
        const auto m = static_cast<double>(row == 0 ? Merr : Mloss) / 1024.0;
        for (tensor_size_t i = 0; i < n; ++i)
        {
            double delta = 0.0;
            if (i + 1 < n || n % 2 == 0) delta = ((i % 2 == 0) ? 1.0 : -1.0) * static_cast<double>(1 + (i / 2) % 5) / 1024.0;
            out(row, i) = m + delta;
        }
    }
}

void run_tune(const uint64_t seed, const long scenario)
{
    vh::rng_t  rng(mix(seed ^ 0x300E300EULL, static_cast<uint64_t>(scenario)));
    const auto dims      = static_cast<size_t>(rng.range(0, 7) == 0 ? 0 : rng.range(1, 2));
    const auto folds     = static_cast<int64_t>(rng.range(2, 6));
    const auto nsamples  = static_cast<tensor_size_t>(rng.range(std::max<int64_t>(2 * folds, 12), 60));
    const bool surrogate = rng.range(0, 3) == 0;
    const auto max_evals = static_cast<int64_t>(rng.range(10, 20)); // domain of tuner::max_evals: [10, 1000]
    const bool rsplit    = rng.range(0, 3) == 0;
    const auto splitseed = static_cast<int64_t>(rng.range(0, 1024));
    const auto delay     = static_cast<int>(rng.range(0, 2));
    const auto sseed     = rng.next();
    const auto nseed     = rng.next();

    // grids (log10 or linear), centre of the landscape
    std::vector<vec_t> grid(dims);
    std::vector<int>   glog(dims);
    vec_t              centre(dims);
    for (size_t i = 0; i < dims; ++i)
    {
        glog[i]      = rng.range(0, 1) != 0;
        const auto k = static_cast<int>(rng.range(4, 9));
        for (int j = 0; j < k; ++j) grid[i].push_back(glog[i] ? std::pow(10.0, j - k / 2) : static_cast<double>(j) * 0.25);
        centre[i] = static_cast<double>(rng.range(0, k - 1));
    }
    const auto spaces = [&]()
    {
        param_spaces_t sp;
        for (size_t i = 0; i < dims; ++i)
        {
            tensor1d_t v(static_cast<tensor_size_t>(grid[i].size()));
            for (size_t k = 0; k < grid[i].size(); ++k) v(static_cast<tensor_size_t>(k)) = grid[i][k];
            sp.emplace_back("p" + std::to_string(i), glog[i] ? param_space_t::type::log10 : param_space_t::type::linear, v);
        }
        return sp;
    };
    const auto gindex = [&](size_t i, double v) -> int64_t
    {
        for (size_t k = 0; k < grid[i].size(); ++k)
            if (grid[i][k] == v) return static_cast<int64_t>(k);
        return -1;
    };
    // exact dyadic landscape: a bowl around `centre` + a fold-dependent offset; which: 0 valid errors, 1 valid losses, 2 train errors, 3 train losses
    const auto Mval = [&](const vec_t& p, const int64_t fold, const int which) -> int64_t
    {
        int64_t b = 0, h = 0;
        for (size_t i = 0; i < p.size() && i < dims; ++i)
        {
            const auto g = gindex(i, p[i]);
            const auto d = static_cast<int64_t>(g) - static_cast<int64_t>(centre[i]);
            b += 8 * d * d;
            h = h * 31 + g + 1;
        }
        const auto n = static_cast<int64_t>(mix(nseed, static_cast<uint64_t>(h * 64 + fold)) % 7);
        switch (which)
        {
        case 0: return 16 + b + n;
        case 1: return 10000 + ((b * 7 + n * 3) % 4099);
        case 2: return 30000 - (b + n);
        default: return 50000 - ((b * 5 + n) % 4099);
        }
    };

    indices_t samples(nsamples);
    {
        int64_t x = rng.range(0, 5);
        for (tensor_size_t i = 0; i < nsamples; ++i) { samples(i) = x; x += rng.range(1, 3); }
    }
    auto fit_params = make_fit_params(rsplit ? "random" : "k-fold", folds, splitseed, surrogate ? "surrogate" : "local-search", max_evals, "lbfgs", 1e-8, 100);
    const auto splits = fit_params.splitter().split(samples);
    const auto ctx    = seedctx("tune", scenario) + " dims=" + std::to_string(dims) + " folds=" + std::to_string(folds) + " samples=" + std::to_string(nsamples) +
                     " tuner=" + (surrogate ? "surrogate" : "local-search") + " max_evals=" + std::to_string(max_evals) + " splitter=" + (rsplit ? "random" : "k-fold") +
                     ":" + std::to_string(splitseed) + " delay=" + std::to_string(delay);
    if (static_cast<int64_t>(splits.size()) != folds) return;
    for (size_t a = 0; a < splits.size(); ++a)
        for (size_t b = a + 1; b < splits.size(); ++b)
            if (splits[a].first == splits[b].first && splits[a].second == splits[b].second) return; // folds must be identifiable

    std::vector<tune_out_t> outs;
    static const size_t     pools[] = {1, 2, 16};
    for (const auto P : pools)
    {
        std::mutex           mutex;
        std::vector<tcall_t> calls;
        std::atomic<int64_t> next_uid{0};

        const ml::tune_callback_t callback = [&](const indices_t& tr, const indices_t& vd, tensor1d_cmap_t params, const std::any& closest, const logger_t&)
        {
            tcall_t c;
            c.t0    = stamp();
            c.tid   = my_tid();
            c.uid   = next_uid.fetch_add(1);
            c.batch = g_tune_batches.load() - 1;
            c.params.assign(params.data(), params.data() + params.size());
            for (size_t f = 0; f < splits.size(); ++f)
                if (splits[f].first == tr && splits[f].second == vd) c.fold = static_cast<int64_t>(f);
            c.has_closest = closest.has_value();
            if (c.has_closest)
                if (const auto* e = std::any_cast<textra_t>(&closest); e != nullptr) { c.cuid = e->uid; c.cfold = e->fold; }
            int64_t h = 0;
            for (const auto v : c.params) { uint64_t bits = 0; std::memcpy(&bits, &v, sizeof(bits)); h = static_cast<int64_t>(mix(static_cast<uint64_t>(h), bits)); }
            const auto z = mix(sseed, static_cast<uint64_t>(h) * 64U + static_cast<uint64_t>(std::max<int64_t>(c.fold, 0)));
            if (delay > 0) busy_us(static_cast<int>(z % (delay == 1 ? 40U : 200U)));
            tensor2d_t trv, vdv;
            const auto fold = std::max<int64_t>(c.fold, 0);
            fill_values(trv, tr.size(), Mval(c.params, fold, 2), Mval(c.params, fold, 3));
            fill_values(vdv, vd.size(), Mval(c.params, fold, 0), Mval(c.params, fold, 1));
            textra_t extra{c.uid, c.fold};
            c.t1 = stamp();
            {
                const std::scoped_lock lock(mutex);
                calls.push_back(c);
            }
            return std::make_tuple(std::move(trv), std::move(vdv), std::any{extra});
        };

        verif::g_max_threads.store(P);
        g_tune_batches.store(0);
        g_tune_queue.store(nullptr);
        g_delay_level.store(delay);
        g_sched_seed.store(sseed + P);
        g_tune_on.store(true, std::memory_order_release);
        ml::result_t result;
        tune_out_t   out;
        try
        {
            result = ml::tune("c18", samples, fit_params, spaces(), callback);
        }
        catch (const std::exception& e)
        {
            out.exc = e.what();
        }
        g_tune_on.store(false, std::memory_order_release);
        g_delay_level.store(0);
        verif::g_max_threads.store(16U);
        const auto pctx = ctx + " pool=" + std::to_string(P);

        const auto nb = std::min<int64_t>(g_tune_batches.load(), static_cast<int64_t>(max_batches));
        if (!out.exc.empty())
        {
            // (a surrogate that cannot be fitted throws: legitimate as long as every pool size does the same)
            outs.push_back(out);
            continue;
        }
        out.trials  = result.trials();
        out.folds   = result.folds();
        out.optimum = result.optimum_trial();
        if (out.folds != folds) fail("tune", "result has " + std::to_string(out.folds) + " folds", pctx);
        for (tensor_size_t t = 0; t < result.trials(); ++t)
        {
            const auto p = result.params(t);
            out.params.insert(out.params.end(), p.data(), p.data() + p.size());
            for (tensor_size_t f = 0; f < result.folds(); ++f)
                for (const auto split : {ml::split_type::train, ml::split_type::valid})
                    for (const auto value : {ml::value_type::errors, ml::value_type::losses}) out.means.push_back(result.stats(t, f, split, value).m_mean);
        }

        // decode: batch k covers the trials [old_k, old_k + new_k)
        std::vector<int64_t> olds, news;
        int64_t              old = 0;
        for (int64_t k = 0; k < nb; ++k)
        {
            const auto a = static_cast<int64_t>(g_tune_batch_tasks[static_cast<size_t>(k)].load());
            if (a % folds != 0) fail("tune", "batch " + std::to_string(k) + " maps " + std::to_string(a) + " tasks: not a multiple of the number of folds", pctx);
            olds.push_back(old);
            news.push_back(a / folds);
            old += a / folds;
        }
        if (old != out.trials) fail("tune", "the batches cover " + std::to_string(old) + " trials, the result has " + std::to_string(out.trials), pctx);
        std::map<std::pair<int64_t, int64_t>, int64_t> owner;  // (trial, fold) -> uid of the computing task
        std::map<int64_t, std::pair<int64_t, int64_t>> where;  // uid -> (trial, fold)
        std::sort(calls.begin(), calls.end(), [](const tcall_t& a, const tcall_t& b) { return a.uid < b.uid; });
        for (auto& c : calls)
        {
            if (c.fold < 0) { fail("tune", "a task was given a (train, validation) split that is not one of the folds", pctx); continue; }
            if (c.batch < 0 || c.batch >= nb) { fail("tune", "a task ran outside any batch (batch " + std::to_string(c.batch) + ")", pctx); continue; }
            const auto o = olds[static_cast<size_t>(c.batch)], n = news[static_cast<size_t>(c.batch)];
            for (int64_t t = o; t < o + n && t < out.trials && c.trial < 0; ++t)
            {
                const auto p = result.params(t);
                if (p.size() == static_cast<tensor_size_t>(c.params.size()) && std::equal(c.params.begin(), c.params.end(), p.data(), same_val) &&
                    owner.find({t, c.fold}) == owner.end())
                    c.trial = t;
            }
            if (c.trial < 0)
            {
                fail("tune", "task uid=" + std::to_string(c.uid) + " fold=" + std::to_string(c.fold) + " of batch " + std::to_string(c.batch) +
                                 " evaluates parameters that are no free trial of its batch (computed twice, or outside the batch)", pctx);
                continue;
            }
            owner[{c.trial, c.fold}] = c.uid;
            where[c.uid]             = {c.trial, c.fold};
        }
        std::string table;
        for (int64_t t = 0; t < out.trials; ++t)
            for (int64_t f = 0; f < folds; ++f)
            {
                const auto  it = owner.find({t, f});
                const auto* e  = std::any_cast<textra_t>(&result.extra(t, f));
                const auto  rb = e != nullptr ? e->uid : -1;
                const auto  ex = it != owner.end() ? it->second : -2;
                if (it == owner.end()) fail("tune", "(trial " + std::to_string(t) + ", fold " + std::to_string(f) + ") was never computed", pctx);
                else if (rb != ex)
                    fail("tune", "extra(trial " + std::to_string(t) + ", fold " + std::to_string(f) + ") holds the model of task uid=" + std::to_string(rb) +
                                     ", the task that computed it is uid=" + std::to_string(ex), pctx);
                table += (table.empty() ? "" : " ") + std::to_string(ex) + "=" + std::to_string(rb);
                // the stored statistics are the callback's
                if (it != owner.end())
                {
                    const vec_t p(out.params.begin() + static_cast<std::ptrdiff_t>(t * static_cast<int64_t>(dims)),
                                  out.params.begin() + static_cast<std::ptrdiff_t>((t + 1) * static_cast<int64_t>(dims)));
                    const double want[4] = {static_cast<double>(Mval(p, f, 2)) / 1024.0, static_cast<double>(Mval(p, f, 3)) / 1024.0,
                                            static_cast<double>(Mval(p, f, 0)) / 1024.0, static_cast<double>(Mval(p, f, 1)) / 1024.0};
                    for (int q = 0; q < 4; ++q)
                    {
                        const auto got = out.means[static_cast<size_t>((t * folds + f) * 4 + q)];
                        if (!same_val(got, want[q]))
                            fail("tune", "stored mean #" + std::to_string(q) + " of (trial " + std::to_string(t) + ", fold " + std::to_string(f) + ") is " + vh::hexf(got) +
                                             ", the callback returned values with mean " + vh::hexf(want[q]), pctx);
                    }
                }
            }
        // warm start: empty in the first batch, otherwise the model of result.closest_trial(params, old_trials) and the same fold
        for (const auto& c : calls)
        {
            if (c.trial < 0) continue;
            const auto o = olds[static_cast<size_t>(c.batch)];
            if (o == 0)
            {
                if (c.has_closest) fail("tune", "a task of the first batch received a warm-start model (uid " + std::to_string(c.cuid) + ")", pctx);
                continue;
            }
            const auto want = result.closest_trial(result.params(c.trial), o);
            const auto it   = where.find(c.cuid);
            if (!c.has_closest || it == where.end())
                fail("tune", "task (trial " + std::to_string(c.trial) + ", fold " + std::to_string(c.fold) + ") received no / an unknown warm-start model although " +
                                 std::to_string(o) + " earlier trials exist", pctx);
            else if (it->second.first != want || it->second.second != c.fold || c.cfold != c.fold)
                fail("tune", "task (trial " + std::to_string(c.trial) + ", fold " + std::to_string(c.fold) + ") received the model of (trial " + std::to_string(it->second.first) +
                                 ", fold " + std::to_string(it->second.second) + "), expected (trial " + std::to_string(want) + ", fold " + std::to_string(c.fold) + ")", pctx);
        }
        for (int64_t k = 0; k < nb; ++k)
        {
            std::string tasks;
            for (const auto& c : calls)
            {
                if (c.batch != k || c.trial < 0) continue;
                const auto it = where.find(c.cuid);
                const auto ct = (c.has_closest && it != where.end()) ? it->second.first : -1;
                const auto cf = (c.has_closest && it != where.end()) ? it->second.second : -1;
                tasks += (tasks.empty() ? "" : " ") + std::to_string(c.trial) + ":" + std::to_string(c.fold) + ":" + std::to_string(ct) + ":" + std::to_string(cf) + ":" +
                         std::to_string(c.tid) + ":" + std::to_string(c.t0) + ":" + std::to_string(c.t1);
            }
            emit("TUNEB " + std::to_string(g_tunes) + " pool=" + std::to_string(P) + " batch=" + std::to_string(k) + " old=" + std::to_string(olds[static_cast<size_t>(k)]) +
                 " new=" + std::to_string(news[static_cast<size_t>(k)]) + " folds=" + std::to_string(folds) + " | " + tasks);
        }
        emit("TUNET " + std::to_string(g_tunes++) + " pool=" + std::to_string(P) + " folds=" + std::to_string(folds) + " trials=" + std::to_string(out.trials) + " | " + table);
        outs.push_back(out);
    }
    // schedule independence: the tuning is bit-identical whatever the size of the pool
    for (size_t k = 1; k < outs.size(); ++k)
    {
        const auto &a = outs[0], &b = outs[k];
        const auto kctx = ctx + " pool=" + std::to_string(pools[k]) + " vs pool=1";
        if (a.exc != b.exc) { fail("tune", "exception `" + b.exc + "` vs `" + a.exc + "`", kctx); continue; }
        if (a.trials != b.trials) fail("tune", "number of trials " + std::to_string(b.trials) + " vs " + std::to_string(a.trials), kctx);
        if (a.optimum != b.optimum) fail("tune", "optimum trial " + std::to_string(b.optimum) + " vs " + std::to_string(a.optimum), kctx);
        cmp_vec("tune", kctx, 0, 0, "params", a.params, b.params);
        cmp_vec("tune", kctx, 0, 0, "mean statistics", a.means, b.means);
    }
    ++g_scenarios;
}

// ------------------------------------------------------------------------------------------------------------------
// (4) FIT: full fit() of linear / gboost models with pools of 1, 2, 4 and 16 workers
// ------------------------------------------------------------------------------------------------------------------
struct fit_cfg_t
{
    int         kind{0}; // 0..3 linear (ordinary, lasso, ridge, elastic_net), 4 gboost
    std::string model, solver, tuner, splitter;
    int64_t     folds{2}, splitseed{0}, tuner_evals{8}, max_evals{500}, batch{16};
    double      epsilon{1e-10};
    std::string scaling;
    std::vector<std::string> wlearners;
    std::string subsample, shrinkage, wscale;
    int64_t     gseed{42}, rounds{10};
    double      ratio{1.0};
};

struct fit_out_t
{
    std::string                exc;
    vec_t                      pred;
    std::vector<tensor_size_t> features;
    size_t                     nwlearners{0};
    std::string                wdesc; // the merged weak learners: type:features ...
    int64_t                    trials{0}, optimum{-1};
    vec_t                      optparams, trial_params;
    double                     optvalue{0}; // mean validation error of the optimum trial
};

void store_tuning(fit_out_t& o, const ml::result_t& result)
{
    o.trials  = result.trials();
    o.optimum = result.optimum_trial();
    const auto p = result.params(result.optimum_trial());
    o.optparams.assign(p.data(), p.data() + p.size());
    for (tensor_size_t t = 0; t < result.trials(); ++t)
    {
        const auto q = result.params(t);
        o.trial_params.insert(o.trial_params.end(), q.data(), q.data() + q.size());
    }
    o.optvalue = result.value(result.optimum_trial());
}

// dataset_threads: size of the dataset's pool (iterators, objective functions, weak learners); threads: pool_t::max_size()
// while fitting = size of the pool ml::tune creates itself (0: same as dataset_threads)
fit_out_t do_fit(const src_t& src, const fit_cfg_t& cfg, const size_t dataset_threads, size_t threads = 0)
{
    fit_out_t o;
    if (threads == 0) threads = dataset_threads;
    verif::g_max_threads.store(dataset_threads);
    try
    {
        const auto dataset = make_dataset(src, 0); // default pool = pool_t::max_size()
        if (dataset->concurrency() != dataset_threads) o.exc = "dataset pool of " + std::to_string(dataset->concurrency()) + " workers";
        verif::g_max_threads.store(threads);
        const auto loss   = loss_t::all().get("mse");
        const auto all    = arange(0, src.n);
        const auto params = make_fit_params(cfg.splitter, cfg.folds, cfg.splitseed, cfg.tuner, cfg.tuner_evals, cfg.solver, cfg.epsilon, cfg.max_evals);
        if (cfg.kind < 4)
        {
            auto model = linear_t::all().get(cfg.model);
            model->parameter("linear::batch")   = cfg.batch;
            model->parameter("linear::scaling") = cfg.scaling;
            const auto result = model->fit(*dataset, all, *loss, params);
            store_tuning(o, result);
            const auto out = model->predict(*dataset, all);
            o.pred.assign(out.data(), out.data() + out.size());
        }
        else
        {
            auto model = gboost_model_t{};
            model.parameter("gboost::max_rounds")      = cfg.rounds;
            model.parameter("gboost::batch")           = cfg.batch;
            model.parameter("gboost::seed")            = cfg.gseed;
            model.parameter("gboost::subsample")       = cfg.subsample;
            model.parameter("gboost::shrinkage")       = cfg.shrinkage;
            model.parameter("gboost::wscale")          = cfg.wscale;
            model.parameter("gboost::subsample_ratio") = cfg.ratio;
            model.prototypes(make_prototypes(cfg.wlearners));
            const auto result = model.fit(*dataset, all, *loss, params);
            store_tuning(o, result);
            const auto f = model.features();
            o.features.assign(f.data(), f.data() + f.size());
            o.nwlearners = model.wlearners().size();
            for (const auto& wl : model.wlearners()) o.wdesc += (o.wdesc.empty() ? "" : ",") + wl->type_id() + ":" + il(wl->features());
            const auto out = model.predict(*dataset, all);
            o.pred.assign(out.data(), out.data() + out.size());
        }
    }
    catch (const std::exception& e)
    {
        o.exc = std::string("exception: ") + e.what();
    }
    verif::g_max_threads.store(16U);
    return o;
}

std::string cfg_text(const fit_cfg_t& c)
{
    std::string s = "model=" + c.model + " solver=" + c.solver + " epsilon=" + vh::hexf(c.epsilon) + " max_evals=" + std::to_string(c.max_evals) + " tuner=" + c.tuner + ":" +
                    std::to_string(c.tuner_evals) + " splitter=" + c.splitter + ":" + std::to_string(c.folds) + ":" + std::to_string(c.splitseed) + " batch=" + std::to_string(c.batch);
    if (c.kind < 4) return s + " scaling=" + c.scaling;
    s += " wlearners=";
    for (size_t i = 0; i < c.wlearners.size(); ++i) s += (i ? "+" : "") + c.wlearners[i];
    return s + " rounds=" + std::to_string(c.rounds) + " subsample=" + c.subsample + ":" + vh::hexf(c.ratio) + ":" + std::to_string(c.gseed) + " shrinkage=" + c.shrinkage +
           " wscale=" + c.wscale;
}

void run_fit(const uint64_t seed, const long scenario, const bool thorough, const bool reduced)
{
    vh::rng_t rng(mix(seed ^ 0x400F400FULL, static_cast<uint64_t>(scenario)));
    fit_cfg_t cfg;
    // linear models on even scenarios (the L1-regularised ones are expensive to fit accurately: one in four), gboost on odd ones
    static const int lkinds[] = {0, 2, 0, 2, 0, 2, 1, 3};
    cfg.kind      = static_cast<int>(scenario % 2 == 0 ? lkinds[rng.range(0, 7)] : 4);
    if (reduced && (cfg.kind == 1 || cfg.kind == 3)) --cfg.kind; // reduced set (ThreadSanitizer run of the quick tier): no L1 fits (minutes under TSan)
    cfg.folds     = rng.range(2, 3);
    cfg.splitseed = rng.range(0, 1024);
    cfg.splitter  = rng.range(0, 3) == 0 ? "random" : "k-fold";
    cfg.tuner     = rng.range(0, 2) == 0 ? "surrogate" : "local-search";
    cfg.tuner_evals = rng.range(10, 14);
    cfg.batch     = rng.range(10, 40);
    cfg.solver    = "lbfgs";
    const auto delay = static_cast<int>(rng.range(0, 2));
    const bool l1    = cfg.kind == 1 || cfg.kind == 3;
    const auto n     = static_cast<tensor_size_t>(l1 ? rng.range(60, 100) : rng.range(80, 200));
    const auto nsc   = static_cast<size_t>(l1 ? rng.range(2, 3) : rng.range(2, 6));
    if (cfg.kind < 4)
    {
        static const char* const models[] = {"ordinary", "lasso", "ridge", "elastic_net"};
        static const char* const scal[]   = {"none", "mean", "minmax", "standard"};
        cfg.model   = models[cfg.kind];
        cfg.scaling = scal[rng.range(0, 3)];
        // L1 terms make the objective non-smooth. The fit must be solved ACCURATELY for the comparison across pool sizes to be
        // meaningful: a solver that stops far from the optimum amplifies the ulp-level re-association noise of the per-thread
        // accumulators (measured: ellipsoid 2^-5 .. 2^-16, OSGA with 600 evaluations validation errors differing by 1e-4;
        // with the dataset pool of one worker all of them are bit-identical, so none of this is a race). The bundle method RQB
        // reaches 2^-22 .. 2^-29 but costs seconds per fit: small problems only. Smooth objectives: quasi-newton.
        cfg.solver    = l1 ? "rqb" : (rng.range(0, 1) ? "lbfgs" : "bfgs");
        cfg.epsilon   = 1e-10;
        cfg.max_evals = l1 ? 1500 : 1000;
        if (l1) cfg.tuner_evals = 10;
    }
    else
    {
        cfg.model = "gboost";
        static const std::vector<std::vector<std::string>> wpools = {{"stump"}, {"affine"}, {"stump", "affine"}, {"stump", "affine", "dense-table"},
                                                                     {"hinge", "dstep-table"}, {"dtree"}, {"stump", "hinge", "kbest-table", "ksplit-table"}};
        cfg.wlearners = wpools[static_cast<size_t>(rng.range(0, static_cast<int64_t>(wpools.size()) - 1))];
        static const char* const subs[] = {"off", "subsample", "bootstrap", "wei_loss_bootstrap", "wei_grad_bootstrap"};
        cfg.subsample = subs[rng.range(0, 4)];
        cfg.ratio     = cfg.subsample == std::string("off") ? 1.0 : 0.5 + 0.5 * rng.unit();
        cfg.gseed     = rng.range(0, 1024);
        cfg.shrinkage = rng.range(0, 2) == 0 ? "global" : (rng.range(0, 1) ? "local" : "off");
        cfg.wscale    = rng.range(0, 2) == 0 ? "tboost" : "gboost";
        cfg.rounds    = 10;
        cfg.epsilon   = 1e-10;
        cfg.max_evals = 300;
    }
    const auto src = make_regression_source(rng, n, nsc, cfg.kind < 4 ? static_cast<size_t>(rng.range(0, 1)) : static_cast<size_t>(rng.range(1, 2)), cfg.kind < 4 ? 0.05 : 0.2);
    const auto ctx = seedctx("fit", scenario) + " " + cfg_text(cfg) + " " + src.desc + " delay=" + std::to_string(delay);

    g_delay_level.store(delay);
    g_sched_seed.store(rng.next());
    const auto ref = do_fit(src, cfg, 1);
    double     rms = 0.0;
    for (const auto v : ref.pred) rms += v * v;
    rms = ref.pred.empty() ? 0.0 : std::sqrt(rms / static_cast<double>(ref.pred.size()));

    const auto compare = [&](const fit_out_t& o, const size_t threads, const std::string& extra, const bool bitwise = false)
    {
        const auto tctx = ctx + " threads=" + std::to_string(threads) + extra;
        bool       same = true;
        double     maxrel = 0.0;
        // Two kinds of differences are recorded as CANDIDATE findings (CAND lines) instead of failures, see notes/C18.md:
        //  - decision trees deeper than one level split small nodes, where several (feature, threshold) pairs induce the same
        //    partition and have EXACTLY the same score: which one is kept depends on which worker evaluated which feature
        //    (C18_fit_select_tie_refuted, notes/C10.md F4);
        //  - two look-up-table weak learners in one pool (kbest / ksplit / dense / dstep) fit the SAME table on a categorical
        //    feature whenever the full table is the best one: mathematically equal scores computed along different paths, so
        //    the ulp-level re-association noise of the per-thread accumulators decides which prototype wins, and the boosting
        //    rounds diverge from there.
        // Neither applies to the dataset_pool=1 runs (no re-association, no concurrent feature evaluation): those must be bit-identical.
        const auto ntables = std::count_if(cfg.wlearners.begin(), cfg.wlearners.end(), [](const std::string& w) { return w.find("-table") != std::string::npos; });
        const bool dtree   = std::find(cfg.wlearners.begin(), cfg.wlearners.end(), "dtree") != cfg.wlearners.end();
        //  - any other gboost configuration, rarely (about 1 scenario in 100; e.g. seed 20260926 thorough fit:49, stumps on a uniform
        //    subsample): the greedy, discrete choices of boosting (feature / threshold / early-stopping round / local shrinkage)
        //    amplify the ulp-level noise in the same way; recorded as `fit-gboost-flip`.
        // A different exception, and every difference of a LINEAR model (continuous in its inputs), is always a failure.
        const bool has_dtree = cfg.kind == 4 && !bitwise; // "tie prone"
        const auto report    = [&](const std::string& what, const std::string& c)
        {
            if (has_dtree) cand(dtree ? "fit-dtree-tie" : (ntables >= 2 ? "fit-table-tie" : "fit-gboost-flip"), what, c);
            else fail("fit", what, c);
        };
        if (o.exc != ref.exc) { same = false; fail("fit", "`" + o.exc + "` with " + std::to_string(threads) + " threads, `" + ref.exc + "` with one", tctx); }
        else
        {
            // hyper-parameter tuning is an argmin over trials: when two trials have validation errors within rounding of each
            // other (flat regularisation paths) the re-association noise of the per-thread accumulators may legitimately select
            // another one. Then the two fits are only comparable through the quality of what they selected.
            const bool tuning_same = o.trials == ref.trials && o.optimum == ref.optimum && first_diff(o.trial_params, ref.trial_params) == -1;
            if (!tuning_same && !bitwise)
            {
                const auto dv = std::fabs(o.optvalue - ref.optvalue) / std::max({std::fabs(o.optvalue), std::fabs(ref.optvalue), 1e-12});
                if (!(dv <= 1e-5))
                    report("tuning differs (trials " + std::to_string(o.trials) + " optimum " + std::to_string(o.optimum) + " with " + std::to_string(threads) +
                               " threads, trials " + std::to_string(ref.trials) + " optimum " + std::to_string(ref.optimum) + " with one) and the validation error of the selected trial is " +
                               vh::hexf(o.optvalue) + " instead of " + vh::hexf(ref.optvalue) + " (not a near-tie: relative difference " + vh::hexf(dv) + " > 1e-5)", tctx);
                emit("FIT " + std::to_string(g_fits++) + " model=" + cfg.model + " threads=" + std::to_string(threads) + " n=" + std::to_string(src.n) + " features=" +
                     il(mk_indices(o.features)) + " maxrel=" + vh::hexf(dv) + " result=" + (dv <= 1e-5 ? "tieflip" : (has_dtree ? "cand" : "diff")) + extra);
                return;
            }
            if (o.features != ref.features)
            {
                same = false;
                report("selected features " + il(mk_indices(o.features)) + " with " + std::to_string(threads) + " threads, " + il(mk_indices(ref.features)) + " with one", tctx);
            }
            if (o.nwlearners != ref.nwlearners)
            {
                same = false;
                report(std::to_string(o.nwlearners) + " weak learners with " + std::to_string(threads) + " threads, " + std::to_string(ref.nwlearners) + " with one", tctx);
            }
            if (!tuning_same)
            {
                same = false;
                report("tuning differs: trials " + std::to_string(o.trials) + " optimum " + std::to_string(o.optimum) + " with " + std::to_string(threads) +
                           " threads, trials " + std::to_string(ref.trials) + " optimum " + std::to_string(ref.optimum) + " with one", tctx);
            }
            if (o.pred.size() != ref.pred.size()) { same = false; report("number of predictions differs", tctx); }
            else
            {
                int64_t worst = -1;
                for (size_t i = 0; i < o.pred.size(); ++i)
                {
                    const auto a = o.pred[i], b = ref.pred[i];
                    const auto d = std::fabs(a - b) / std::max({std::fabs(a), std::fabs(b), rms, 1e-300});
                    if (!(d <= maxrel)) { maxrel = d; worst = static_cast<int64_t>(i); }
                }
                if (bitwise ? first_diff(o.pred, ref.pred) != -1 : !(maxrel <= 1e-5))
                {
                    same = false;
                    if (bitwise) worst = first_diff(o.pred, ref.pred);
                    report("prediction of sample " + std::to_string(worst) + " is " + vh::hexf(o.pred[static_cast<size_t>(worst)]) + " with " + std::to_string(threads) +
                                    " threads and " + vh::hexf(ref.pred[static_cast<size_t>(worst)]) + " with one (relative difference " + vh::hexf(maxrel) + (bitwise ? ", must be bit-identical: all reductions are sequential)" : " > 1e-5)"), tctx);
                }
            }
        }
        emit("FIT " + std::to_string(g_fits++) + " model=" + cfg.model + " threads=" + std::to_string(threads) + " n=" + std::to_string(src.n) + " features=" +
             il(mk_indices(o.features)) + " maxrel=" + vh::hexf(maxrel) + " result=" + (same ? "same" : (has_dtree ? "cand" : "diff")) + extra +
             (same ? std::string() : " wlearners=" + o.wdesc + " ref_wlearners=" + ref.wdesc));
    };
    emit("FIT " + std::to_string(g_fits++) + " model=" + cfg.model + " threads=1 n=" + std::to_string(src.n) + " features=" + il(mk_indices(ref.features)) +
         " maxrel=" + vh::hexf(0.0) + " result=same");
    for (const size_t threads : {size_t(2), size_t(4), size_t(16)})
    {
        // dataset pool of ONE worker (every reduction sequential), fold/trial tasks on `threads` workers sharing the solver, the
        // loss and the dataset: nothing is re-associated, the fit must be BIT-IDENTICAL to the one-thread fit (also with dtree)
        compare(do_fit(src, cfg, 1, threads), threads, " dataset_pool=1", true);
        // dataset pool and tune pool of `threads` workers: up to re-association
        compare(do_fit(src, cfg, threads), threads, "");
    }
    if (thorough)
    {
        // the same under restricted CPU affinity (the pools keep their sizes: many workers on one or two CPUs)
        cpu_set_t old;
        CPU_ZERO(&old);
        if (sched_getaffinity(0, sizeof(old), &old) == 0)
        {
            const int ncpus = static_cast<int>(rng.range(1, 2));
            cpu_set_t set;
            CPU_ZERO(&set);
            int taken = 0;
            for (int c = 0; c < CPU_SETSIZE && taken < ncpus; ++c)
                if (CPU_ISSET(c, &old)) { CPU_SET(c, &set); ++taken; }
            if (taken > 0 && sched_setaffinity(0, sizeof(set), &set) == 0)
            {
                for (const size_t threads : {size_t(2), size_t(16)}) compare(do_fit(src, cfg, threads), threads, " affinity=" + std::to_string(taken));
                sched_setaffinity(0, sizeof(old), &old);
            }
        }
    }
    g_delay_level.store(0);
    ++g_scenarios;
}

// ------------------------------------------------------------------------------------------------------------------
// (4') WFIT: weak-learner fits (per-thread caches + min_reduce) on datasets with NEAR-DUPLICATE features -- scores that differ
//      by rounding only (a feature and a copy scaled by 1 +- 2^-30 / perturbed by 1e-9) without being exactly tied, the two
//      copies at arbitrary positions (so that they land in the same or in different chunks depending on the pool size).
//      The selection is a minimum w.r.t. one strict order (C18_fit_select_src_schedule_independent): the selected features
//      AND the score must be bit-identical to the one-worker fit for dataset pools of 2, 3, 4, 8, 16 workers. An exact tie
//      (same score bit for bit, other feature) is the known tie case (C18_fit_select_tie_refuted): result=tie, not a failure.
// ------------------------------------------------------------------------------------------------------------------
long g_wfits = 0, g_wties = 0;

void run_wfit(const uint64_t seed, const long scenario)
{
    vh::rng_t  rng(mix(seed ^ 0x450B450BULL, static_cast<uint64_t>(scenario)));
    const auto n      = static_cast<tensor_size_t>(rng.range(30, 150));
    const auto F      = static_cast<size_t>(rng.range(3, 10));
    const auto nclass = static_cast<size_t>(rng.range(0, 2));
    const auto ndup   = static_cast<int>(rng.range(1, 2));
    const auto noise  = rng.range(0, 2) == 0 ? 0.3 : 0.02;
    const auto delay  = static_cast<int>(rng.range(0, 2));
    src_t      d;
    d.n = n, d.nscalar = F, d.nclass = nclass;
    for (size_t f = 0; f < F; ++f)
    {
        vec_t c(static_cast<size_t>(n));
        for (auto& v : c) v = rng.unit() * 4.0 - 2.0;
        d.cols.push_back(c);
    }
    std::string dups;
    size_t      base = 0;
    for (int k = 0; k < ndup; ++k)
    {
        const auto pa   = k == 0 ? static_cast<size_t>(rng.range(0, static_cast<int64_t>(F) - 1)) : base;
        auto       pb   = static_cast<size_t>(rng.range(0, static_cast<int64_t>(F) - 2));
        if (pb >= pa) ++pb;
        const auto mode = static_cast<int>(rng.range(0, 5));
        base            = pa;
        for (size_t i = 0; i < static_cast<size_t>(n); ++i)
        {
            const auto x = d.cols[pa][i];
            const auto u = rng.unit() * 2.0 - 1.0;
            switch (mode)
            {
            case 0: d.cols[pb][i] = x * (1.0 + 0x1p-30); break;
            case 1: d.cols[pb][i] = x * (1.0 + 1e-9 * u); break;
            case 2: d.cols[pb][i] = x + 1e-9 * u; break;
            case 3: d.cols[pb][i] = x; break; // exact copy: exact tie
            case 4: d.cols[pb][i] = x * (1.0 - 0x1p-30); break;
            default: d.cols[pb][i] = x + 1e-6 * u; break;
            }
        }
        dups += (dups.empty() ? "" : ",") + std::to_string(pa) + ":" + std::to_string(pb) + ":" + std::to_string(mode);
    }
    for (size_t f = 0; f < nclass; ++f)
    {
        const auto k = static_cast<int>(rng.range(2, 4));
        d.classes.push_back(k);
        vec_t c(static_cast<size_t>(n));
        for (auto& v : c) v = static_cast<double>(rng.range(0, k - 1));
        if (f == 1 && rng.range(0, 1) == 0)
        {
            // a near-duplicate categorical feature: the first one with a few labels changed
            d.classes[1] = d.classes[0];
            c            = d.cols[F];
            for (int q = 0; q < 2; ++q) c[static_cast<size_t>(rng.range(0, n - 1))] = static_cast<double>(rng.range(0, d.classes[0] - 1));
        }
        d.cols.push_back(c);
    }
    // residuals: an affine function of the duplicated feature (+ a class effect) + noise
    const double w = (rng.unit() + 0.5) * (rng.range(0, 1) ? 1.0 : -1.0), b = rng.unit() - 0.5;
    vec_t        t(static_cast<size_t>(n));
    tensor4d_t   gradients(n, 1, 1, 1);
    for (size_t i = 0; i < static_cast<size_t>(n); ++i)
    {
        t[i] = w * d.cols[base][i] + b + (nclass > 0 ? 0.4 * d.cols[F][i] : 0.0) + noise * (rng.unit() * 2.0 - 1.0);
        gradients(static_cast<tensor_size_t>(i), 0, 0, 0) = t[i];
    }
    d.cols.push_back(t);
    d.desc = "data(near-duplicates,n=" + std::to_string(n) + ",scalar=" + std::to_string(F) + ",sclass=" + std::to_string(nclass) + ",dup=" + dups + ",noise=" + vh::hexf(noise) + ")";
    finalize(d);
    indices_t samples = arange(0, n);
    if (rng.range(0, 2) == 0)
    {
        std::vector<tensor_size_t> idx;
        for (tensor_size_t i = 0; i < n; ++i)
            if (rng.range(0, 3) != 0) idx.push_back(i);
        while (idx.size() < 10) idx.push_back(static_cast<tensor_size_t>(idx.size()));
        samples = mk_indices(idx);
    }
    const auto ctx = seedctx("wfit", scenario) + " " + d.desc + " samples=" + std::to_string(samples.size()) + " delay=" + std::to_string(delay);

    static const size_t pools[] = {1, 2, 3, 4, 8, 16};
    std::vector<std::unique_ptr<dataset_t>> datasets;
    for (const auto P : pools) datasets.push_back(make_dataset(d, P));

    struct wout_t { double score{0}; std::vector<tensor_size_t> features; vec_t pred; std::string exc; };
    const auto fit_one = [&](const std::string& id, const dataset_t& dataset)
    {
        wout_t o;
        try
        {
            const auto base_id = id == "dtree1" ? std::string("dtree") : id;
            auto       wl      = wlearner_t::all().get(base_id);
            if (id == "dtree1") wl->parameter("wlearner::dtree::max_depth") = 1;
            o.score = wl->fit(dataset, samples, gradients);
            if (o.score != wlearner_t::no_fit_score())
            {
                const auto f = wl->features();
                o.features.assign(f.data(), f.data() + f.size());
                tensor4d_t out(samples.size(), 1, 1, 1);
                out.zero();
                wl->predict(dataset, samples, out.tensor());
                o.pred.assign(out.data(), out.data() + out.size());
            }
        }
        catch (const std::exception& e) { o.exc = e.what(); }
        return o;
    };
    static const char* const learners[] = {"affine", "stump", "hinge", "dense-table", "kbest-table", "ksplit-table", "dstep-table", "dtree1"};
    for (const auto* const learner : learners)
    {
        g_delay_level.store(0);
        const auto ref = fit_one(learner, *datasets[0]);
        for (size_t k = 1; k < datasets.size(); ++k)
            for (int rep = 0; rep < 2; ++rep)
            {
                g_delay_level.store(rep == 0 ? delay : 2 - delay);
                g_sched_seed.store(rng.next());
                const auto o = fit_one(learner, *datasets[k]);
                g_delay_level.store(0);
                const auto  lctx = ctx + " learner=" + learner + " threads=" + std::to_string(pools[k]) + " rep=" + std::to_string(rep);
                const char* result = "same";
                if (o.exc != ref.exc) { result = "diff"; fail("wfit", "exception `" + o.exc + "` vs `" + ref.exc + "` with one worker", lctx); }
                else if (!same_val(o.score, ref.score))
                {
                    result = "diff";
                    fail("wfit", "score " + vh::hexf(o.score) + " on feature(s) " + il(mk_indices(o.features)) + " with " + std::to_string(pools[k]) + " dataset workers, " +
                                     vh::hexf(ref.score) + " on feature(s) " + il(mk_indices(ref.features)) + " with one: the selection is not the minimum w.r.t. one order", lctx);
                }
                else if (o.features != ref.features) { result = "tie"; ++g_wties; } // exactly the same score on another feature
                else if (first_diff(o.pred, ref.pred) != -1)
                {
                    result = "diff";
                    fail("wfit", "same score and feature(s) " + il(mk_indices(o.features)) + " but different predictions than with one worker", lctx);
                }
                if (rep == 0 || std::string(result) != "same")
                    emit("WFIT " + std::to_string(g_wfits) + " learner=" + learner + " threads=" + std::to_string(pools[k]) + " n=" + std::to_string(samples.size()) + " features=" +
                         std::to_string(F + nclass) + " dup=" + dups + " ref=" + il(mk_indices(ref.features)) + "@" + vh::hexf(ref.score) + " got=" + il(mk_indices(o.features)) + "@" +
                         vh::hexf(o.score) + " result=" + result);
                ++g_wfits;
            }
    }
    ++g_scenarios;
}

// ------------------------------------------------------------------------------------------------------------------
// (5) TIEPROBE (on request only, never FAIL): two identical feature columns have exactly the same score; which of them a
//     weak learner selects depends on which worker evaluated which (C18_fit_select_tie_refuted, notes/C10.md F4)
// ------------------------------------------------------------------------------------------------------------------
void run_tieprobe(const uint64_t seed)
{
    vh::rng_t rng(mix(seed ^ 0x500A500AULL, 0));
    auto      src = make_regression_source(rng, 100, 3, 0, 0.1);
    // duplicate every scalar column: features x0..x2 and their copies x3..x5
    src_t dup;
    dup.n = src.n, dup.nscalar = 6, dup.nclass = 0;
    for (int r = 0; r < 2; ++r)
        for (size_t f = 0; f < 3; ++f) dup.cols.push_back(src.cols[f]);
    dup.cols.push_back(src.target());
    dup.desc = "data(duplicated columns)";
    finalize(dup);
    fit_cfg_t cfg;
    cfg.kind = 4, cfg.model = "gboost", cfg.solver = "lbfgs", cfg.tuner = "local-search", cfg.splitter = "k-fold";
    cfg.wlearners = {"stump"}, cfg.subsample = "off", cfg.shrinkage = "off", cfg.wscale = "gboost", cfg.max_evals = 300;
    std::set<std::vector<tensor_size_t>> distinct;
    g_delay_level.store(2);
    for (int run = 0; run < 12; ++run)
    {
        const size_t threads = run < 2 ? 1U : (run < 6 ? 4U : 16U);
        g_sched_seed.store(rng.next());
        const auto o = do_fit(dup, cfg, threads);
        distinct.insert(o.features);
        emit("TIEPROBE run=" + std::to_string(run) + " threads=" + std::to_string(threads) + " features=" + il(mk_indices(o.features)) + " " + o.exc);
    }
    g_delay_level.store(0);
    emit("TIEPROBE-SUMMARY distinct_feature_sets=" + std::to_string(distinct.size()));
}
} // namespace

int main(int argc, char** argv)
{
    std::setvbuf(stdout, nullptr, _IOLBF, 0);
    const std::string mode     = argc > 1 ? argv[1] : "quick";
    std::string       only     = argc > 2 ? argv[2] : "";
    long              only_k   = -1; // family:index runs one scenario (group) of the family alone
    if (const auto colon = only.find(':'); colon != std::string::npos)
    {
        only_k = std::atol(only.c_str() + colon + 1);
        only   = only.substr(0, colon);
    }
    const auto sel = [&](const long k) { return only_k < 0 || only_k == k; };
    const bool        thorough = mode == "thorough";
    const bool        reduced  = mode == "tsan"; // reduced scenario set for the ThreadSanitizer run of the quick tier
    const auto        seed     = vh::env_seed();
    const auto        want     = [&](const char* family) { return only.empty() ? std::string(family) != "tieprobe" : only == family; };

    char        tmpl[] = "/tmp/c18-harness-XXXXXX";
    const char* tdir   = mkdtemp(tmpl);
    if (tdir != nullptr) setenv("TMPDIR", tdir, 1);

    verif::g_max_threads.store(16U);
    verif::g_rng_seed.store(42U);
    verif::g_sched_hook.store(&on_sched);
    verif::g_event_hook.store(&on_event_tune);

    const long n_loop    = thorough ? 600 : (reduced ? 40 : 80);
    const long n_dataset = thorough ? 100 : (reduced ? 6 : 12);
    const long n_predict = thorough ? 24 : (reduced ? 2 : 4);
    const long n_tune    = thorough ? 200 : (reduced ? 8 : 24);
    const long n_fit     = thorough ? 80 : (reduced ? 6 : 12);
    const long n_wfit    = thorough ? 1500 : (reduced ? 30 : 150);
    const long rounds    = thorough ? 6 : 1; // passes over the solver / loss ids

    if (want("loop"))
    {
        int next_owner = 1;
        for (long g = 0; g < n_loop; ++g)
            if (sel(g)) run_loop_group(seed, g, next_owner);
    }
    if (want("user"))
    {
        long       scenario = 0;
        const auto sids     = solver_t::all().ids();
        const auto lids     = loss_t::all().ids();
        for (long round = 0; round < rounds; ++round)
        {
            for (size_t k = 0; k < sids.size(); ++k, ++scenario)
                if (sel(scenario) && (only_k >= 0 || !reduced || (static_cast<uint64_t>(k) + seed) % 2 == 0)) user_minimize(seed, scenario, sids[k]);
            for (size_t k = 0; k < lids.size(); ++k, ++scenario)
                if (sel(scenario) && (only_k >= 0 || !reduced || (static_cast<uint64_t>(k) + seed) % 2 == 0)) user_loss(seed, scenario, lids[k]);
        }
        for (long k = 0; k < n_dataset; ++k, ++scenario)
            if (sel(scenario)) user_dataset(seed, scenario);
        for (long k = 0; k < n_predict; ++k, ++scenario)
            if (sel(scenario)) user_predict(seed, scenario, k % 2 == 1);
    }
    if (want("tune"))
        for (long k = 0; k < n_tune; ++k)
            if (sel(k)) run_tune(seed, k);
    if (want("fit"))
        for (long k = 0; k < n_fit; ++k)
            if (sel(k)) run_fit(seed, k, thorough, reduced);
    if (want("wfit"))
        for (long k = 0; k < n_wfit; ++k)
            if (sel(k)) run_wfit(seed, k);
    if (want("tieprobe")) run_tieprobe(seed);

    if (tdir != nullptr)
    {
        std::error_code ec;
        std::filesystem::remove_all(tdir, ec);
    }
    emit("DONE scenarios=" + std::to_string(g_scenarios) + " fails=" + std::to_string(g_fails) + " cands=" + std::to_string(g_cands) + " loops=" + std::to_string(g_loops) + " users=" + std::to_string(g_users) +
         " tunes=" + std::to_string(g_tunes) + " fits=" + std::to_string(g_fits) + " wfits=" + std::to_string(g_wfits) + " wties=" + std::to_string(g_wties));
    return 0;
}
