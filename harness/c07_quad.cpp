// C07, QUAD stage: the real line searches on 1-D convex quadratics  phi(t) = f0 + g0 t + (a/2) t^2  with exactly
// representable data (small integer / dyadic coefficients, t0 a power of two), x0 = 0, d = 1, so that x = t and
// dg = phi'(t) exactly. Prints one line per run for the exact-rational model (ocaml/c07q_driver.ml) and applies the
// PROVED statements of C07_Quad.v directly to the implementation (independent of the model):
//   * closed-form acceptance regions: a successful step lies in (0, U] / [W, U] / [W, min(U, V)]
//     (U = 2(1-c1)t*, W = (1-c2)t*, V = (1+c2)t*, t* = -g0/a);
//   * iteration bounds: backtrack succeeds after at most N trial steps, N = least n with (1-s)^n t <= U (any interpolation),
//     and 1 + least m with s^(m+1) t <= t* for quadratic interpolation with c1 <= 1/2; lemarechal after at most n1 + n2,
//     tau1^n1 t >= W, (1-s)^n2 max(t, tau1 W) <= U - W -- whenever max_iterations allows it;
//   * CG_DESCENT: when the first trial point has dg >= 0 (valid bracket [0, t]) and is not accepted, the first secant step is
//     the exact minimiser and is accepted iff c1 <= 1/2 (2 evaluations).
// The bounds are evaluated in long double with a 1e-6 relative margin on the targets (binary64 rounding: the theorems are
// exact-arithmetic statements).
//
//   c07_quad <quick|thorough> [case-index]
//
//   QCONST eps0 eps1 stpmin k03
//   QUAD id | alg maxit interp c1 c2 safeguard tau1 tau2 tau3 cg_eps | f0 g0 a t0 | ok t | t,f,g;t,f,g;...
//   FAIL id kind=... ; DONE ...
#include "common.h"
#include <nano/function.h>
#include <nano/logger.h>
#include <nano/lsearchk.h>
#include <nano/solver/lstep.h>

using namespace nano;

namespace
{
struct rec_t
{
    double x, f, g;
};

class quad1d_t final : public function_t
{
public:
    quad1d_t(double f0, double g0, double a)
        : function_t("quad1d", 1)
        , m_f0(f0)
        , m_g0(g0)
        , m_a(a)
    {
        smooth(smoothness::yes);
        convex(convexity::yes);
    }

    rfunction_t clone() const override { return std::make_unique<quad1d_t>(*this); }

    scalar_t do_vgrad(vector_cmap_t x, vector_map_t gx) const override
    {
        const double t = x(0);
        const double f = m_f0 + m_g0 * t + 0.5 * m_a * t * t;
        const double g = m_g0 + m_a * t;
        if (gx.size() == 1)
        {
            gx(0) = g;
        }
        m_log.push_back({t, f, g});
        return f;
    }

    double                     m_f0, m_g0, m_a;
    mutable std::vector<rec_t> m_log;
};

uint64_t mix(uint64_t a, uint64_t b)
{
    vh::rng_t r(a * 0x9E3779B97F4A7C15ULL + b + 0xC07B0BULL);
    r.next();
    return r.next();
}

const char* const ALGS[] = {"backtrack", "lemarechal", "fletcher", "morethuente", "cgdescent"};

struct cfg_t
{
    int    alg{0}, maxit{128}, interp{2};
    double c1{1e-4}, c2{0.1}, safeguard{0.1}, tau1{9.0}, tau2{0.1}, tau3{0.5}, cge{1e-6};
};

template <class T, size_t N>
T pick(vh::rng_t& rng, const T (&v)[N])
{
    return v[static_cast<size_t>(rng.range(0, static_cast<int64_t>(N) - 1))];
}

struct stats_t
{
    long cases{0}, ok{0}, failed{0}, fails{0}, probes{0}, bt_bound_checked{0}, bt_sharp_checked{0}, lem_bound_checked{0}, region_checked{0},
        cg_secant_checked{0}, budget_too_small{0}, grow{0}, bt_bound_attained{0}, lem_max_used{0}, c1_gt_half{0}, cg_c1_gt_half_fail{0},
        cg_c1_gt_half_runs{0}, searched_success_checked{0};
    long by_alg_ok[5]{0, 0, 0, 0, 0}, by_alg_fail[5]{0, 0, 0, 0, 0};
};

// least n <= cap with rho^n * w <= target (rho < 1), -1 if none
long geo_steps(long double rho, long double w, long double target, long cap)
{
    for (long n = 0; n <= cap; ++n)
    {
        if (w <= target)
        {
            return n;
        }
        w *= rho;
    }
    return -1;
}

// least n <= cap with rho^n * w >= target (rho > 1)
long geo_grow(long double rho, long double w, long double target, long cap)
{
    for (long n = 0; n <= cap; ++n)
    {
        if (w >= target)
        {
            return n;
        }
        w *= rho;
    }
    return -1;
}

void fail(stats_t& st, long id, const std::string& what)
{
    ++st.fails;
    std::printf("FAIL %ld %s\n", id, what.c_str());
}

void run_case(uint64_t seed, long id, stats_t& st)
{
    vh::rng_t rng(mix(seed, static_cast<uint64_t>(id)));
    ++st.cases;

    // ---- the quadratic: exactly representable coefficients --------------------------------------------------------------
    const int  fam = static_cast<int>(rng.range(0, 9)); // 0..5 dyadic minimiser, 6..8 small odd curvature, 9 wider
    double     g0  = -static_cast<double>(rng.range(1, fam == 9 ? 1000 : 48)) * std::ldexp(1.0, static_cast<int>(rng.range(-3, 3)));
    double     a   = std::ldexp(1.0, static_cast<int>(rng.range(-4, 6)));
    if (fam >= 6)
    {
        static const double ODD[] = {3, 5, 7, 9, 11, 13, 25, 100};
        a *= pick(rng, ODD);
    }
    const double f0 = static_cast<double>(rng.range(-16, 16));
    double       t0 = std::ldexp(1.0, static_cast<int>(rng.range(-12, 3)));
    if (rng.range(0, 7) == 0)
    {
        // aim the initial step at a region boundary (the case splits of the proofs): t0 = k/8 * t*
        t0 = (-g0 / a) * static_cast<double>(rng.range(1, 24)) / 8.0;
    }

    // ---- configuration ------------------------------------------------------------------------------------------------
    cfg_t c;
    c.alg    = static_cast<int>(rng.range(0, 4));
    c.interp = static_cast<int>(rng.range(0, 2));
    const int pk = static_cast<int>(rng.range(0, 3)); // 0: library defaults, else dyadic parameters
    if (pk != 0)
    {
        static const double C1[] = {0x1p-13, 0.125, 0.25, 0.375, 0.5, 0.625, 0.75, 0.875};
        static const double C2[] = {0.125, 0.25, 0.5, 0.75, 0.875, 0.9375};
        do
        {
            c.c1 = pick(rng, C1);
            c.c2 = pick(rng, C2);
        } while (!(c.c1 < c.c2));
        static const double SG[]  = {0.25, 0.125, 0.375, 0.0625, 0.1, 0.4375};
        static const double T1[]  = {4, 9, 3, 16, 2.5};
        static const double T2[]  = {0.125, 0.0625, 0.1, 0.25};
        static const double T3[]  = {0.5, 0.25, 0.375};
        c.safeguard               = pick(rng, SG);
        c.tau1                    = pick(rng, T1);
        do
        {
            c.tau2 = pick(rng, T2);
            c.tau3 = pick(rng, T3);
        } while (!(c.tau2 < c.tau3));
    }
    const int mk = static_cast<int>(rng.range(0, 3));
    c.maxit      = mk == 0 ? 128 : mk == 1 ? static_cast<int>(rng.range(1, 12)) : mk == 2 ? static_cast<int>(rng.range(12, 60)) : 1000;

    auto ls = lsearchk_t::all().get(ALGS[c.alg]);
    if (!ls)
    {
        std::printf("FAIL %ld kind=setup\n", id);
        std::exit(3);
    }
    const auto it                             = static_cast<interpolation_type>(c.interp);
    ls->parameter("lsearchk::tolerance")      = std::make_tuple(c.c1, c.c2);
    ls->parameter("lsearchk::max_iterations") = c.maxit;
    switch (c.alg)
    {
    case 0:
        ls->parameter("lsearchk::backtrack::interpolation") = it;
        ls->parameter("lsearchk::backtrack::safeguard")     = c.safeguard;
        break;
    case 1:
        ls->parameter("lsearchk::lemarechal::interpolation") = it;
        ls->parameter("lsearchk::lemarechal::tau1")          = c.tau1;
        ls->parameter("lsearchk::lemarechal::safeguard")     = c.safeguard;
        break;
    case 2:
        ls->parameter("lsearchk::fletcher::interpolation") = it;
        ls->parameter("lsearchk::fletcher::tau1")          = c.tau1;
        ls->parameter("lsearchk::fletcher::tau23")         = std::make_tuple(c.tau2, c.tau3);
        break;
    case 3: break;
    default: ls->parameter("lsearchk::cgdescent::epsilon") = c.cge; break;
    }

    // ---- run the real thing ---------------------------------------------------------------------------------------------
    const auto fun = quad1d_t{f0, g0, a};
    vector_t   x0(1);
    x0(0) = 0.0;
    vector_t d(1);
    d(0)              = 1.0;
    const auto state0 = solver_state_t{fun, x0};
    fun.m_log.clear();
    auto       state      = state0;
    const auto logger     = make_null_logger();
    const auto [ok, step] = ls->get(state, d, t0, logger);
    const auto& log       = fun.m_log;
    st.probes += static_cast<long>(log.size());
    (ok ? st.ok : st.failed)++;
    (ok ? st.by_alg_ok : st.by_alg_fail)[c.alg]++;

    std::string probes;
    for (size_t k = 0; k < log.size(); ++k)
    {
        probes += (k ? ";" : "") + vh::hexf(log[k].x) + "," + vh::hexf(log[k].f) + "," + vh::hexf(log[k].g);
    }
    std::printf("QUAD %ld | %d %d %d %s %s %s %s %s %s %s | %s %s %s %s | %d %s | %s\n", id, c.alg, c.maxit, c.interp, vh::hexf(c.c1).c_str(),
                vh::hexf(c.c2).c_str(), vh::hexf(c.safeguard).c_str(), vh::hexf(c.tau1).c_str(), vh::hexf(c.tau2).c_str(),
                vh::hexf(c.tau3).c_str(), vh::hexf(c.cge).c_str(), vh::hexf(f0).c_str(), vh::hexf(g0).c_str(), vh::hexf(a).c_str(),
                vh::hexf(t0).c_str(), ok ? 1 : 0, vh::hexf(step).c_str(), probes.empty() ? "-" : probes.c_str());

    // ---- direct oracle: the proved statements on the implementation -----------------------------------------------------
    using ld               = long double;
    const ld       ts      = -static_cast<ld>(g0) / static_cast<ld>(a);
    const ld       U       = 2 * (1 - static_cast<ld>(c.c1)) * ts;
    const ld       W       = (1 - static_cast<ld>(c.c2)) * ts;
    const ld       V       = (1 + static_cast<ld>(c.c2)) * ts;
    const ld       dl      = 1e-6L;
    const ld       s       = c.safeguard;
    const ld       stpmin  = lsearchk_t::stpmin();
    if (c.c1 > 0.5)
    {
        ++st.c1_gt_half;
    }

    // where do_get starts: lsearchk_t::get clamps t0 into [stpmin, 1] and triples the step while |f - f0| < epsilon1
    ld   tstart = std::isfinite(t0) ? std::min<ld>(std::max<ld>(t0, stpmin), 1) : 1;
    long grown  = 0;
    {
        auto phi = [&](ld t) { return static_cast<ld>(g0) * t + 0.5L * static_cast<ld>(a) * t * t; };
        while (grown < c.maxit && std::fabs(phi(tstart)) < static_cast<ld>(epsilon1<scalar_t>()))
        {
            tstart *= 3;
            ++grown;
        }
    }
    st.grow += grown;
    const long nprobes = static_cast<long>(log.size());
    const long after   = nprobes - 1 - grown; // trial steps made by do_get
    if (log.empty() || after < 0)
    {
        fail(st, id, "kind=probes alg=" + std::string(ALGS[c.alg]) + " fewer evaluations than lsearchk_t::get must make");
        return;
    }
    const bool near_stpmin = ts < 1e-9L || tstart > 1e12L;
    const auto H           = [](ld v) { return vh::hexf(static_cast<double>(v)); };

    // (1) acceptance regions in closed form
    if (ok && c.alg <= 2)
    {
        ++st.region_checked;
        const ld t  = step;
        const ld hi = c.alg == 2 ? std::min(U, V) : U;
        const ld lo = c.alg == 0 ? 0 : W;
        if (!(t > 0 && t <= hi * (1 + dl) && t >= lo * (1 - dl)))
        {
            fail(st, id, "kind=region alg=" + std::string(ALGS[c.alg]) + " accepted t=" + vh::hexf(step) + " outside [" + H(lo) + ", " + H(hi) + "] t*=" + H(ts));
        }
    }
    // (2) backtracking: success within N trial steps whenever max_iterations > N
    if (c.alg == 0 && !near_stpmin)
    {
        const long N = geo_steps(1 - s, tstart, U * (1 - dl), 20000);
        if (N >= 0 && N < c.maxit)
        {
            ++st.bt_bound_checked;
            if (!ok || after > N)
            {
                fail(st, id, "kind=backtrack-bound ok=" + std::to_string(ok) + " trial_steps=" + std::to_string(after) + " proved_bound_N=" + std::to_string(N) +
                                 " max_iterations=" + std::to_string(c.maxit) + " tstart=" + H(tstart) + " U=" + H(U));
            }
            else if (after == N)
            {
                ++st.bt_bound_attained;
            }
            // sharper: the quadratic interpolant's minimiser is t*: with c1 <= 1/2 the step is s^k t until s t <= t*
            // (c1 = 1/2 exactly makes U = t*: the interpolated step sits ON the Armijo boundary and binary64 rounding decides; that
            //  knife edge is left to the driver's certified-exact cases)
            if (c.interp == 1 && c.c1 < 0.49)
            {
                const long m = geo_steps(s, s * tstart, ts * (1 - dl), 20000);
                if (m >= 0 && m + 1 < c.maxit)
                {
                    ++st.bt_sharp_checked;
                    if (!ok || after > m + 1)
                    {
                        fail(st, id, "kind=backtrack-sharp-bound ok=" + std::to_string(ok) + " trial_steps=" + std::to_string(after) + " proved_bound=" +
                                         std::to_string(m + 1) + " max_iterations=" + std::to_string(c.maxit));
                    }
                }
            }
        }
        else
        {
            ++st.budget_too_small;
        }
    }
    // (3) lemarechal: extrapolation until W is passed, then the bracket shrinks by (1 - s) per step and contains [W, U]
    if (c.alg == 1 && !near_stpmin && U >= 1e-12L)
    {
        const long n1 = geo_grow(c.tau1, tstart, W * (1 + dl), 20000);
        const long n2 = geo_steps(1 - s, std::max<ld>(tstart, static_cast<ld>(c.tau1) * W) * (1 + dl), (U - W) * (1 - dl), 20000);
        if (n1 >= 0 && n2 >= 0 && n1 + n2 + 1 < c.maxit)
        {
            ++st.lem_bound_checked;
            if (!ok || after > n1 + n2)
            {
                fail(st, id, "kind=lemarechal-bound ok=" + std::to_string(ok) + " trial_steps=" + std::to_string(after) + " proved_bound=" + std::to_string(n1) + "+" +
                                 std::to_string(n2) + " max_iterations=" + std::to_string(c.maxit) + " tstart=" + H(tstart) + " W=" + H(W) + " U=" + H(U));
            }
            st.lem_max_used = std::max(st.lem_max_used, after);
        }
        else
        {
            ++st.budget_too_small;
        }
    }
    // (3b) SEARCHED, not proved: fletcher (do_get + zoom) and More-Thuente succeed on this family with the default budget or more
    //      (the exact model of fletcher is compared by the driver; its success theorem is not mechanised)
    if ((c.alg == 2 || c.alg == 3) && c.maxit >= 128 && !near_stpmin)
    {
        ++st.searched_success_checked;
        if (!ok)
        {
            fail(st, id, "kind=searched-success alg=" + std::string(ALGS[c.alg]) + " failed on a convex quadratic with max_iterations=" + std::to_string(c.maxit) +
                             " t=" + vh::hexf(step) + " evaluations=" + std::to_string(nprobes) + " t*=" + H(ts));
        }
    }
    // (4) CG_DESCENT: valid initial bracket [0, t] (dg(t) >= 0), t itself not accepted => the first secant step is t* exactly,
    //     accepted iff c1 <= 1/2
    if (c.alg == 4 && grown == 0 && nprobes >= 1 && c.maxit >= 3 && !near_stpmin)
    {
        const ld t1  = log[0].x;
        const ld g1  = static_cast<ld>(g0) + static_cast<ld>(a) * t1;
        const ld f1  = static_cast<ld>(g0) * t1 + 0.5L * static_cast<ld>(a) * t1 * t1; // f - f0
        const ld eps = static_cast<ld>(c.cge) * std::fabs(static_cast<ld>(f0));
        const bool wolfe1  = f1 <= t1 * c.c1 * g0 && g1 >= static_cast<ld>(c.c2) * g0;
        const bool awolfe1 = f1 <= eps && (2 * static_cast<ld>(c.c1) - 1) * g0 >= g1 && g1 >= static_cast<ld>(c.c2) * g0;
        const bool margin  = std::fabs(f1 - t1 * c.c1 * g0) > 1e-9L * (1 + std::fabs(f1)) && std::fabs(f1 - eps) > 1e-9L * (1 + std::fabs(f1)) &&
                            std::fabs((2 * static_cast<ld>(c.c1) - 1) * g0 - g1) > 1e-9L * std::fabs(static_cast<ld>(g0));
        if (g1 > 1e-9L * std::fabs(static_cast<ld>(g0)) && !wolfe1 && !awolfe1 && margin)
        {
            if (c.c1 > 0.5)
            {
                ++st.cg_c1_gt_half_runs;
                if (!ok)
                {
                    ++st.cg_c1_gt_half_fail;
                }
            }
            else if (c.c1 < 0.5)
            {
                ++st.cg_secant_checked;
                const ld t2 = nprobes >= 2 ? static_cast<ld>(log[1].x) : -1;
                if (!ok || nprobes != 2 || std::fabs(t2 - ts) > 1e-12L * ts || std::fabs(static_cast<ld>(step) - ts) > 1e-12L * ts)
                {
                    fail(st, id, "kind=cgdescent-first-secant ok=" + std::to_string(ok) + " evaluations=" + std::to_string(nprobes) + " second_probe=" + H(t2) +
                                     " returned=" + vh::hexf(step) + " t*=" + H(ts));
                }
            }
        }
    }
}
} // namespace

int main(int argc, char** argv)
{
    std::setvbuf(stdout, nullptr, _IOLBF, 0);
    const std::string tier   = argc > 1 ? argv[1] : "quick";
    const long        only   = argc > 2 ? std::atol(argv[2]) : -1;
    const auto        seed   = vh::env_seed();
    const long        ncases = tier == "thorough" ? 200000 : 20000;

    std::printf("QCONST %s %s %s %s\n", vh::hexf(epsilon0<scalar_t>()).c_str(), vh::hexf(epsilon1<scalar_t>()).c_str(),
                vh::hexf(lsearchk_t::stpmin()).c_str(), vh::hexf(0.3).c_str());
    stats_t st;
    if (only >= 0)
    {
        run_case(seed, only, st);
    }
    else
    {
        for (long id = 0; id < ncases; ++id)
        {
            run_case(seed, id, st);
        }
    }
    std::printf("DONE cases=%ld ok=%ld failed=%ld fails=%ld probes=%ld region_checked=%ld bt_bound_checked=%ld bt_bound_attained=%ld bt_sharp_checked=%ld "
                "lem_bound_checked=%ld lem_max_trial_steps=%ld cg_secant_checked=%ld budget_too_small=%ld grow_steps=%ld c1_gt_half=%ld "
                "cg_c1_gt_half_runs=%ld cg_c1_gt_half_failed=%ld searched_success_checked=%ld ok_by_alg=%ld/%ld/%ld/%ld/%ld failed_by_alg=%ld/%ld/%ld/%ld/%ld\n",
                st.cases, st.ok, st.failed, st.fails, st.probes, st.region_checked, st.bt_bound_checked, st.bt_bound_attained, st.bt_sharp_checked,
                st.lem_bound_checked, st.lem_max_used, st.cg_secant_checked, st.budget_too_small, st.grow, st.c1_gt_half, st.cg_c1_gt_half_runs,
                st.cg_c1_gt_half_fail, st.searched_success_checked, st.by_alg_ok[0], st.by_alg_ok[1], st.by_alg_ok[2], st.by_alg_ok[3], st.by_alg_ok[4], st.by_alg_fail[0],
                st.by_alg_fail[1], st.by_alg_fail[2], st.by_alg_fail[3], st.by_alg_fail[4]);
    return 0;
}
