// C06 harness: values, gradients and convexity flags of benchmark functions, losses, constraints and ML objectives.
//
// Every object is wrapped as  x -> (f(x), g(x))  with its declared flags and goes through the same direct oracles
// (independent of the Coq model):
//   value      value-only call == value+gradient call (bit-exact for single-threaded scalar code, 1e-12 rel. otherwise)
//   gradient   g.d agrees with central differences along random and coordinate directions (smooth objects); for
//              objects declared non-smooth g.d must lie between the one-sided difference quotients (subgradient)
//   convexity  declared convex  =>  f(z) >= f(x) + g(x).(z-x) + mu/2 |z-x|^2, random pairs + hill-climbing on the violation
//   losses     per-sample locality (batch == one-by-one, bit-exact), non-negativity, 0-1 errors == arg-max / sign rule
//
// lines (consumed by tools/checks/c06.py and ocaml/c06_driver.ml):
//   SIZE kind req = size                    size expressions (translated integer kernels)
//   LV loss alpha | t,.. | o,.. = value | g,.. | error        one per-sample loss evaluation (hex floats)
//   FN name n | x,.. = f | g,..             one benchmark-function evaluation
//   CN kind n | params | x,.. = f | g,..    one constraint evaluation
//   FAIL clause object | details            direct property violation on the implementation
//   PROBE name | ...                        directed probes: linear strong convexity (known finding), cb3 exact ties, non-symmetric P
//   DONE ...
#include "common.h"
#include <algorithm>
#include <functional>
#include <map>
#include <memory>
#include <nano/dataset.h>
#include <nano/dataset/iterator.h>
#include <nano/datasource.h>
#include <nano/function.h>
#include <nano/function/constraint.h>
#include <nano/function/util.h>
#include <nano/gboost/function.h>
#include <nano/generator/elemwise_identity.h>
#include <nano/linear/function.h>
#include <nano/loss.h>
#include <nano/loss/class.h>
#include <nano/machine/cluster.h>
#include <nano/tuner/surrogate.h>
#include <nano/verif.h>
#include <set>
#include <nano/tensor/tensor.h>
#include <function/benchmark/linear.h>

using namespace nano;

namespace
{
using vec = std::vector<double>;
constexpr double EPS = 2.220446049250313e-16;

bool g_thorough = false;
long g_lines = 0, g_fails = 0, g_objects = 0, g_evals = 0, g_grad_checks = 0, g_kink_checks = 0, g_convex_checks = 0,
     g_convex_climbs = 0, g_value_checks = 0, g_loss_checks = 0, g_error_checks = 0, g_skipped_nonfinite = 0;
std::map<std::string, long> g_fail_by_clause;
std::map<std::string, long> g_family;
std::set<std::string>       g_fail_keys;

std::string fl(const vec& v)
{
    std::string s;
    for (size_t i = 0; i < v.size(); ++i)
    {
        if (i) s += ",";
        s += vh::hexf(v[i]);
    }
    return s;
}
template <class tt>
vec tovec(const tt& t)
{
    vec v(static_cast<size_t>(t.size()));
    for (tensor_size_t i = 0; i < t.size(); ++i) v[static_cast<size_t>(i)] = t(i);
    return v;
}
void out(const std::string& s)
{
    std::puts(s.c_str());
    ++g_lines;
}
// at most 3 FAIL lines per (clause, object family): the first ones carry the replay
void fail(const std::string& clause, const std::string& object, const std::string& family, const std::string& details)
{
    ++g_fails;
    ++g_fail_by_clause[clause];
    const auto key = clause + "|" + family;
    static std::map<std::string, int> printed;
    if (printed[key]++ < 3) out("FAIL " + clause + " " + object + " | family=" + family + " | " + details);
    g_fail_keys.insert(key);
}

// ---------------------------------------------------------------------------------------------------------------------
// the uniform view of an object
// ---------------------------------------------------------------------------------------------------------------------
struct obj_t
{
    std::string                              name;   // full description (enough to rebuild the object)
    std::string                              family; // e.g. fn:sphere, loss:mae, cons:linear-eq, ml:linear(mae)
    int                                      n{0};
    std::function<double(const vec&, vec*)>  eval; // value (+ gradient when the pointer is given)
    bool                                     convex{false}, smooth{false};
    double                                   mu{0.0};
    bool                                     exact_repeat{true}; // value-only == value+gradient bit for bit
    double                                   extra{0.0};         // magnitude of internal terms not visible in f, g, x
    double                                   lo{-10.0}, hi{+10.0}; // domain box for the search
    vec                                      center;              // interesting centre (kinks, optimum), may be empty
};

double mag(const obj_t& o, const vec& x, double f, const vec& g)
{
    double m = std::fabs(f) + o.extra, xm = 1.0;
    for (size_t i = 0; i < x.size(); ++i)
    {
        m += std::fabs(g[i]) * std::max(1.0, std::fabs(x[i]));
        xm = std::max(xm, std::fabs(x[i]));
    }
    return m + (1.0 + static_cast<double>(x.size())) * xm;
}

bool finite(double f, const vec& g)
{
    if (!std::isfinite(f)) return false;
    for (auto v : g)
        if (!std::isfinite(v)) return false;
    return true;
}

// a point of the box: uniform, with coordinates snapped to a coarse dyadic grid now and then (exact ties / kinks)
vec draw_point(vh::rng_t& rng, const obj_t& o, double radius, const vec* around)
{
    vec        x(static_cast<size_t>(o.n));
    const auto mode = rng.range(0, 9); // 0,1: snapped to grid; 2: sparse; else uniform
    const double grids[] = {1.0, 0.5, 0.25, 2.0};
    const auto grid = grids[rng.range(0, 3)];
    for (size_t i = 0; i < x.size(); ++i)
    {
        const auto c = around ? (*around)[i] : 0.0;
        auto       v = c + radius * (2.0 * rng.unit() - 1.0);
        if (mode <= 1 && radius >= 0.5) v = std::round(v / grid) * grid;
        if (mode == 2 && rng.range(0, 2) == 0) v = c;
        x[i] = std::min(o.hi, std::max(o.lo, v));
    }
    return x;
}

struct conv_t
{
    double v, tol;
};

conv_t convex_gap(const obj_t& o, const vec& x, const vec& z)
{
    vec        gx(x.size()), gz(z.size());
    const auto fx = o.eval(x, &gx);
    const auto fz = o.eval(z, &gz);
    g_evals += 2;
    if (!finite(fx, gx) || !finite(fz, gz)) return {0.0, 1.0};
    double lin = 0, alin = 0, d2 = 0;
    for (size_t i = 0; i < x.size(); ++i)
    {
        const auto d = z[i] - x[i];
        lin += gx[i] * d;
        alin += std::fabs(gx[i] * d);
        d2 += d * d;
    }
    const auto quad = 0.5 * o.mu * d2;
    const auto v    = fx + lin + quad - fz; // must be <= 0
    const auto tol  = 256 * EPS * (mag(o, x, fx, gx) + mag(o, z, fz, gz) + alin + quad) + 1e-11 * quad;
    return {v, tol};
}

void check_convexity(vh::rng_t& rng, const obj_t& o, vec x, vec z, int climbs)
{
    ++g_convex_checks;
    auto best = convex_gap(o, x, z);
    // hill-climbing on the ratio violation / tolerance
    for (int it = 0; it < climbs && best.v <= 16 * best.tol; ++it)
    {
        ++g_convex_climbs;
        auto       nx = x, nz = z;
        const auto which = rng.range(0, 2);
        const auto step  = std::pow(10.0, -static_cast<double>(rng.range(0, 6)));
        const auto i     = static_cast<size_t>(rng.range(0, o.n - 1));
        const auto delta = step * (2.0 * rng.unit() - 1.0) * std::max(1.0, std::fabs(x[i]));
        if (which == 0) nx[i] = std::min(o.hi, std::max(o.lo, nx[i] + delta));
        else if (which == 1) nz[i] = std::min(o.hi, std::max(o.lo, nz[i] + delta));
        else
        {
            // move z towards / away from x along the segment
            const auto t = 0.5 + rng.unit();
            for (size_t k = 0; k < nz.size(); ++k) nz[k] = std::min(o.hi, std::max(o.lo, x[k] + t * (z[k] - x[k])));
        }
        const auto cand = convex_gap(o, nx, nz);
        if (cand.v / cand.tol > best.v / best.tol)
        {
            best = cand;
            x    = nx;
            z    = nz;
        }
    }
    if (best.v > best.tol)
    {
        vec        gx(x.size());
        const auto fx = o.eval(x, &gx);
        const auto fz = o.eval(z, nullptr);
        fail(o.mu > 0 ? "strong-convexity" : "convexity", o.name, o.family,
             "f(x)+g.(z-x)+mu/2|z-x|^2-f(z)=" + vh::hexf(best.v) + " tol=" + vh::hexf(best.tol) + " mu=" + vh::hexf(o.mu) +
                 " fx=" + vh::hexf(fx) + " fz=" + vh::hexf(fz) + " x=[" + fl(x) + "] z=[" + fl(z) + "] g=[" + fl(gx) + "]");
    }
}

void check_point(vh::rng_t& rng, const obj_t& o, const vec& x, int ndirs)
{
    vec        g(x.size());
    const auto f0 = o.eval(x, nullptr);
    const auto f1 = o.eval(x, &g);
    g_evals += 2;
    if (!finite(f1, g) || !std::isfinite(f0))
    {
        // the search boxes are chosen so that every object stays finite
        fail("nonfinite", o.name, o.family, "f=" + vh::hexf(f1) + " x=[" + fl(x) + "] g=[" + fl(g) + "]");
        return;
    }
    // value-only == value+gradient
    ++g_value_checks;
    const auto vtol = o.exact_repeat ? 0.0 : 1e-12 * mag(o, x, f1, g);
    if (std::fabs(f0 - f1) > vtol)
        fail("value", o.name, o.family, "value-only=" + vh::hexf(f0) + " value+gradient=" + vh::hexf(f1) + " x=[" + fl(x) + "]");

    const auto M = mag(o, x, f1, g);
    for (int idir = 0; idir < ndirs; ++idir)
    {
        vec d(x.size(), 0.0);
        if (idir % 2 == 0)
            for (auto& v : d) v = 2.0 * rng.unit() - 1.0;
        else d[static_cast<size_t>(rng.range(0, o.n - 1))] = rng.range(0, 1) ? 1.0 : -1.0;
        double gd = 0, scale = 1.0;
        for (size_t i = 0; i < x.size(); ++i)
        {
            gd += g[i] * d[i];
            scale = std::max(scale, std::fabs(x[i]));
        }
        bool        ok = false, kink = false;
        std::string trace;
        for (const auto h0 : {1e-3, 1e-4, 1e-5, 1e-6, 1e-7})
        {
            const auto h  = h0 * scale;
            vec        xp = x, xn = x;
            for (size_t i = 0; i < x.size(); ++i)
            {
                xp[i] = x[i] + h * d[i];
                xn[i] = x[i] - h * d[i];
            }
            const auto fp = o.eval(xp, nullptr);
            const auto fn = o.eval(xn, nullptr);
            g_evals += 2;
            if (!std::isfinite(fp) || !std::isfinite(fn)) continue;
            const auto Dp = (fp - f1) / h, Dn = (f1 - fn) / h, C = (fp - fn) / (2 * h);
            const auto tol = 1e-5 * (std::fabs(Dp) + std::fabs(Dn) + std::fabs(gd)) + 64 * EPS * 3 * M / h;
            trace += " h=" + vh::hexf(h) + ":D-=" + vh::hexf(Dn) + ",D+=" + vh::hexf(Dp);
            if (std::fabs(C - gd) <= tol)
            {
                ok = true;
                break;
            }
            if (!o.smooth && h0 <= 1e-5 && gd >= std::min(Dn, Dp) - tol && gd <= std::max(Dn, Dp) + tol)
            {
                ok = kink = true;
                break;
            }
        }
        ++g_grad_checks;
        g_kink_checks += kink ? 1 : 0;
        if (!ok)
            fail(o.smooth ? "gradient" : "subgradient", o.name, o.family,
                 "g.d=" + vh::hexf(gd) + trace + " x=[" + fl(x) + "] d=[" + fl(d) + "] g=[" + fl(g) + "] f=" + vh::hexf(f1));
    }
}

void check_object(vh::rng_t& rng, const obj_t& o, int points)
{
    ++g_objects;
    ++g_family[o.family.substr(0, o.family.find(':'))];
    const double radii[] = {1e-3, 1e-2, 1e-1, 1.0, 10.0};
    points *= g_thorough ? 4 : 3; // the search is cheap: spend the tier's time budget on more points per object
    for (int p = 0; p < points; ++p)
    {
        const auto radius = std::min(radii[p % 5], 0.5 * (o.hi - o.lo));
        const vec* around = (!o.center.empty() && rng.range(0, 2) == 0) ? &o.center : nullptr;
        const auto x      = draw_point(rng, o, radius, around);
        check_point(rng, o, x, 2);
        if (o.convex)
        {
            // z: in the same box, or a small step from x (all pieces equal), or far away
            vec        z;
            const auto mode = rng.range(0, 3);
            if (mode == 0) z = draw_point(rng, o, radius, around);
            else if (mode == 1) z = draw_point(rng, o, radii[rng.range(0, 4)], &x);
            else if (mode == 2) z = draw_point(rng, o, std::min(10.0, 0.5 * (o.hi - o.lo)), nullptr);
            else
            {
                z = x; // one coordinate only
                const auto i = static_cast<size_t>(rng.range(0, o.n - 1));
                z[i] = std::min(o.hi, std::max(o.lo, z[i] + radius * (2.0 * rng.unit() - 1.0)));
            }
            check_convexity(rng, o, x, z, g_thorough ? 40 : 12);
        }
    }
}

// ---------------------------------------------------------------------------------------------------------------------
// A. losses: the object is  o -> loss(t, o)  for a fixed target
// ---------------------------------------------------------------------------------------------------------------------
struct loss_eval_t
{
    double value, error;
    vec    grad;
};

loss_eval_t loss_eval(const loss_t& loss, const vec& t, const vec& o, bool with_grad = true)
{
    const auto k = static_cast<tensor_size_t>(t.size());
    tensor4d_t T(1, k, 1, 1), O(1, k, 1, 1), G(1, k, 1, 1);
    tensor1d_t V(1), E(1);
    for (tensor_size_t i = 0; i < k; ++i)
    {
        T(i) = t[static_cast<size_t>(i)];
        O(i) = o[static_cast<size_t>(i)];
    }
    loss.value(T, O, V);
    loss.error(T, O, E);
    loss_eval_t r{V(0), E(0), {}};
    if (with_grad)
    {
        loss.vgrad(T, O, G);
        r.grad = tovec(G);
    }
    return r;
}

enum class lkind
{
    regression,
    sclass,
    mclass
};

lkind kind_of(const std::string& id)
{
    if (id.rfind("s-", 0) == 0) return lkind::sclass;
    if (id.rfind("m-", 0) == 0) return lkind::mclass;
    return lkind::regression;
}

vec draw_target(vh::rng_t& rng, lkind kind, int k, int pattern)
{
    vec t(static_cast<size_t>(k));
    if (kind == lkind::regression)
    {
        for (auto& v : t) v = (pattern % 2 == 0) ? std::round((60.0 * rng.unit() - 30.0) * 8.0) / 8.0 : 60.0 * rng.unit() - 30.0;
        return t;
    }
    for (auto& v : t) v = -1.0;
    if (kind == lkind::sclass)
    {
        if (k == 1) t[0] = (pattern % 2 == 0) ? +1.0 : -1.0;
        else t[static_cast<size_t>(pattern % k)] = +1.0; // exactly one positive label
    }
    else
    {
        switch (pattern % 4)
        {
        case 0: break;                                // no label
        case 1:
            for (auto& v : t) v = +1.0;               // all labels
            break;
        default:
            for (auto& v : t) v = rng.range(0, 1) ? +1.0 : -1.0;
        }
    }
    return t;
}

// predictions: uniform in [-30, 30], small dyadics, exactly on the kinks / decision boundaries, ties of the arg-max
vec draw_output(vh::rng_t& rng, const vec& t, lkind kind, int mode)
{
    vec o(t.size());
    for (size_t i = 0; i < o.size(); ++i)
    {
        switch (mode % 8)
        {
        case 0: o[i] = 60.0 * rng.unit() - 30.0; break;
        case 1: o[i] = std::round((8.0 * rng.unit() - 4.0) * 16.0) / 16.0; break;
        case 2: o[i] = (kind == lkind::regression) ? t[i] : t[i]; break; // |o - t| = 0 resp. 1 - t*o = 0
        case 3: o[i] = (rng.range(0, 2) == 0) ? t[i] : std::round((4.0 * rng.unit() - 2.0) * 4.0) / 4.0; break;
        case 4: o[i] = static_cast<double>(rng.range(-2, 2)); break; // ties
        case 5: o[i] = (rng.range(0, 1) ? 1.0 : -1.0) * EPS * static_cast<double>(rng.range(0, 2)); break; // around the 0-1 error threshold
        case 6: o[i] = (rng.range(0, 1) ? 30.0 : -30.0); break;
        default: o[i] = 2.0 * rng.unit() - 1.0; break;
        }
    }
    return o;
}

// the decision rule of the property, written independently of error.h
double rule_error(lkind kind, const vec& t, const vec& o)
{
    if (kind == lkind::regression)
    {
        double s = 0;
        for (size_t i = 0; i < t.size(); ++i) s += std::fabs(t[i] - o[i]);
        return s;
    }
    if (kind == lkind::sclass && t.size() > 1)
    {
        size_t best = 0; // arg-max, first index on ties
        for (size_t i = 1; i < o.size(); ++i)
            if (o[i] > o[best]) best = i;
        return t[best] > 0 ? 0.0 : 1.0;
    }
    double cnt = 0; // sign rule: label predicted iff its output is positive, error iff the sign of the target is missed
    for (size_t i = 0; i < t.size(); ++i)
        if (!(t[i] * o[i] >= EPS)) cnt += 1;
    return cnt;
}

void loss_family(vh::rng_t& rng, const std::string& id, int& tie_budget)
{
    auto loss = loss_t::all().get(id);
    if (!loss)
    {
        fail("missing", "loss:" + id, "loss:" + id, "not in the factory");
        return;
    }
    const auto kind = kind_of(id);
    std::vector<double> alphas{0.5};
    if (id == "pinball") alphas = {0.5, 0.0, 1.0, 0.25, 0.9};
    std::vector<int> ks = g_thorough ? std::vector<int>{1, 2, 3, 4, 5, 6, 7, 8, 9, 10, 11, 12, 13} : std::vector<int>{1, 2, 3, 5, 13};
    for (const auto alpha : alphas)
    {
        if (id == "pinball") loss->parameter("loss::pinball::alpha") = alpha;
        for (const auto k : ks)
        {
            const int patterns = g_thorough ? 6 : 3;
            for (int pattern = 0; pattern < patterns; ++pattern)
            {
                const auto t = draw_target(rng, kind, k, pattern + static_cast<int>(rng.range(0, 3)) * 4);
                obj_t      o;
                o.family = "loss:" + id;
                o.name   = "loss:" + id + (id == "pinball" ? "(alpha=" + vh::hexf(alpha) + ")" : "") + " t=[" + fl(t) + "]";
                o.n      = k;
                o.convex = loss->convex();
                o.smooth = loss->smooth();
                o.lo     = -30.0;
                o.hi     = +30.0;
                o.extra  = 31.0 * k;
                o.center = t;
                const loss_t* pl = loss.get();
                o.eval = [pl, t](const vec& x, vec* g)
                {
                    const auto r = loss_eval(*pl, t, x, g != nullptr);
                    if (g) *g = r.grad;
                    return r.value;
                };
                check_object(rng, o, g_thorough ? 200 : 60);

                // per-sample facts on a batch: locality, non-negativity, the decision rule; model-tie lines
                const int  n = 8;
                std::vector<vec> ts, os;
                for (int s = 0; s < n; ++s)
                {
                    // single-label losses with >= 2 outputs: every other sample has NO or SEVERAL positive labels (the decision rule is
                    // `target at the arg-max of the outputs is positive`, whatever the number of positive labels)
                    if (kind == lkind::sclass && k > 1 && s % 2 == 1) ts.push_back(draw_target(rng, lkind::mclass, k, static_cast<int>(rng.range(0, 11))));
                    else ts.push_back(s % 3 == 0 ? t : draw_target(rng, kind, k, static_cast<int>(rng.range(0, 11))));
                    os.push_back(draw_output(rng, ts.back(), kind, static_cast<int>(rng.range(0, 7))));
                }
                tensor4d_t T(n, k, 1, 1), O(n, k, 1, 1), G(n, k, 1, 1);
                tensor1d_t V(n), E(n);
                for (int s = 0; s < n; ++s)
                    for (int i = 0; i < k; ++i)
                    {
                        T(s, i, 0, 0) = ts[static_cast<size_t>(s)][static_cast<size_t>(i)];
                        O(s, i, 0, 0) = os[static_cast<size_t>(s)][static_cast<size_t>(i)];
                    }
                loss->value(T, O, V);
                loss->error(T, O, E);
                loss->vgrad(T, O, G);
                int batch_lines = 0;
                for (int s = 0; s < n; ++s)
                {
                    ++g_loss_checks;
                    const auto& tt = ts[static_cast<size_t>(s)];
                    const auto& oo = os[static_cast<size_t>(s)];
                    const auto  r  = loss_eval(*loss, tt, oo);
                    vec         gb(static_cast<size_t>(k));
                    for (int i = 0; i < k; ++i) gb[static_cast<size_t>(i)] = G(s, i, 0, 0);
                    const auto ctx = "t=[" + fl(tt) + "] o=[" + fl(oo) + "]";
                    // a few ulps: Eigen's packet and scalar paths (exp, atan, sums) round differently in the last bits and which
                    // coefficients go through which path depends on the alignment of the sample's row inside the batch;
                    // 0-1 errors are exact
                    const auto near = [](double a, double b) { return std::fabs(a - b) <= 16 * EPS * std::max({std::fabs(a), std::fabs(b), 1.0}); };
                    bool same_all = near(r.value, V(s)) && ((kind == lkind::regression || id == "pinball") ? near(r.error, E(s)) : r.error == E(s));
                    for (int i = 0; i < k; ++i) same_all = same_all && near(r.grad[static_cast<size_t>(i)], gb[static_cast<size_t>(i)]);
                    if (!same_all)
                        fail("locality", o.name, o.family,
                             "sample " + std::to_string(s) + " of a batch of " + std::to_string(n) + ": alone value=" + vh::hexf(r.value) +
                                 " error=" + vh::hexf(r.error) + " g=[" + fl(r.grad) + "], in the batch value=" + vh::hexf(V(s)) +
                                 " error=" + vh::hexf(E(s)) + " g=[" + fl(gb) + "] " + ctx);
                    // classnll is the negative log-likelihood of *the* label: non-negative for exactly one positive target
                    int npos = 0;
                    for (auto v : tt) npos += v > 0 ? 1 : 0;
                    const bool nonneg_domain = (id != "s-classnll") || npos == 1;
                    if (nonneg_domain && !(r.value >= 0.0)) fail("nonneg", o.name, o.family, "value=" + vh::hexf(r.value) + " " + ctx);
                    if (!(r.error >= 0.0)) fail("nonneg", o.name, o.family, "error=" + vh::hexf(r.error) + " " + ctx);
                    // the decision rule
                    ++g_error_checks;
                    if (id == "pinball")
                    {
                        if (r.error != r.value) fail("error-rule", o.name, o.family, "pinball error != value " + ctx);
                    }
                    else
                    {
                        const auto want = rule_error(kind, tt, oo);
                        const bool same = (kind == lkind::regression) ? std::fabs(want - r.error) <= 1e-12 * (1.0 + std::fabs(want)) : want == r.error;
                        if (!same) fail("error-rule", o.name, o.family, "error=" + vh::hexf(r.error) + " rule=" + vh::hexf(want) + " " + ctx);
                    }
                    // model-tie lines: a few per (alpha, outputs, target pattern) batch, so that every output count and pattern is represented
                    if (k <= 5 && tie_budget > 0 && batch_lines < (g_thorough ? 3 : 2) && finite(r.value, r.grad))
                    {
                        --tie_budget;
                        ++batch_lines;
                        out("LV " + id + " " + vh::hexf(alpha) + " | " + fl(tt) + " | " + fl(oo) + " = " + vh::hexf(r.value) + " | " + fl(r.grad) + " | " +
                            vh::hexf(r.error));
                    }
                }
            }
        }
    }
}

// ---------------------------------------------------------------------------------------------------------------------
// B. benchmark functions
// ---------------------------------------------------------------------------------------------------------------------
obj_t wrap_function(const function_t& f, const std::string& family, const std::string& name, bool exact)
{
    obj_t o;
    o.family       = family;
    o.name         = name;
    o.n            = static_cast<int>(f.size());
    o.convex       = f.convex();
    o.smooth       = f.smooth();
    o.mu           = f.strong_convexity();
    o.exact_repeat = exact;
    o.extra        = 4.0 * static_cast<double>(f.size()) * std::sqrt(static_cast<double>(f.size())) + 4.0;
    const function_t* pf = &f;
    o.eval = [pf](const vec& x, vec* g)
    {
        vector_t X(static_cast<tensor_size_t>(x.size()));
        for (tensor_size_t i = 0; i < X.size(); ++i) X(i) = x[static_cast<size_t>(i)];
        if (g)
        {
            vector_t G(X.size());
            G.full(std::nan(""));
            const auto fx = pf->vgrad(X, G);
            *g            = tovec(G);
            return fx;
        }
        return pf->vgrad(X);
    };
    return o;
}

const std::set<std::string> MODELLED_FN{"sphere", "axis-ellipsoid", "schumer-steiglitz", "chung-reynolds", "sargan", "zakharov",
                                        "trid", "rotated-ellipsoid", "qing", "styblinski-tang", "rosenbrock", "powell", "dixon-price",
                                        "maxq", "chained_lq", "exponential", "cauchy", "chained_cb3I", "chained_cb3II"};

void function_families(vh::rng_t& rng)
{
    const auto ids = function_t::all().ids();
    std::vector<tensor_size_t> dims = g_thorough ? std::vector<tensor_size_t>{} : std::vector<tensor_size_t>{1, 2, 3, 4, 7, 16, 32};
    if (g_thorough)
        for (tensor_size_t d = 1; d <= 32; ++d) dims.push_back(d);
    out("SIZE prototypes 0 = " + std::to_string(ids.size()));
    for (const auto& id : ids)
    {
        const auto proto = function_t::all().get(id);
        for (const auto d : dims)
        {
            const auto f = proto->make(d, 17);
            if (!f)
            {
                fail("missing", "fn:" + id, "fn:" + id, "make() returned nothing for dims=" + std::to_string(d));
                continue;
            }
            const auto tid = f->type_id();
            out("SIZE fn:" + id + " " + std::to_string(d) + " = " + std::to_string(f->size()));
            auto o = wrap_function(*f, "fn:" + tid, "fn:" + id + "[make(" + std::to_string(d) + ",17)->" + std::to_string(f->size()) + "D]", true);
            check_object(rng, o, g_thorough ? 300 : 60);
            // model-tie lines for the functions that have a Coq specification
            if (MODELLED_FN.count(tid) && f->size() <= 7)
            {
                for (int s = 0; s < (g_thorough ? 6 : 2); ++s)
                {
                    obj_t      box = o;
                    const auto smallbox = (tid == "exponential" || tid == "chained_cb3I" || tid == "chained_cb3II");
                    auto       x = draw_point(rng, box, smallbox ? 2.0 : (s % 2 ? 4.0 : 1.0), nullptr);
                    if (s % 2 == 0)
                        for (auto& v : x) v = std::round(v * 16.0) / 16.0; // small dyadics: the double arithmetic is (nearly) exact
                    vec        g(x.size());
                    const auto fx = o.eval(x, &g);
                    out("FN " + tid + " " + std::to_string(f->size()) + " | " + fl(x) + " = " + vh::hexf(fx) + " | " + fl(g));
                }
            }
        }
    }
}

// ---------------------------------------------------------------------------------------------------------------------
// C. constraints
// ---------------------------------------------------------------------------------------------------------------------
void constraint_families(vh::rng_t& rng)
{
    const char* kinds[] = {"constant", "minimum", "maximum", "ball-eq", "ball-ineq", "linear-eq", "linear-ineq", "quadratic-eq", "quadratic-ineq",
                           "functional-eq", "functional-ineq"};
    for (int ikind = 0; ikind < 11; ++ikind)
    {
        for (int rep = 0; rep < (g_thorough ? 12 : 4); ++rep)
        {
            const auto n    = static_cast<tensor_size_t>(rng.range(1, 8));
            const bool dyad = rep % 2 == 0;
            const auto rnd  = [&]() { return dyad ? std::round((4.0 * rng.unit() - 2.0) * 8.0) / 8.0 : 4.0 * rng.unit() - 2.0; };
            vector_t   q(n), origin(n);
            matrix_t   P(n, n);
            for (tensor_size_t i = 0; i < n; ++i)
            {
                q(i)      = rnd();
                origin(i) = rnd();
            }
            // symmetric P: positive semi-definite (B B^T), indefinite or negative definite
            matrix_t B(n, n);
            for (tensor_size_t i = 0; i < n * n; ++i) B(i) = rnd();
            P.matrix() = B.matrix() * B.matrix().transpose();
            const auto pmode = rng.range(0, 3);
            if (pmode == 1)
                for (tensor_size_t i = 0; i < n; ++i) P(i, i) -= 2.0;
            if (pmode == 2) P.matrix() = -P.matrix();
            // non-symmetric P (compatible() accepts any square matrix): triangular with a positive diagonal, so that the
            // eigenvalues of P are positive whatever the symmetric part looks like
            // (large off-diagonal: the symmetric part is usually indefinite; small: positive definite but with a smaller least
            // eigenvalue than the least diagonal entry = least eigenvalue of P)
            const bool nonsym = pmode == 3 && n > 1 && (ikind == 7 || ikind == 8);
            const auto nsfactor = (rep % 4 < 2) ? 4.0 : 0.125;
            if (nonsym)
                for (tensor_size_t i = 0; i < n; ++i)
                    for (tensor_size_t j = 0; j < n; ++j) P(i, j) = (j < i) ? 0.0 : (i == j ? 0.25 + std::fabs(B(i, j)) : nsfactor * B(i, j));
            const auto r      = rnd();
            const auto radius = 0.25 + 2.0 * rng.unit();
            const auto dim    = static_cast<tensor_size_t>(rng.range(0, n - 1));
            rfunction_t  inner;
            constraint_t c;
            std::string  params;
            switch (ikind)
            {
            case 0: c = constraint::constant_t{r, dim}; params = vh::hexf(r) + ";" + std::to_string(dim); break;
            case 1: c = constraint::minimum_t{{r, dim}}; params = vh::hexf(r) + ";" + std::to_string(dim); break;
            case 2: c = constraint::maximum_t{{r, dim}}; params = vh::hexf(r) + ";" + std::to_string(dim); break;
            case 3: c = constraint::euclidean_ball_equality_t{{origin, radius}}; params = fl(tovec(origin)) + ";" + vh::hexf(radius); break;
            case 4: c = constraint::euclidean_ball_inequality_t{{origin, radius}}; params = fl(tovec(origin)) + ";" + vh::hexf(radius); break;
            case 5: c = constraint::linear_equality_t{{q, r}}; params = fl(tovec(q)) + ";" + vh::hexf(r); break;
            case 6: c = constraint::linear_inequality_t{{q, r}}; params = fl(tovec(q)) + ";" + vh::hexf(r); break;
            case 7: c = constraint::quadratic_equality_t{{P, q, r}}; params = fl(tovec(P)) + ";" + fl(tovec(q)) + ";" + vh::hexf(r); break;
            case 8: c = constraint::quadratic_inequality_t{{P, q, r}}; params = fl(tovec(P)) + ";" + fl(tovec(q)) + ";" + vh::hexf(r); break;
            default:
            {
                const auto ids = function_t::all().ids();
                const auto id  = ids[static_cast<size_t>(rng.range(0, static_cast<int64_t>(ids.size()) - 1))];
                inner          = function_t::all().get(id)->make(n, 11);
                params         = id + ";" + std::to_string(inner->size());
                if (ikind == 9) c = constraint::functional_equality_t{*inner};
                else c = constraint::functional_inequality_t{*inner};
            }
            }
            const auto size = inner ? inner->size() : n;
            obj_t      o;
            o.family = std::string("cons:") + kinds[ikind] + (nonsym ? "(ns)" : "");
            o.name   = o.family + "(" + params + ")[" + std::to_string(size) + "D]";
            o.n      = static_cast<int>(size);
            o.convex = ::nano::convex(c);
            o.smooth = ::nano::smooth(c);
            o.mu     = ::nano::strong_convexity(c);
            o.extra  = 64.0 * static_cast<double>(size) * static_cast<double>(size);
            const constraint_t* pc = &c;
            o.eval = [pc](const vec& x, vec* g)
            {
                vector_t X(static_cast<tensor_size_t>(x.size()));
                for (tensor_size_t i = 0; i < X.size(); ++i) X(i) = x[static_cast<size_t>(i)];
                if (g)
                {
                    vector_t G(X.size());
                    G.full(std::nan(""));
                    const auto fx = ::nano::vgrad(*pc, X, G);
                    *g            = tovec(G);
                    return fx;
                }
                return ::nano::vgrad(*pc, X);
            };
            // declared strong convexity of a convex quadratic is the smallest eigenvalue (computed numerically)
            check_object(rng, o, g_thorough ? 300 : 80);
            if (ikind <= 6)
            {
                for (int s = 0; s < 2; ++s)
                {
                    auto x = draw_point(rng, o, 4.0, nullptr);
                    if (dyad)
                        for (auto& v : x) v = std::round(v * 8.0) / 8.0;
                    vec        g(x.size());
                    const auto fx = o.eval(x, &g);
                    out(std::string("CN ") + kinds[ikind] + " " + std::to_string(size) + " | " + params + " | " + fl(x) + " = " + vh::hexf(fx) + " | " + fl(g));
                }
            }
        }
    }
}

// ---------------------------------------------------------------------------------------------------------------------
// D. machine-learning objectives over random datasets
// ---------------------------------------------------------------------------------------------------------------------
class mem_datasource_t final : public datasource_t
{
public:
    mem_datasource_t(tensor_size_t samples, tensor_size_t isize, tensor_size_t tsize, std::vector<vec> inputs, std::vector<vec> targets)
        : datasource_t("c06-mem")
        , m_samples(samples)
        , m_isize(isize)
        , m_tsize(tsize)
        , m_inputs(std::move(inputs))
        , m_targets(std::move(targets))
    {
    }
    rdatasource_t clone() const override { return std::make_unique<mem_datasource_t>(*this); }

private:
    void do_load() override
    {
        const auto features = features_t{feature_t{"inputs"}.scalar(feature_type::float64, make_dims(m_isize, 1, 1)),
                                         feature_t{"target"}.scalar(feature_type::float64, make_dims(m_tsize, 1, 1))};
        resize(m_samples, features, 1U);
        tensor3d_t in(make_dims(m_isize, 1, 1)), tg(make_dims(m_tsize, 1, 1));
        for (tensor_size_t s = 0; s < m_samples; ++s)
        {
            for (tensor_size_t i = 0; i < m_isize; ++i) in(i) = m_inputs[static_cast<size_t>(s)][static_cast<size_t>(i)];
            for (tensor_size_t i = 0; i < m_tsize; ++i) tg(i) = m_targets[static_cast<size_t>(s)][static_cast<size_t>(i)];
            set(s, 0, in);
            set(s, 1, tg);
        }
    }
    tensor_size_t    m_samples, m_isize, m_tsize;
    std::vector<vec> m_inputs, m_targets;
};

struct data_t
{
    tensor_size_t                     n, isize, tsize;
    std::vector<vec>                  inputs, targets;
    std::unique_ptr<mem_datasource_t> source;
    std::unique_ptr<dataset_t>        dataset;
    std::string                       desc;
};

data_t make_data(vh::rng_t& rng, lkind kind, size_t threads)
{
    data_t d;
    d.n     = static_cast<tensor_size_t>(rng.range(3, 24));
    d.isize = static_cast<tensor_size_t>(rng.range(1, 4));
    d.tsize = static_cast<tensor_size_t>(rng.range(1, 3));
    for (tensor_size_t s = 0; s < d.n; ++s)
    {
        vec in(static_cast<size_t>(d.isize));
        for (auto& v : in) v = std::round((4.0 * rng.unit() - 2.0) * 16.0) / 16.0;
        d.inputs.push_back(in);
        d.targets.push_back(kind == lkind::regression ? draw_target(rng, kind, static_cast<int>(d.tsize), 0)
                                                      : draw_target(rng, kind, static_cast<int>(d.tsize), static_cast<int>(rng.range(0, 11))));
        if (kind == lkind::regression)
            for (auto& v : d.targets.back()) v = std::round(v * 2.0) / 16.0; // |t| <= 4
    }
    d.source = std::make_unique<mem_datasource_t>(d.n, d.isize, d.tsize, d.inputs, d.targets);
    d.source->load();
    d.dataset = std::make_unique<dataset_t>(*d.source, threads);
    d.dataset->add<scalar_identity_generator_t>(); // a (1,1,1) feature is a plain scalar feature
    d.dataset->add<struct_identity_generator_t>();
    d.desc = "data(n=" + std::to_string(d.n) + ",isize=" + std::to_string(d.isize) + ",tsize=" + std::to_string(d.tsize) + ",inputs=";
    for (const auto& in : d.inputs) d.desc += "[" + fl(in) + "]";
    d.desc += ",targets=";
    for (const auto& t : d.targets) d.desc += "[" + fl(t) + "]";
    d.desc += ")";
    return d;
}

void ml_families(vh::rng_t& rng)
{
    const auto ids  = loss_t::all().ids();
    const int  reps = g_thorough ? 6 : 2;
    for (const auto& id : ids)
    {
        const auto loss = loss_t::all().get(id);
        const auto kind = kind_of(id);
        for (int rep = 0; rep < reps; ++rep)
        {
            const auto threads = static_cast<size_t>(rng.range(1, 2));
            auto       d       = make_data(rng, kind, threads);
            const auto all     = arange(0, d.n);
            // linear model: every combination of regularisation factors
            for (int reg = 0; reg < 4; ++reg)
            {
                const auto l1 = (reg & 1) ? std::ldexp(static_cast<double>(rng.range(1, 64)), -4) : 0.0;
                const auto l2 = (reg & 2) ? std::ldexp(static_cast<double>(rng.range(1, 64)), -4) : 0.0;
                auto       it = flatten_iterator_t{*d.dataset, all};
                it.batch(static_cast<tensor_size_t>(rng.range(2, 9)));
                it.scaling(scaling_type::none);
                const auto f = linear::function_t{it, *loss, l1, l2};
                out("SIZE ml:linear " + std::to_string(d.isize) + "," + std::to_string(d.tsize) + " = " + std::to_string(f.size()));
                auto o = wrap_function(f, "ml:linear(" + id + (l2 > 0 ? ",l2" : "") + ")",
                                       "ml:linear(loss=" + id + ",l1=" + vh::hexf(l1) + ",l2=" + vh::hexf(l2) + ",threads=" + std::to_string(threads) + "," + d.desc + ")",
                                       false);
                o.lo = -4.0;
                o.hi = +4.0;
                check_object(rng, o, g_thorough ? 100 : 30);
                if (l2 > 0 && f.convex())
                {
                    // the same objective, plain convexity only: a failure here is not explained by the declared coefficient
                    auto o0   = o;
                    o0.mu     = 0.0;
                    o0.family = "ml:linear(" + id + ")";
                    check_object(rng, o0, g_thorough ? 60 : 20);

                    // the same objective restricted to the WEIGHTS (bias fixed): l2/2 * mean(W^2) is regularised with exactly the declared
                    // coefficient l2 / (isize * tsize), so the strong-convexity inequality must hold for pairs that differ in W only --
                    // unlike pairs that move the unregularised bias (known finding, family ml:linear(<loss>,l2))
                    const auto nw = static_cast<size_t>(d.isize * d.tsize);
                    vec        bias(static_cast<size_t>(d.tsize));
                    for (auto& v : bias) v = std::round((4.0 * rng.unit() - 2.0) * 8.0) / 8.0;
                    obj_t oW  = o;
                    oW.n      = static_cast<int>(nw);
                    oW.family = "ml:linear-W(" + id + ",l2)";
                    oW.name   = "ml:linear-W(weights only, bias fixed at [" + fl(bias) + "]; parameters = [W row-major (tsize x isize), bias]; " + o.name + ")";
                    oW.center.clear();
                    const auto full = o.eval;
                    oW.eval = [full, bias, nw](const vec& w, vec* g)
                    {
                        vec x(w);
                        x.insert(x.end(), bias.begin(), bias.end());
                        if (g)
                        {
                            vec gx(x.size());
                            const auto fx = full(x, &gx);
                            g->assign(gx.begin(), gx.begin() + static_cast<std::ptrdiff_t>(nw));
                            return fx;
                        }
                        return full(x, nullptr);
                    };
                    check_object(rng, oW, g_thorough ? 60 : 20);
                }
            }
            // gradient boosting: bias, scale and per-sample gradients
            {
                auto it = targets_iterator_t{*d.dataset, all};
                it.batch(static_cast<tensor_size_t>(rng.range(2, 9)));
                it.scaling(scaling_type::none);
                const auto fb = gboost::bias_function_t{it, *loss};
                auto       ob = wrap_function(fb, "ml:gboost-bias(" + id + ")", "ml:gboost-bias(loss=" + id + "," + d.desc + ")", false);
                ob.lo = -4.0, ob.hi = +4.0;
                check_object(rng, ob, g_thorough ? 100 : 30);

                const auto groups = static_cast<tensor_size_t>(rng.range(1, 3));
                cluster_t  cluster(d.n, groups);
                std::string cdesc;
                for (tensor_size_t s = 0; s < d.n; ++s)
                {
                    const auto grp = rng.range(-1, groups - 1);
                    if (grp >= 0) cluster.assign(s, grp);
                    cdesc += std::to_string(grp) + ",";
                }
                tensor4d_t so(cat_dims(d.n, d.dataset->target_dims())), wo(cat_dims(d.n, d.dataset->target_dims()));
                for (tensor_size_t i = 0; i < so.size(); ++i)
                {
                    so(i) = std::round((2.0 * rng.unit() - 1.0) * 32.0) / 32.0;
                    wo(i) = std::round((2.0 * rng.unit() - 1.0) * 32.0) / 32.0;
                }
                const auto fs = gboost::scale_function_t{it, *loss, cluster, so, wo};
                auto       os = wrap_function(fs, "ml:gboost-scale(" + id + ")",
                                              "ml:gboost-scale(loss=" + id + ",groups=" + cdesc + " soutputs=[" + fl(tovec(so)) + "] woutputs=[" + fl(tovec(wo)) + "]," + d.desc + ")", false);
                os.lo = -4.0, os.hi = +4.0;
                check_object(rng, os, g_thorough ? 100 : 30);

                const auto fg = gboost::grads_function_t{it, *loss};
                auto       og = wrap_function(fg, "ml:gboost-grads(" + id + ")", "ml:gboost-grads(loss=" + id + "," + d.desc + ")", false);
                og.lo = -4.0, og.hi = +4.0;
                check_object(rng, og, g_thorough ? 60 : 20);
            }
            // quadratic surrogate: fit objective (with this loss) and the surrogate itself
            {
                const auto np = static_cast<tensor_size_t>(rng.range(1, 3));
                const auto ns = static_cast<tensor_size_t>(rng.range(2, 12));
                tensor2d_t p(ns, np);
                tensor1d_t y(ns);
                for (tensor_size_t i = 0; i < p.size(); ++i) p(i) = std::round((2.0 * rng.unit() - 1.0) * 16.0) / 16.0;
                for (tensor_size_t i = 0; i < ns; ++i) y(i) = (kind == lkind::regression) ? std::round((4.0 * rng.unit() - 2.0) * 16.0) / 16.0 : (rng.range(0, 1) ? 1.0 : -1.0);
                const auto ff = quadratic_surrogate_fit_t{*loss, p, y};
                out("SIZE ml:surrogate-fit " + std::to_string(np) + " = " + std::to_string(ff.size()));
                auto of = wrap_function(ff, "ml:surrogate-fit(" + id + ")", "ml:surrogate-fit(loss=" + id + ",p=[" + fl(tovec(p)) + "],y=[" + fl(tovec(y)) + "])", true);
                of.lo = -4.0, of.hi = +4.0;
                check_object(rng, of, g_thorough ? 100 : 30);
                vector_t model(ff.size());
                for (tensor_size_t i = 0; i < model.size(); ++i) model(i) = std::round((2.0 * rng.unit() - 1.0) * 16.0) / 16.0;
                const auto fq = quadratic_surrogate_t{model};
                out("SIZE ml:surrogate " + std::to_string(model.size()) + " = " + std::to_string(fq.size()));
                auto oq = wrap_function(fq, "ml:surrogate", "ml:surrogate(model=[" + fl(tovec(model)) + "])", true);
                check_object(rng, oq, g_thorough ? 100 : 30);
            }
        }
    }
}

// ---------------------------------------------------------------------------------------------------------------------
// E. directed probes of the declarations DESIGN.md asks to examine first (reported, classified by the check)
// ---------------------------------------------------------------------------------------------------------------------
void probes()
{
    // (1) linear::function_t declares strong convexity l2 / (isize * tsize) but does not regularise the bias:
    //     with a piecewise-linear loss the objective is affine along the bias wherever no residual changes sign.
    {
        std::vector<vec> inputs{{0.0}, {1.0}, {2.0}}, targets{{8.0}, {9.0}, {10.0}};
        mem_datasource_t source(3, 1, 1, inputs, targets);
        source.load();
        dataset_t dataset(source, 1U);
        dataset.add<scalar_identity_generator_t>(); // a (1,1,1) feature is a plain scalar feature
        dataset.add<struct_identity_generator_t>();
        auto it = flatten_iterator_t{dataset, arange(0, 3)};
        it.scaling(scaling_type::none);
        for (const char* id : {"mae", "s-hinge"})
        {
            const auto loss = loss_t::all().get(id);
            const auto f    = linear::function_t{it, *loss, 0.0, 1.0};
            vector_t   x(2), z(2), g(2);
            x(0) = 0.0, x(1) = 0.0; // W = 0, b = 0
            z(0) = 0.0, z(1) = 1.0; // W = 0, b = 1: only the bias moves
            if (std::string(id) == "s-hinge") z(1) = -1.0;
            const auto fx = f.vgrad(x, g), fz = f.vgrad(z);
            const auto mu = f.strong_convexity();
            const auto rhs = fx + g.dot(z - x) + 0.5 * mu * (z - x).squaredNorm();
            out(std::string("PROBE linear-strong-convexity | loss=") + id + " l2=1 inputs=[0],[1],[2] targets=[8],[9],[10] x=(W=0,b=0) z=(W=0,b=" +
                vh::hexf(z(1)) + ") | mu=" + vh::hexf(mu) + " f(x)=" + vh::hexf(fx) + " g=[" + vh::hexf(g(0)) + "," + vh::hexf(g(1)) + "] f(z)=" + vh::hexf(fz) +
                " f(x)+g.(z-x)+mu/2|z-x|^2=" + vh::hexf(rhs) + " | " + ((fz >= rhs - 1e-12) ? "holds" : "violated"));
        }
    }
    // (1b) the declared coefficient l2 / (isize * tsize) IS the true one along the weights: two targets, loss affine between x and z
    //      (all residuals keep their sign), so f(z) - f(x) - g.(z-x) = l2/2 * mean((W_z - W_x)^2) = mu/2 |z-x|^2 exactly
    {
        std::vector<vec> inputs{{0.0}, {1.0}, {2.0}}, targets{{8.0, 8.0}, {9.0, 9.0}, {10.0, 10.0}};
        mem_datasource_t source(3, 1, 2, inputs, targets);
        source.load();
        dataset_t dataset(source, 1U);
        dataset.add<scalar_identity_generator_t>();
        dataset.add<struct_identity_generator_t>();
        auto it = flatten_iterator_t{dataset, arange(0, 3)};
        it.scaling(scaling_type::none);
        const auto loss = loss_t::all().get("mae");
        const auto f    = linear::function_t{it, *loss, 0.0, 2.0};
        vector_t   x(4), z(4), g(4);
        x.full(0.0);
        z.full(0.0);
        for (int k = 0; k < 2; ++k)
        {
            z.full(0.0);
            z(k) = 0.5; // one weight moves, the bias (last two parameters) does not
            const auto fx = f.vgrad(x, g), fz = f.vgrad(z);
            const auto mu = f.strong_convexity();
            const auto rhs = fx + g.dot(z - x) + 0.5 * mu * (z - x).squaredNorm();
            out(std::string("PROBE linear-weights-strong-convexity | loss=mae l1=0 l2=2 isize=1 tsize=2 inputs=[0],[1],[2] targets=[8,8],[9,9],[10,10] x=(W=0,b=0) z=(W[") +
                std::to_string(k) + "]=0.5,b=0) | mu=" + vh::hexf(mu) + " f(x)=" + vh::hexf(fx) + " g=[" + fl(tovec(g)) + "] f(z)=" + vh::hexf(fz) +
                " f(x)+g.(z-x)+mu/2|z-x|^2=" + vh::hexf(rhs) + " | " + ((fz >= rhs - 1e-12) ? "holds" : "violated"));
        }
    }
    // (3) quadratic constraints: convexity / strong convexity must be decided by the SYMMETRIC part of P (fixed in /repo 3feb922;
    //     before, the eigenvalues of P itself were used). P = [[1,4],[0,1]]: eigenvalues 1, 1 but 1/2 x'Px is indefinite;
    //     P = [[2,1],[0,2]]: eigenvalues 2, 2 but the form is only 1.5-strongly convex; P = [[1,3],[-3,1]]: complex eigenvalues
    //     1 +- 3i, symmetric part = identity
    {
        struct qp_t
        {
            const char* name;
            double      p00, p01, p10, p11, x0, x1, z0, z1;
        };
        const qp_t qps[] = {{"[[1,4],[0,1]]", 1, 4, 0, 1, 1, -1, 0, 0},   {"[[1,4],[0,1]]", 1, 4, 0, 1, 0, 0, 1, -1},
                            {"[[2,1],[0,2]]", 2, 1, 0, 2, 0, 0, 1, -1},   {"[[2,1],[0,2]]", 2, 1, 0, 2, 0.5, 0.25, -1, 1},
                            {"[[1,3],[-3,1]]", 1, 3, -3, 1, 0, 0, 1, 1},  {"[[0.25,-8],[0,0.5]]", 0.25, -8, 0, 0.5, 1, 1, 0, 0}};
        for (const auto& qp : qps)
        {
            matrix_t P(2, 2);
            P(0, 0) = qp.p00, P(0, 1) = qp.p01, P(1, 0) = qp.p10, P(1, 1) = qp.p11;
            vector_t q(2), x(2), z(2), g(2);
            q.full(0.0);
            x(0) = qp.x0, x(1) = qp.x1;
            z(0) = qp.z0, z(1) = qp.z1;
            for (int eq = 0; eq < 2; ++eq)
            {
                const constraint_t c = eq ? constraint_t{constraint::quadratic_equality_t{{P, q, 0.0}}} : constraint_t{constraint::quadratic_inequality_t{{P, q, 0.0}}};
                const auto fx = ::nano::vgrad(c, x, g), fz = ::nano::vgrad(c, z);
                const auto mu  = ::nano::strong_convexity(c);
                const auto rhs = fx + g.dot(z - x) + 0.5 * mu * (z - x).squaredNorm();
                const bool declared = ::nano::convex(c);
                out(std::string("PROBE quadratic-nonsymmetric | ") + (eq ? "quadratic-eq" : "quadratic-ineq") + " P=" + qp.name + " q=0 r=0 x=(" + vh::hexf(qp.x0) + "," +
                    vh::hexf(qp.x1) + ") z=(" + vh::hexf(qp.z0) + "," + vh::hexf(qp.z1) + ") | convex=" + (declared ? "1" : "0") + " mu=" + vh::hexf(mu) + " f(x)=" + vh::hexf(fx) +
                    " g=[" + vh::hexf(g(0)) + "," + vh::hexf(g(1)) + "] f(z)=" + vh::hexf(fz) + " f(x)+g.(z-x)+mu/2|z-x|^2=" + vh::hexf(rhs) + " | " +
                    ((!declared || fz >= rhs - 1e-12) ? "holds" : "violated"));
            }
        }
    }
    // (2) chained CB3 (fixed in /repo 114b02b: `>=`): on an exact tie v1 == v2 > v3 the gradient of an ACTIVE piece must be returned
    //     (before: `if (v1 > max(v2, v3)) ... else if (v2 > max(v1, v3)) ... else <gradient of v3>` returned the inactive v3).
    //     Exact ties in double arithmetic: (2,-3): 25 = 25; (3,-19): 442 = 442; (2.5,-8.703125): 114.806884765625 on both sides
    for (const char* id : {"chained_cb3I", "chained_cb3II"})
    {
        const double ties[][2] = {{2.0, -3.0}, {3.0, -19.0}, {2.5, -8.703125}};
        for (const auto& tie : ties)
            for (int dims = 2; dims <= 3; ++dims)
            {
                // cb3II compares the SUMS: a third coordinate would break the tie, cb3I works pair by pair
                if (dims == 3 && std::string(id) == "chained_cb3II") continue;
                const auto f = function_t::all().get(id)->make(dims, 1);
                vector_t   x(dims), g(dims);
                x(0) = tie[0], x(1) = tie[1];
                if (dims == 3) x(2) = 0.5;
                const auto fx = f->vgrad(x, g);
                for (int k = 0; k < 2 * dims; ++k)
                {
                    vector_t z = x;
                    z(k / 2) += (k % 2) ? -1.0 : +1.0;
                    const auto fz  = f->vgrad(z);
                    const auto rhs = fx + g.dot(z - x);
                    out(std::string("PROBE cb3-tie | fn=") + id + "[" + std::to_string(dims) + "D] x=[" + fl(tovec(x)) + "] z=[" + fl(tovec(z)) + "] | convex=" +
                        (f->convex() ? "1" : "0") + " f(x)=" + vh::hexf(fx) + " g=[" + fl(tovec(g)) + "] f(z)=" + vh::hexf(fz) + " f(x)+g.(z-x)=" + vh::hexf(rhs) + " | " +
                        ((!f->convex() || fz >= rhs - 1e-9 * (1.0 + std::fabs(fz))) ? "holds" : "violated"));
                }
            }
    }
}

// ---------------------------------------------------------------------------------------------------------------------
// F. extension stage (C06_Convex2): model-tie lines + direct oracles for the clauses proved in coq/theories/C06_Convex2.v
//    lines:  QF n | a | B | Aobs | x = f | g            fn:quadratic, a / B re-drawn as the constructor draws them, Aobs read off the gradient
//            CQ kind n | P | q | r | x = f | g          quadratic constraint (P symmetric psd / indefinite / non-symmetric)
//            KK n | K | offset | x = f | g              fn:kinks (K re-drawn as the constructor draws it)
//            GE n | a | A | x = f | g                   fn:geometric-optimization (interval lemmas)
//            EN loss a1 a2 n | inputs | targets | bias | x = f | g     elastic-net objectives (synthetic data re-drawn)
//            LM loss l1 l2 isize tsize | inputs | targets | x = f | g  linear::function_t
//            GB loss tsize | targets | x = f | g        gboost bias;   GS loss tsize groups | grp | so | wo | targets | x = f | g   gboost scale
//            FN trid|rotated-ellipsoid|maxq|maxhilb n | x = f | g       more points, aimed at exact ties
//    FAIL clauses: expansion (exact second-order remainder), active-piece (tie rule), classnll-softmax (gradient / value formula)
// ---------------------------------------------------------------------------------------------------------------------
std::string fm(const matrix_t& M)
{
    std::string s;
    for (tensor_size_t i = 0; i < M.rows(); ++i)
    {
        if (i) s += ";";
        vec row(static_cast<size_t>(M.cols()));
        for (tensor_size_t j = 0; j < M.cols(); ++j) row[static_cast<size_t>(j)] = M(i, j);
        s += fl(row);
    }
    return s;
}
std::string frows(const std::vector<vec>& rows)
{
    std::string s;
    for (size_t i = 0; i < rows.size(); ++i) s += (i ? ";" : "") + fl(rows[i]);
    return s;
}
vec dyadic_point(vh::rng_t& rng, int n, double radius, double grid)
{
    vec x(static_cast<size_t>(n));
    for (auto& v : x) v = std::round(radius * (2.0 * rng.unit() - 1.0) / grid) * grid;
    return x;
}
// f(z) - f(x) - g(x).(z-x) must equal `rem` (exact second-order expansion): tolerance = rounding of the terms
void check_expansion(const obj_t& o, const vec& x, const vec& z, double rem, const std::string& what)
{
    vec        g(x.size());
    const auto fx = o.eval(x, &g), fz = o.eval(z, nullptr);
    g_evals += 2;
    double lin = 0, alin = 0;
    for (size_t i = 0; i < x.size(); ++i)
    {
        lin += g[i] * (z[i] - x[i]);
        alin += std::fabs(g[i] * (z[i] - x[i]));
    }
    const auto lhs = fz - fx - lin;
    const auto tol = 512 * EPS * (mag(o, x, fx, g) + std::fabs(fz) + alin + std::fabs(rem)) * (1.0 + static_cast<double>(x.size()));
    if (!(std::fabs(lhs - rem) <= tol))
        fail("expansion", o.name, o.family,
             what + ": f(z)-f(x)-g.(z-x)=" + vh::hexf(lhs) + " remainder=" + vh::hexf(rem) + " tol=" + vh::hexf(tol) + " x=[" + fl(x) + "] z=[" + fl(z) + "] g=[" + fl(g) + "]");
}
void tie_check(const obj_t& o, const vec& x, size_t want_idx, const std::string& what)
{
    // on an exact tie the returned vector must be the gradient of the FIRST largest piece and a sub-gradient: f(x +- e_k) >= f(x) +- g_k
    vec        g(x.size());
    const auto fx = o.eval(x, &g);
    for (size_t k = 0; k < x.size(); ++k)
        for (int sgn = -1; sgn <= 1; sgn += 2)
        {
            vec z = x;
            z[k] += sgn;
            const auto fz = o.eval(z, nullptr);
            if (!(fz >= fx + sgn * g[k] - 1e-9 * (1.0 + std::fabs(fz))))
                fail("active-piece", o.name, o.family, what + ": not a sub-gradient on the tie x=[" + fl(x) + "] z=[" + fl(z) + "] g=[" + fl(g) + "] fx=" + vh::hexf(fx) + " fz=" + vh::hexf(fz));
        }
    if (want_idx < x.size())
        for (size_t k = 0; k < x.size(); ++k)
            if ((k == want_idx) != (g[k] != 0.0))
            {
                fail("active-piece", o.name, o.family, what + ": expected the gradient of piece " + std::to_string(want_idx) + " x=[" + fl(x) + "] g=[" + fl(g) + "]");
                break;
            }
    g_evals += 1 + 2 * static_cast<long>(x.size());
}

void ext_functions(vh::rng_t& rng)
{
    const std::vector<tensor_size_t> dims = g_thorough ? std::vector<tensor_size_t>{1, 2, 3, 4, 5, 6, 7, 8} : std::vector<tensor_size_t>{1, 2, 3, 5};
    const int reps = g_thorough ? 8 : 3;
    for (const auto d : dims)
    {
        const auto n = static_cast<int>(d);
        // ---- trid, rotated ellipsoid: exact expansion with the remainder of the theorem ----
        for (const char* id : {"trid", "rotated-ellipsoid"})
        {
            const auto f = function_t::all().get(id)->make(d, 1);
            auto       o = wrap_function(*f, std::string("fn:") + id, std::string("fn:") + id + "[" + std::to_string(d) + "D]", true);
            for (int r = 0; r < 4 * reps; ++r)
            {
                const auto x = (r % 2) ? dyadic_point(rng, n, 8.0, 0.25) : draw_point(rng, o, 10.0, nullptr);
                const auto z = (r % 2) ? dyadic_point(rng, n, 8.0, 0.25) : draw_point(rng, o, (r % 4 == 0) ? 1e-2 : 10.0, &x);
                double     rem = 0;
                if (std::string(id) == "trid")
                {
                    for (int i = 0; i < n; ++i) rem += (z[i] - x[i]) * (z[i] - x[i]);
                    for (int i = 0; i + 1 < n; ++i) rem -= (z[i] - x[i]) * (z[i + 1] - x[i + 1]);
                }
                else
                {
                    double p = 0;
                    for (int i = 0; i < n; ++i)
                    {
                        p += z[i] - x[i];
                        rem += p * p;
                    }
                }
                check_expansion(o, x, z, rem, std::string(id) + " remainder");
                if (r < reps)
                {
                    vec        g(x.size());
                    const auto fx = o.eval(x, &g);
                    out(std::string("FN ") + id + " " + std::to_string(n) + " | " + fl(x) + " = " + vh::hexf(fx) + " | " + fl(g));
                }
            }
        }
        // ---- maxq: exact ties |x_i| = |x_j| (dyadic): first maximiser ----
        {
            const auto f = function_t::all().get("maxq")->make(d, 1);
            auto       o = wrap_function(*f, "fn:maxq", "fn:maxq[" + std::to_string(d) + "D]", true);
            for (int r = 0; r < 4 * reps; ++r)
            {
                auto       x  = dyadic_point(rng, n, 4.0, 0.5);
                double     mx = 0;
                for (auto v : x) mx = std::max(mx, std::fabs(v));
                // make a tie: another coordinate takes +-max
                const auto j = static_cast<size_t>(rng.range(0, n - 1));
                x[j]         = (rng.range(0, 1) ? 1.0 : -1.0) * mx;
                size_t first = 0;
                for (size_t i = 0; i < x.size(); ++i)
                    if (std::fabs(x[i]) == mx)
                    {
                        first = i;
                        break;
                    }
                tie_check(o, x, mx > 0 ? first : x.size(), "maxq");
                vec        g(x.size());
                const auto fx = o.eval(x, &g);
                if (r < 2 * reps) out("FN maxq " + std::to_string(n) + " | " + fl(x) + " = " + vh::hexf(fx) + " | " + fl(g));
            }
        }
        // ---- maxhilb: small dyadics, x = 0, sign flips ----
        {
            const auto f = function_t::all().get("maxhilb")->make(d, 1);
            auto       o = wrap_function(*f, "fn:maxhilb", "fn:maxhilb[" + std::to_string(d) + "D]", true);
            for (int r = 0; r < 3 * reps; ++r)
            {
                auto x = (r == 0) ? vec(static_cast<size_t>(n), 0.0) : dyadic_point(rng, n, 4.0, (r % 2) ? 0.5 : 0.0625);
                if (r == 1) x = vec(static_cast<size_t>(n), -1.0);
                for (auto& v : x) v += 0.0; // no negative zeros: sign(-0.0) of the source is -1, any sign is a sub-gradient there
                tie_check(o, x, x.size(), "maxhilb");
                vec        g(x.size());
                const auto fx = o.eval(x, &g);
                out("FN maxhilb " + std::to_string(n) + " | " + fl(x) + " = " + vh::hexf(fx) + " | " + fl(g));
            }
        }
        // ---- fn:quadratic: a, B as the constructor draws them; A observed through the gradient ----
        {
            const auto f = function_t::all().get("quadratic")->make(d, 1);
            auto       o = wrap_function(*f, "fn:quadratic", "fn:quadratic[" + std::to_string(d) + "D]", true);
            const auto a = make_random_vector<scalar_t>(d, -1.0, +1.0, seed_t{42});
            const auto B = make_random_matrix<scalar_t>(d, d, -1.0, +1.0, seed_t{42});
            vec        zero(static_cast<size_t>(n), 0.0), g0(zero.size());
            o.eval(zero, &g0);
            matrix_t Aobs(d, d);
            for (int j = 0; j < n; ++j)
            {
                vec e = zero, gj(zero.size());
                e[static_cast<size_t>(j)] = 1.0;
                o.eval(e, &gj);
                for (int i = 0; i < n; ++i) Aobs(i, j) = gj[static_cast<size_t>(i)] - g0[static_cast<size_t>(i)];
            }
            for (int r = 0; r < 2 * reps; ++r)
            {
                const auto x = (r % 2) ? dyadic_point(rng, n, 4.0, 0.25) : draw_point(rng, o, 10.0, nullptr);
                const auto z = (r % 2) ? dyadic_point(rng, n, 4.0, 0.25) : draw_point(rng, o, 10.0, nullptr);
                double     rem = 0;
                for (int i = 0; i < n; ++i)
                    for (int j = 0; j < n; ++j) rem += 0.5 * (z[i] - x[i]) * Aobs(i, j) * (z[j] - x[j]);
                check_expansion(o, x, z, rem, "1/2 d'Ad with A read off the gradient");
                vec        g(x.size());
                const auto fx = o.eval(x, &g);
                if (r < reps)
                    out("QF " + std::to_string(n) + " | " + fl(tovec(a)) + " | " + fm(B) + " | " + fm(Aobs) + " | " + fl(x) + " = " + vh::hexf(fx) + " | " + fl(g));
            }
        }
        // ---- fn:kinks ----
        {
            const auto f    = function_t::all().get("kinks")->make(d, 1);
            auto       o    = wrap_function(*f, "fn:kinks", "fn:kinks[" + std::to_string(d) + "D]", true);
            const auto rows = std::max(tensor_size_t(1), static_cast<tensor_size_t>(std::sqrt(d)));
            const auto K    = make_random_matrix<scalar_t>(rows, d, -1.0, +1.0, seed_t{42U});
            double     off  = 0; // sum over the columns of the distances to the column median (lower median of an even count: see below)
            for (tensor_size_t j = 0; j < d; ++j)
            {
                vec col(static_cast<size_t>(rows));
                for (tensor_size_t i = 0; i < rows; ++i) col[static_cast<size_t>(i)] = K(i, j);
                std::sort(col.begin(), col.end());
                const auto med = (col.size() % 2) ? col[col.size() / 2] : 0.5 * (col[col.size() / 2 - 1] + col[col.size() / 2]);
                for (auto v : col) off += std::fabs(v - med);
            }
            for (int r = 0; r < reps; ++r)
            {
                auto x = draw_point(rng, o, 2.0, nullptr);
                if (r % 2) // exactly on kinks
                    for (int j = 0; j < n; ++j) x[static_cast<size_t>(j)] = K(rng.range(0, rows - 1), j);
                vec        g(x.size());
                const auto fx = o.eval(x, &g);
                out("KK " + std::to_string(n) + " | " + fm(K) + " | " + vh::hexf(off) + " | " + fl(x) + " = " + vh::hexf(fx) + " | " + fl(g));
            }
        }
        // ---- fn:geometric-optimization ----
        if (d <= 4)
        {
            const tensor_size_t summands = 3;
            const auto f = function_t::all().get("geometric-optimization")->make(d, summands);
            auto       o = wrap_function(*f, "fn:geometric-optimization", "fn:geometric-optimization[" + std::to_string(d) + "D,3]", true);
            const auto a = make_random_vector<scalar_t>(summands, -1.0, +1.0, seed_t{42});
            const auto A = make_random_matrix<scalar_t>(summands, d, -1.0 / static_cast<scalar_t>(d), +1.0 / static_cast<scalar_t>(d), seed_t{42});
            for (int r = 0; r < reps; ++r)
            {
                const auto x = (r % 2) ? dyadic_point(rng, n, 4.0, 0.25) : draw_point(rng, o, 4.0, nullptr);
                vec        g(x.size());
                const auto fx = o.eval(x, &g);
                out("GE " + std::to_string(n) + " | " + fl(tovec(a)) + " | " + fm(A) + " | " + fl(x) + " = " + vh::hexf(fx) + " | " + fl(g));
            }
        }
    }
}

void ext_constraints(vh::rng_t& rng)
{
    for (int rep = 0; rep < (g_thorough ? 40 : 12); ++rep)
    {
        const auto n     = static_cast<tensor_size_t>(rng.range(1, 5));
        const auto rnd   = [&]() { return std::round((4.0 * rng.unit() - 2.0) * 8.0) / 8.0; };
        matrix_t   P(n, n), B(n, n);
        vector_t   q(n);
        for (tensor_size_t i = 0; i < n * n; ++i) B(i) = rnd();
        for (tensor_size_t i = 0; i < n; ++i) q(i) = rnd();
        const auto mode = rep % 4; // psd, indefinite, non-symmetric, non-symmetric with a small skew part
        P.matrix() = B.matrix() * B.matrix().transpose();
        if (mode == 1)
            for (tensor_size_t i = 0; i < n; ++i) P(i, i) -= 2.0;
        if (mode >= 2)
            for (tensor_size_t i = 0; i < n; ++i)
                for (tensor_size_t j = 0; j < n; ++j) P(i, j) = (j < i) ? 0.0 : (i == j ? 0.25 + std::fabs(B(i, j)) : (mode == 2 ? 4.0 : 0.125) * B(i, j));
        const auto r = rnd();
        const bool eq = rep % 2 == 0;
        const constraint_t c = eq ? constraint_t{constraint::quadratic_equality_t{{P, q, r}}} : constraint_t{constraint::quadratic_inequality_t{{P, q, r}}};
        obj_t o;
        o.family = std::string("cons:quadratic-") + (eq ? "eq" : "ineq") + "(ext)";
        o.name   = o.family + "(" + fm(P) + ";" + fl(tovec(q)) + ";" + vh::hexf(r) + ")";
        o.n      = static_cast<int>(n);
        o.convex = ::nano::convex(c);
        o.smooth = true;
        o.mu     = ::nano::strong_convexity(c);
        o.extra  = 64.0 * static_cast<double>(n * n);
        const constraint_t* pc = &c;
        o.eval = [pc](const vec& x, vec* g)
        {
            vector_t X(static_cast<tensor_size_t>(x.size()));
            for (tensor_size_t i = 0; i < X.size(); ++i) X(i) = x[static_cast<size_t>(i)];
            if (g)
            {
                vector_t G(X.size());
                const auto fx = ::nano::vgrad(*pc, X, G);
                *g            = tovec(G);
                return fx;
            }
            return ::nano::vgrad(*pc, X);
        };
        for (int s = 0; s < 3; ++s)
        {
            const auto x = dyadic_point(rng, static_cast<int>(n), 4.0, 0.125);
            const auto z = dyadic_point(rng, static_cast<int>(n), 4.0, 0.125);
            double     rem = 0;
            for (tensor_size_t i = 0; i < n; ++i)
                for (tensor_size_t j = 0; j < n; ++j) rem += 0.5 * (z[static_cast<size_t>(i)] - x[static_cast<size_t>(i)]) * P(i, j) * (z[static_cast<size_t>(j)] - x[static_cast<size_t>(j)]);
            check_expansion(o, x, z, rem, "1/2 d'Pd");
            // the declared coefficient must bound the Rayleigh quotient of THIS direction from below (clause `<->` of the theorem)
            double dd = 0;
            for (size_t i = 0; i < x.size(); ++i) dd += (z[i] - x[i]) * (z[i] - x[i]);
            if (o.convex && !(2.0 * rem >= o.mu * dd - 1e-9 * (1.0 + std::fabs(rem) + dd * std::fabs(o.mu))))
                fail("strong-convexity", o.name, o.family, "Rayleigh quotient below the declared coefficient: d'Pd=" + vh::hexf(2.0 * rem) + " mu=" + vh::hexf(o.mu) + " |d|^2=" + vh::hexf(dd) + " x=[" + fl(x) + "] z=[" + fl(z) + "]");
            vec        g(x.size());
            const auto fx = o.eval(x, &g);
            if (s == 0) out(std::string("CQ ") + (eq ? "eq " : "ineq ") + std::to_string(n) + " | " + fm(P) + " | " + fl(tovec(q)) + " | " + vh::hexf(r) + " | " + fl(x) + " = " + vh::hexf(fx) + " | " + fl(g));
        }
    }
}

// class-NLL: gradient == soft-max - indicator and value == log-sum-exp - posum within eps, computed independently (long double)
void ext_classnll(vh::rng_t& rng)
{
    const auto loss = loss_t::all().get("s-classnll");
    if (!loss) return;
    for (int rep = 0; rep < (g_thorough ? 400 : 100); ++rep)
    {
        const int k = static_cast<int>(rng.range(1, 6));
        const auto t = draw_target(rng, rep % 3 == 0 ? lkind::mclass : lkind::sclass, k, static_cast<int>(rng.range(0, 11)));
        const auto o = draw_output(rng, t, lkind::sclass, static_cast<int>(rng.range(0, 7)));
        const auto r = loss_eval(*loss, t, o);
        long double m = o[0], S = 0, pos = 0;
        for (auto v : o) m = std::max<long double>(m, v);
        for (auto v : o) S += std::exp(static_cast<long double>(v) - m);
        for (int i = 0; i < k; ++i) pos += t[static_cast<size_t>(i)] > 0 ? o[static_cast<size_t>(i)] : 0.0;
        const long double ideal = std::log(S) + m - pos;
        const auto        sc    = 1.0 + std::fabs(static_cast<double>(m)) + std::fabs(static_cast<double>(pos));
        bool ok = static_cast<long double>(r.value) >= ideal - 64 * EPS * sc && static_cast<long double>(r.value) <= ideal + EPS + 64 * EPS * sc;
        std::string bad = ok ? "" : "value outside [lse - posum, lse - posum + eps]";
        for (int i = 0; i < k && ok; ++i)
        {
            const long double want = std::exp(static_cast<long double>(o[static_cast<size_t>(i)]) - m) / S - (t[static_cast<size_t>(i)] > 0 ? 1.0L : 0.0L);
            if (std::fabs(static_cast<double>(want - r.grad[static_cast<size_t>(i)])) > 64 * EPS)
            {
                ok  = false;
                bad = "gradient[" + std::to_string(i) + "] != softmax - indicator";
            }
        }
        ++g_loss_checks;
        if (!ok) fail("classnll-softmax", "loss:s-classnll t=[" + fl(t) + "]", "loss:s-classnll", bad + " o=[" + fl(o) + "] value=" + vh::hexf(r.value) + " g=[" + fl(r.grad) + "]");
    }
}

void ext_ml(vh::rng_t& rng)
{
    // algebraic kernels only (the model recomputes them exactly); class-NLL and the transcendental kernels are covered by the theorems through
    // `loss_convex_on` and by the direct oracles of stage D
    const char* ids[] = {"mse", "mae", "pinball", "s-hinge", "m-hinge", "s-squared-hinge", "m-squared-hinge"};
    for (const char* id : ids)
    {
        const auto loss = loss_t::all().get(id);
        if (!loss) continue;
        const auto kind = kind_of(id);
        for (int rep = 0; rep < (g_thorough ? 6 : 2); ++rep)
        {
            auto       d   = make_data(rng, kind, 1U);
            const auto all = arange(0, d.n);
            for (int reg = 0; reg < 4; ++reg)
            {
                // also zero and negative factors: the guards `> 0.0` of the source
                const auto l1 = (reg & 1) ? std::ldexp(static_cast<double>(rng.range(1, 64)), -4) : (rep % 2 ? -0.5 : 0.0);
                const auto l2 = (reg & 2) ? std::ldexp(static_cast<double>(rng.range(1, 64)), -4) : 0.0;
                auto       it = flatten_iterator_t{*d.dataset, all};
                it.batch(static_cast<tensor_size_t>(rng.range(2, 9)));
                it.scaling(scaling_type::none);
                const auto f = linear::function_t{it, *loss, l1, l2};
                auto       o = wrap_function(f, std::string("ml:linear(") + id + ")", std::string("ml:linear-ext(loss=") + id + ")", false);
                for (int s = 0; s < 2; ++s)
                {
                    const auto x = dyadic_point(rng, o.n, 2.0, 0.125);
                    vec        g(x.size());
                    const auto fx = o.eval(x, &g);
                    out(std::string("LM ") + id + " " + vh::hexf(l1) + " " + vh::hexf(l2) + " " + std::to_string(d.isize) + " " + std::to_string(d.tsize) + " | " + frows(d.inputs) +
                        " | " + frows(d.targets) + " | " + fl(x) + " = " + vh::hexf(fx) + " | " + fl(g));
                }
            }
            {
                auto it = targets_iterator_t{*d.dataset, all};
                it.batch(static_cast<tensor_size_t>(rng.range(2, 9)));
                it.scaling(scaling_type::none);
                const auto fb = gboost::bias_function_t{it, *loss};
                auto       ob = wrap_function(fb, "ml:gboost-bias", "ml:gboost-bias-ext", false);
                const auto xb = dyadic_point(rng, ob.n, 2.0, 0.125);
                vec        gb(xb.size());
                const auto fxb = ob.eval(xb, &gb);
                out(std::string("GB ") + id + " " + std::to_string(d.tsize) + " | " + frows(d.targets) + " | " + fl(xb) + " = " + vh::hexf(fxb) + " | " + fl(gb));

                const auto groups = static_cast<tensor_size_t>(rng.range(1, 3));
                cluster_t  cluster(d.n, groups);
                vec        grp(static_cast<size_t>(d.n));
                for (tensor_size_t s = 0; s < d.n; ++s)
                {
                    const auto gi = rng.range(-1, groups - 1);
                    if (gi >= 0) cluster.assign(s, gi);
                    grp[static_cast<size_t>(s)] = static_cast<double>(gi);
                }
                tensor4d_t       so(cat_dims(d.n, d.dataset->target_dims())), wo(cat_dims(d.n, d.dataset->target_dims()));
                std::vector<vec> sor, wor;
                for (tensor_size_t s = 0; s < d.n; ++s)
                {
                    vec a(static_cast<size_t>(d.tsize)), b(static_cast<size_t>(d.tsize));
                    for (tensor_size_t k = 0; k < d.tsize; ++k)
                    {
                        a[static_cast<size_t>(k)] = so(s * d.tsize + k) = std::round((2.0 * rng.unit() - 1.0) * 32.0) / 32.0;
                        b[static_cast<size_t>(k)] = wo(s * d.tsize + k) = std::round((2.0 * rng.unit() - 1.0) * 32.0) / 32.0;
                    }
                    sor.push_back(a);
                    wor.push_back(b);
                }
                const auto fs = gboost::scale_function_t{it, *loss, cluster, so, wo};
                auto       os = wrap_function(fs, "ml:gboost-scale", "ml:gboost-scale-ext", false);
                const auto xs = dyadic_point(rng, os.n, 2.0, 0.125);
                vec        gs(xs.size());
                const auto fxs = os.eval(xs, &gs);
                out(std::string("GS ") + id + " " + std::to_string(d.tsize) + " " + std::to_string(groups) + " | " + fl(grp) + " | " + frows(sor) + " | " + frows(wor) + " | " +
                    frows(d.targets) + " | " + fl(xs) + " = " + vh::hexf(fxs) + " | " + fl(gs));
            }
        }
    }
}

// elastic-net objectives: the synthetic data re-drawn as the constructor draws it (17 summands, 1 output, max(dims, 2) inputs)
void ext_enet(vh::rng_t& rng)
{
    for (const auto& id : function_t::all().ids())
    {
        const auto plus = id.find('+');
        if (plus == std::string::npos) continue;
        const auto lname = id.substr(0, plus);
        if (lname != "mse" && lname != "mae" && lname != "hinge") continue; // algebraic kernels (logistic / cauchy: theorems + direct oracles)
        double a1 = 0, a2 = 0;
        const auto br = id.find('[');
        const auto args = id.substr(br + 1, id.size() - br - 2);
        if (id.find("ridge") != std::string::npos) a2 = std::strtod(args.c_str(), nullptr);
        else if (id.find("lasso") != std::string::npos) a1 = std::strtod(args.c_str(), nullptr);
        else
        {
            a1 = std::strtod(args.c_str(), nullptr);
            a2 = std::strtod(args.substr(args.find(',') + 1).c_str(), nullptr);
        }
        for (const tensor_size_t d : {2, 3})
        {
            const auto f = function_t::all().get(id)->make(d, 17);
            if (!f || f->size() != d) continue;
            auto o = wrap_function(*f, "fn:" + id, "fn:" + id + "[" + std::to_string(d) + "D,17]", true);
            std::vector<vec> inputs, targets;
            vec              bias;
            if (lname == "hinge")
            {
                const synthetic_sclass_t syn(17, 1, d);
                for (tensor_size_t i = 0; i < 17; ++i)
                {
                    vec u(static_cast<size_t>(d));
                    for (tensor_size_t j = 0; j < d; ++j) u[static_cast<size_t>(j)] = syn.inputs()(i, j);
                    inputs.push_back(u);
                    targets.push_back({syn.targets()(i, 0)});
                }
                bias = tovec(syn.bopt());
            }
            else
            {
                const synthetic_scalar_t syn(17, 1, d);
                for (tensor_size_t i = 0; i < 17; ++i)
                {
                    vec u(static_cast<size_t>(d));
                    for (tensor_size_t j = 0; j < d; ++j) u[static_cast<size_t>(j)] = syn.inputs()(i, j);
                    inputs.push_back(u);
                    targets.push_back({syn.targets()(i, 0)});
                }
                bias = tovec(syn.bopt());
            }
            for (int s = 0; s < 2; ++s)
            {
                auto x = dyadic_point(rng, static_cast<int>(d), 4.0, 0.25);
                if (s == 1) x[static_cast<size_t>(rng.range(0, d - 1))] = 0.0; // the kink of the l1 term: sign(0) = 0
                vec        g(x.size());
                const auto fx = o.eval(x, &g);
                out("EN " + lname + " " + vh::hexf(a1) + " " + vh::hexf(a2) + " " + std::to_string(d) + " | " + frows(inputs) + " | " + frows(targets) + " | " + fl(bias) + " | " +
                    fl(x) + " = " + vh::hexf(fx) + " | " + fl(g));
            }
        }
    }
}

void ext_families(vh::rng_t& rng)
{
    ext_functions(rng);
    ext_constraints(rng);
    ext_classnll(rng);
    ext_ml(rng);
    ext_enet(rng);
}

// ---------------------------------------------------------------------------------------------------------------------
// G. second extension stage `rest` (C06_Rest): model-tie lines + direct oracles for the clauses proved in coq/theories/C06_Rest.v
//    lines:  FX name n | x | d = f(x) | g(x) | f(x+d)        polynomial benchmark functions on dyadic points: exact Taylor remainder
//            SG n | model | x | d = f(x) | g(x) | f(x+d)     quadratic surrogate (src/tuner/surrogate.cpp)
//            SF loss np | p rows | y | x = f | g             surrogate FIT objective (algebraic loss kernels)
//            GG loss tsize | targets | x = f | g             gboost grads objective
//            MQ n kd | E_0/E_1/.. | dg_0/.. | b_0/.. | x = f | g     maxquad: off-diagonal entries e(i<j), own diagonal terms and b_k
//                                                            computed HERE with the formulas of the constructor; the model places them
//            ME k i j = e ; MD k n i = dg ; MB k n i = b     single entries for the per-run interval lemmas
//    FAIL clauses: taylor (five-point derivative of the quartic polynomial s -> f(x + s d) == g.d, fifth difference == 0),
//                  psd-piece (maxquad: x'A_kmax x = x.g - f >= 0), forwarding (functional constraint == wrapped function)
// ---------------------------------------------------------------------------------------------------------------------
vec axpy(const vec& x, double s, const vec& d)
{
    vec z(x.size());
    for (size_t i = 0; i < x.size(); ++i) z[i] = x[i] + s * d[i];
    return z;
}

// s -> f(x + s d) is a polynomial of degree <= 4: its derivative at 0 is EXACTLY (8 (F(1) - F(-1)) - (F(2) - F(-2))) / 12 and its
// fifth finite difference vanishes (no truncation error: the tolerance is rounding only)
void check_taylor(const obj_t& o, const vec& x, const vec& d, const std::string& what)
{
    vec        g(x.size());
    const auto f0 = o.eval(x, &g);
    double     F[6]; // s = -2 .. 3
    double     m = std::fabs(f0);
    for (int k = 0; k < 6; ++k)
    {
        F[k] = (k == 2) ? f0 : o.eval(axpy(x, static_cast<double>(k - 2), d), nullptr);
        m    = std::max(m, std::fabs(F[k]));
    }
    g_evals += 6;
    double gd = 0, agd = 0;
    for (size_t i = 0; i < x.size(); ++i)
    {
        gd += g[i] * d[i];
        agd += std::fabs(g[i] * d[i]);
    }
    const auto der = (8.0 * (F[3] - F[1]) - (F[4] - F[0])) / 12.0;
    const auto d5  = F[5] - 5.0 * F[4] + 10.0 * F[3] - 10.0 * F[2] + 5.0 * F[1] - F[0];
    const auto tol = 4096 * EPS * (m + agd + 1.0) * (1.0 + static_cast<double>(x.size()));
    ++g_grad_checks;
    if (!(std::fabs(der - gd) <= tol))
        fail("taylor", o.name, o.family, what + ": five-point derivative=" + vh::hexf(der) + " g.d=" + vh::hexf(gd) + " tol=" + vh::hexf(tol) + " x=[" + fl(x) + "] d=[" + fl(d) + "] g=[" + fl(g) + "]");
    else if (!(std::fabs(d5) <= 8 * tol))
        fail("taylor", o.name, o.family, what + ": fifth difference=" + vh::hexf(d5) + " (degree > 4?) tol=" + vh::hexf(8 * tol) + " x=[" + fl(x) + "] d=[" + fl(d) + "]");
}

void rest_functions(vh::rng_t& rng)
{
    const char* ids[] = {"schumer-steiglitz", "styblinski-tang", "qing", "axis-ellipsoid", "chung-reynolds", "sargan", "zakharov", "rosenbrock", "dixon-price", "powell"};
    const std::vector<tensor_size_t> dims = g_thorough ? std::vector<tensor_size_t>{1, 2, 3, 4, 5, 6, 7, 8, 12} : std::vector<tensor_size_t>{1, 2, 3, 4, 5, 8};
    const int reps = g_thorough ? 12 : 4;
    for (const char* id : ids)
        for (const auto dreq : dims)
        {
            const auto f = function_t::all().get(id)->make(dreq, 1);
            if (!f) continue;
            const auto n = static_cast<int>(f->size());
            if (n != dreq && !(std::string(id) == "powell" && dreq == 1) && !(std::string(id) == "rosenbrock" && dreq == 1)) continue; // sizes are rounded: once per size
            auto o = wrap_function(*f, std::string("fn:") + id, std::string("fn:") + id + "[" + std::to_string(n) + "D](rest)", true);
            for (int r = 0; r < reps; ++r)
            {
                // dyadic points: x, d on the grid 1/8 so that x + s d (s = -2..3) and the polynomial values are (nearly) exact
                auto x = dyadic_point(rng, n, (r % 2) ? 2.0 : 1.0, 0.125);
                auto d = dyadic_point(rng, n, 1.0, 0.125);
                if (r % 4 == 3) // a single coordinate direction, the LAST / FIRST index now and then (boundary terms of the chains)
                {
                    std::fill(d.begin(), d.end(), 0.0);
                    d[(r % 8 == 3) ? static_cast<size_t>(n - 1) : static_cast<size_t>(rng.range(0, n - 1))] = (rng.range(0, 1) ? 1.0 : -0.5);
                }
                check_taylor(o, x, d, id);
                vec        g(x.size());
                const auto fx = o.eval(x, &g);
                const auto fz = o.eval(axpy(x, 1.0, d), nullptr);
                if (n <= 8) out(std::string("FX ") + id + " " + std::to_string(n) + " | " + fl(x) + " | " + fl(d) + " = " + vh::hexf(fx) + " | " + fl(g) + " | " + vh::hexf(fz));
            }
        }
}

void rest_surrogate(vh::rng_t& rng)
{
    for (int rep = 0; rep < (g_thorough ? 40 : 12); ++rep)
    {
        const auto np = static_cast<tensor_size_t>(1 + rep % 4);
        const auto nm = (np + 1) * (np + 2) / 2;
        vector_t   model(nm);
        for (tensor_size_t i = 0; i < nm; ++i) model(i) = std::round((4.0 * rng.unit() - 2.0) * 16.0) / 16.0;
        const auto fq = quadratic_surrogate_t{model};
        auto       o  = wrap_function(fq, "ml:surrogate(rest)", "ml:surrogate(model=[" + fl(tovec(model)) + "])(rest)", true);
        const auto x  = dyadic_point(rng, o.n, 2.0, 0.125);
        const auto d  = dyadic_point(rng, o.n, 2.0, 0.125);
        check_taylor(o, x, d, "surrogate");
        vec        g(x.size());
        const auto fx = o.eval(x, &g), fz = o.eval(axpy(x, 1.0, d), nullptr);
        out("SG " + std::to_string(o.n) + " | " + fl(tovec(model)) + " | " + fl(x) + " | " + fl(d) + " = " + vh::hexf(fx) + " | " + fl(g) + " | " + vh::hexf(fz));
    }
    const char* lids[] = {"mse", "mae", "pinball", "s-hinge", "s-squared-hinge"};
    for (const char* id : lids)
    {
        const auto loss = loss_t::all().get(id);
        if (!loss) continue;
        const auto kind = kind_of(id);
        for (int rep = 0; rep < (g_thorough ? 8 : 3); ++rep)
        {
            const auto np = static_cast<tensor_size_t>(1 + rep % 3);
            const auto ns = static_cast<tensor_size_t>(rng.range(2, 7));
            tensor2d_t p(ns, np);
            tensor1d_t y(ns);
            std::vector<vec> prow;
            for (tensor_size_t i = 0; i < ns; ++i)
            {
                vec row(static_cast<size_t>(np));
                for (tensor_size_t j = 0; j < np; ++j) row[static_cast<size_t>(j)] = p(i, j) = std::round((2.0 * rng.unit() - 1.0) * 8.0) / 8.0;
                prow.push_back(row);
                y(i) = (kind == lkind::regression) ? std::round((4.0 * rng.unit() - 2.0) * 8.0) / 8.0 : (rng.range(0, 1) ? 1.0 : -1.0);
            }
            const auto ff = quadratic_surrogate_fit_t{*loss, p, y};
            auto       o  = wrap_function(ff, std::string("ml:surrogate-fit(") + id + ")(rest)", "ml:surrogate-fit(rest)", true);
            const auto x  = dyadic_point(rng, o.n, 1.0, 0.125);
            vec        g(x.size());
            const auto fx = o.eval(x, &g);
            out(std::string("SF ") + id + " " + std::to_string(np) + " | " + frows(prow) + " | " + fl(tovec(y)) + " | " + fl(x) + " = " + vh::hexf(fx) + " | " + fl(g));
        }
    }
}

void rest_grads(vh::rng_t& rng)
{
    const char* ids[] = {"mse", "mae", "pinball", "s-hinge", "m-hinge", "s-squared-hinge"};
    for (const char* id : ids)
    {
        const auto loss = loss_t::all().get(id);
        if (!loss) continue;
        for (int rep = 0; rep < (g_thorough ? 6 : 2); ++rep)
        {
            auto       d   = make_data(rng, kind_of(id), 1U);
            const auto all = arange(0, d.n);
            auto       it  = targets_iterator_t{*d.dataset, all};
            it.batch(static_cast<tensor_size_t>(rng.range(2, 9)));
            it.scaling(scaling_type::none);
            const auto fg = gboost::grads_function_t{it, *loss};
            auto       og = wrap_function(fg, std::string("ml:gboost-grads(") + id + ")(rest)", "ml:gboost-grads(rest)", false);
            const auto x  = dyadic_point(rng, og.n, 2.0, 0.125);
            vec        g(x.size());
            const auto fx = og.eval(x, &g);
            out(std::string("GG ") + id + " " + std::to_string(d.tsize) + " | " + frows(d.targets) + " | " + fl(x) + " = " + vh::hexf(fx) + " | " + fl(g));
        }
    }
}

// maxquad: the entries of the constructor recomputed with its formulas (si = i + 1, sj = j + 1, sk = k + 1)
void rest_maxquad(vh::rng_t& rng)
{
    const tensor_size_t kd = 5; // function_maxquad_t(dims, kdims = 5)
    for (const tensor_size_t n : (g_thorough ? std::vector<tensor_size_t>{1, 2, 3, 4, 5, 6} : std::vector<tensor_size_t>{1, 2, 3, 5}))
    {
        const auto f = function_t::all().get("maxquad")->make(n, 1);
        auto       o = wrap_function(*f, "fn:maxquad(rest)", "fn:maxquad[" + std::to_string(n) + "D](rest)", true);
        std::string E, DG, Bs;
        std::vector<std::vector<vec>> Afull;
        std::vector<vec>              Bfull;
        for (tensor_size_t k = 0; k < kd; ++k)
        {
            const auto       sk = static_cast<double>(k + 1);
            std::vector<vec> rows;
            vec              dg(static_cast<size_t>(n)), b(static_cast<size_t>(n));
            for (tensor_size_t i = 0; i < n; ++i)
            {
                const auto si = static_cast<double>(i + 1);
                vec        row(static_cast<size_t>(n), 0.0);
                for (tensor_size_t j = i + 1; j < n; ++j)
                {
                    const auto sj = static_cast<double>(j + 1);
                    row[static_cast<size_t>(j)] = std::exp(si / sj) * std::cos(si * sj) * std::sin(sk);
                    if (k < 3 && j < i + 3) out("ME " + std::to_string(k) + " " + std::to_string(i) + " " + std::to_string(j) + " = " + vh::hexf(row[static_cast<size_t>(j)]));
                }
                rows.push_back(row);
                dg[static_cast<size_t>(i)] = si * std::fabs(std::sin(sk)) / static_cast<double>(n);
                b[static_cast<size_t>(i)]  = std::exp(si / sk) * std::sin(si * sk);
                if (k < 2 && i < 2)
                {
                    out("MD " + std::to_string(k) + " " + std::to_string(n) + " " + std::to_string(i) + " = " + vh::hexf(dg[static_cast<size_t>(i)]));
                    out("MB " + std::to_string(k) + " " + std::to_string(n) + " " + std::to_string(i) + " = " + vh::hexf(b[static_cast<size_t>(i)]));
                }
            }
            E += (k ? "/" : "") + frows(rows);
            DG += (k ? "/" : "") + fl(dg);
            Bs += (k ? "/" : "") + fl(b);
            // the full piece (used ONLY to aim points at every piece below, not as an oracle)
            std::vector<vec> full(static_cast<size_t>(n), vec(static_cast<size_t>(n), 0.0));
            for (size_t i = 0; i < full.size(); ++i)
            {
                double sum = 0;
                for (size_t j = 0; j < full.size(); ++j)
                    if (i != j)
                    {
                        full[i][j] = (i < j) ? rows[i][j] : rows[j][i];
                        sum += std::fabs(full[i][j]);
                    }
                full[i][i] = dg[i] + sum;
            }
            Afull.push_back(full);
            Bfull.push_back(b);
        }
        // one point per piece at which THAT piece is the largest (a swapped / misplaced entry of piece k only shows where k is active)
        const auto piece = [&](size_t k, const vec& x)
        {
            double v = 0;
            for (size_t i = 0; i < x.size(); ++i)
            {
                double ax = 0;
                for (size_t j = 0; j < x.size(); ++j) ax += Afull[k][i][j] * x[j];
                v += x[i] * (ax - Bfull[k][i]);
            }
            return v;
        };
        for (size_t k = 0; k < Afull.size(); ++k)
            for (int tries = 0, found = 0; tries < 400 && found < (g_thorough ? 3 : 1); ++tries)
            {
                const auto x = dyadic_point(rng, static_cast<int>(n), (tries % 2) ? 2.0 : 0.5, 0.0625);
                bool best = true;
                for (size_t l = 0; l < Afull.size() && best; ++l) best = l == k || piece(k, x) > piece(l, x) + 1e-6 * (1.0 + std::fabs(piece(l, x)));
                if (!best) continue;
                ++found;
                vec        g(x.size());
                const auto fx = o.eval(x, &g);
                out("MQ " + std::to_string(n) + " " + std::to_string(kd) + " | " + E + " | " + DG + " | " + Bs + " | " + fl(x) + " = " + vh::hexf(fx) + " | " + fl(g));
            }
        for (int r = 0; r < (g_thorough ? 24 : 8); ++r)
        {
            const auto x = (r == 0) ? vec(static_cast<size_t>(n), 0.0) : ((r % 2) ? dyadic_point(rng, static_cast<int>(n), (r % 4 == 1) ? 4.0 : 0.5, 0.0625) : draw_point(rng, o, 10.0, nullptr));
            vec        g(x.size());
            const auto fx = o.eval(x, &g);
            // x'A_kmax x = x.g(x) - f(x) must be non-negative (the active piece is positive semi-definite)
            double xg = 0, axg = 0;
            for (size_t i = 0; i < x.size(); ++i)
            {
                xg += x[i] * g[i];
                axg += std::fabs(x[i] * g[i]);
            }
            ++g_value_checks;
            if (!(xg - fx >= -256 * EPS * (axg + std::fabs(fx) + 1.0)))
                fail("psd-piece", o.name, o.family, "x'A_kmax x = x.g - f = " + vh::hexf(xg - fx) + " < 0 x=[" + fl(x) + "] g=[" + fl(g) + "] f=" + vh::hexf(fx));
            if (r % 2 || r == 0)
                out("MQ " + std::to_string(n) + " " + std::to_string(kd) + " | " + E + " | " + DG + " | " + Bs + " | " + fl(x) + " = " + vh::hexf(fx) + " | " + fl(g));
        }
    }
}

// functional constraints forward value, gradient and flags of the wrapped function (bit for bit)
void rest_functional(vh::rng_t& rng)
{
    const auto ids = function_t::all().ids();
    for (int rep = 0; rep < (g_thorough ? 60 : 20); ++rep)
    {
        const auto id    = ids[static_cast<size_t>(rng.range(0, static_cast<int64_t>(ids.size()) - 1))];
        const auto inner = function_t::all().get(id)->make(static_cast<tensor_size_t>(rng.range(1, 6)), 7);
        if (!inner) continue;
        const constraint_t c = (rep % 2) ? constraint_t{constraint::functional_equality_t{*inner}} : constraint_t{constraint::functional_inequality_t{*inner}};
        const auto name = "cons:functional(" + id + ")[" + std::to_string(inner->size()) + "D](rest)";
        if (::nano::convex(c) != inner->convex() || ::nano::smooth(c) != inner->smooth() || ::nano::strong_convexity(c) != inner->strong_convexity())
            fail("forwarding", name, "cons:functional(rest)", "flags differ from the wrapped function's: convex=" + std::to_string(::nano::convex(c)) + "/" + std::to_string(inner->convex()) +
                 " smooth=" + std::to_string(::nano::smooth(c)) + "/" + std::to_string(inner->smooth()) + " mu=" + vh::hexf(::nano::strong_convexity(c)) + "/" + vh::hexf(inner->strong_convexity()));
        const auto n = static_cast<int>(inner->size());
        const auto x = dyadic_point(rng, n, 2.0, 0.125);
        vector_t   X(n), G1(n), G2(n);
        for (int i = 0; i < n; ++i) X(i) = x[static_cast<size_t>(i)];
        const auto f1 = ::nano::vgrad(c, X, G1);
        const auto f2 = inner->vgrad(X, G2);
        g_evals += 2;
        ++g_value_checks;
        bool same = (f1 == f2) || (std::isnan(f1) && std::isnan(f2));
        for (int i = 0; i < n && same; ++i) same = G1(i) == G2(i) || (std::isnan(G1(i)) && std::isnan(G2(i)));
        if (!same) fail("forwarding", name, "cons:functional(rest)", "value / gradient differ from the wrapped function's at x=[" + fl(x) + "]: " + vh::hexf(f1) + " vs " + vh::hexf(f2));
    }
}

void rest_families(vh::rng_t& rng)
{
    rest_functions(rng);
    rest_surrogate(rng);
    rest_grads(rng);
    rest_maxquad(rng);
    rest_functional(rng);
}
} // namespace

int main(int argc, char** argv)
{
    std::setvbuf(stdout, nullptr, _IOLBF, 0);
    g_thorough = argc > 1 && std::string(argv[1]) == "thorough";
    const std::string only = argc > 2 ? argv[2] : "";
    // the stream is seeded with a MIXED value: splitmix64 states of consecutive raw seeds (or of seed * golden ratio) are the same
    // stream shifted by a few draws
    vh::rng_t seeder(vh::env_seed() ^ 0xC06C06C06C06ULL);
    seeder.next();
    vh::rng_t rng(seeder.next());
    nano::verif::g_rng_seed.store(vh::env_seed() + 1);

    probes();
    if (only.empty() || only == "loss")
    {
        int tie_budget_total = 0;
        for (const auto& id : loss_t::all().ids())
        {
            int tie_budget = g_thorough ? 600 : 160;
            loss_family(rng, id, tie_budget);
            tie_budget_total += tie_budget;
        }
        out("SIZE losses 0 = " + std::to_string(loss_t::all().ids().size()));
    }
    if (only.empty() || only == "fn") function_families(rng);
    if (only.empty() || only == "cons") constraint_families(rng);
    if (only.empty() || only == "ml") ml_families(rng);
    if (only.empty() || only == "ext")
    {
        // own stream: the stages above draw exactly what they drew before the extension existed
        vh::rng_t seeder2(vh::env_seed() ^ 0xE06E06E06E06ULL);
        seeder2.next();
        vh::rng_t rng2(seeder2.next());
        ext_families(rng2);
    }
    if (only.empty() || only == "rest")
    {
        // second extension (C06_Rest): own stream again
        vh::rng_t seeder3(vh::env_seed() ^ 0x5E57C06C06ULL);
        seeder3.next();
        vh::rng_t rng3(seeder3.next());
        rest_families(rng3);
    }

    std::string fam, clauses, keys;
    for (const auto& kv : g_family) fam += kv.first + ":" + std::to_string(kv.second) + ",";
    for (const auto& kv : g_fail_by_clause) clauses += kv.first + ":" + std::to_string(kv.second) + ",";
    for (const auto& k : g_fail_keys) keys += k + ";";
    std::printf("DONE objects=%ld evals=%ld value_checks=%ld grad_checks=%ld kink_checks=%ld convex_checks=%ld convex_climbs=%ld loss_samples=%ld "
                "error_checks=%ld fails=%ld families=%s fail_clauses=%s fail_keys=%s\n",
                g_objects, g_evals, g_value_checks, g_grad_checks, g_kink_checks, g_convex_checks, g_convex_climbs, g_loss_checks, g_error_checks,
                g_fails, fam.c_str(), clauses.c_str(), keys.c_str());
    return 0;
}
