// C07 INIT-stage harness: the step-length initialisers lsearch0_t (constant / linear / quadratic / cgdescent) of the real
// library, observed through a recording wrapper that sees exactly what lsearch0_t::get sees -- (state, descent,
// last_step_size) -- and what it returns, over whole sequences of calls so that the MUTABLE members (m_prevf, m_prevdg)
// are exercised:
//   mode seq  : one real lsearch0 object driven directly with crafted states (solver_state_t::update(x, gx, fx) injects any
//               value: NaN / inf / huge / tiny / equal values) and arbitrary last_step_size sequences,
//   mode run  : whole runs of the real line-search solvers (gd, cgd-*, lbfgs, quasi-Newton) with the wrapper installed,
//   mode comp : the real lsearch_t (src/solver/lsearch.cpp: lsearch0->get, lsearchk->get, m_last_step_size) iterated on a
//               recorded objective, also after refusals / failures; every probe of lsearchk is recorded.
// The extracted model (coq/theories/C07_Init_Defs.v: lsearch0_get / lsearch_get) must reproduce every t0 bit for bit, request
// the trial evaluation of lsearch0-cgdescent at the recorded point, and -- in mode comp -- make the same probes, return the
// same ok and hand the same step to the next call. The property's own oracle (FAIL lines) is coded here, independently of the
// model.
//
//   c07_init <quick|thorough> [case-index]           (every case derives from VERIF_SEED and its index)
//
//   I0BEGIN id mode kind desc | eps const_t0 lin_beta lin_alpha quad_beta quad_alpha phi0 phi1 phi2 |
//           alg maxit interp c1 c2 safeguard tau1 tau2 tau3 delta cge cgt cgg cgr
//   I0CALL  id i | last valid fx dg xinf ginf gsq | ntrial ftrial | nJ x_J.. d_J.. trial_J.. = t0
//   I0LS    id i | v,f,dg,x_J..;... (or -) = ok                  (mode comp: the lsearchk_t::get that followed call i)
//   I0END   id last|-                                            (mode comp: m_last_step_size after the last iteration)
//   FAIL id kind=<clause> ...      CAND id kind=<candidate finding> ...      DONE ...
#include "common.h"
#include <algorithm>
#include <functional>
#include <map>
#include <nano/function.h>
#include <nano/logger.h>
#include <nano/lsearch0.h>
#include <nano/lsearchk.h>
#include <nano/solver.h>
#include <nano/solver/lsearch.h>

using namespace nano;

namespace
{
bool same(const double a, const double b)
{
    return (std::isnan(a) && std::isnan(b)) || (std::memcmp(&a, &b, sizeof(a)) == 0);
}
bool all_finite(const vector_t& v)
{
    for (tensor_size_t i = 0; i < v.size(); ++i)
        if (!std::isfinite(v(i))) return false;
    return true;
}
vector_t copy_of(const vector_cmap_t& v)
{
    vector_t r(v.size());
    r.vector() = v.vector();
    return r;
}
double logu(vh::rng_t& rng, const double lo, const double hi)
{
    return std::exp(std::log(lo) + (std::log(hi) - std::log(lo)) * rng.unit());
}
double sym(vh::rng_t& rng) { return 2.0 * rng.unit() - 1.0; }

struct rec_t
{
    vector_t x, g;
    double   f{0};
    bool     withg{false};
};

class recorder_t final : public function_t
{
public:
    explicit recorder_t(const function_t& inner)
        : function_t("recorder", inner.size()), m_inner(&inner)
    {
        convex(inner.convex() ? convexity::yes : convexity::no);
        smooth(inner.smooth() ? smoothness::yes : smoothness::no);
        strong_convexity(inner.strong_convexity());
    }
    rfunction_t clone() const override { return std::make_unique<recorder_t>(*this); }
    scalar_t    do_vgrad(vector_cmap_t x, vector_map_t gx) const override
    {
        const auto f = m_inner->vgrad(x, gx);
        rec_t      r;
        r.x     = copy_of(x);
        r.f     = f;
        r.withg = gx.size() == x.size();
        if (r.withg) r.g = copy_of(gx);
        m_log.push_back(std::move(r));
        return f;
    }
    const function_t*          m_inner;
    mutable std::vector<rec_t> m_log;
};

// n-D objective given by a closure (x, optional gradient) -> value
class funnd_t final : public function_t
{
public:
    using op_t = std::function<double(const vector_cmap_t&, vector_map_t&)>;
    funnd_t(string_t name, const tensor_size_t n, op_t op)
        : function_t(std::move(name), n), m_op(std::move(op))
    {
        smooth(smoothness::yes);
        convex(convexity::no);
    }
    rfunction_t clone() const override { return std::make_unique<funnd_t>(*this); }
    scalar_t    do_vgrad(vector_cmap_t x, vector_map_t gx) const override { return m_op(x, gx); }
    op_t m_op;
};

// objectives for the crafted sequences: sum_i q_i (x_i - m_i)^2 * scale (+ optional wall / constant / tilt)
rfunction_t make_fun(vh::rng_t& rng, const tensor_size_t n, std::string& name)
{
    std::vector<double> q(static_cast<size_t>(n)), m(static_cast<size_t>(n));
    for (auto& v : q) v = logu(rng, 1e-3, 1e3);
    for (auto& v : m) v = sym(rng) * 3.0;
    const auto kind  = rng.range(0, 7);
    const auto scale = kind == 5 ? logu(rng, 1e-250, 1e-100) : kind == 6 ? logu(rng, 1e100, 1e250) : 1.0;
    const auto wall  = logu(rng, 1e-1, 1e1);
    const auto cst   = sym(rng) * 5.0;
    static const char* NAMES[] = {"quad", "quad", "quad-wall", "const", "quad-neg", "quad-tiny", "quad-huge", "quartic"};
    name = NAMES[kind];
    return std::make_unique<funnd_t>(name, n, [=](const vector_cmap_t& x, vector_map_t& gx) {
        const bool withg = gx.size() == x.size();
        double     f     = 0;
        for (tensor_size_t i = 0; i < n; ++i)
        {
            const auto qi = q[static_cast<size_t>(i)], mi = m[static_cast<size_t>(i)];
            const auto r  = x(i) - mi;
            switch (kind)
            {
            case 3: if (withg) gx(i) = 0.0; break;
            case 4: f -= qi * r * r; if (withg) gx(i) = -2.0 * qi * r; break;
            case 7: f += qi * r * r * r * r; if (withg) gx(i) = 4.0 * qi * r * r * r; break;
            default: f += scale * qi * r * r; if (withg) gx(i) = scale * 2.0 * qi * r; break;
            }
        }
        if (kind == 3) f = cst;
        if (kind == 2)
        {
            double d = 0;
            for (tensor_size_t i = 0; i < n; ++i) d = std::max(d, std::fabs(x(i)));
            if (d > wall) f = std::nan("");
        }
        return f;
    });
}

// ---- the recording wrapper around the real lsearch0 ---------------------------------------------------------------
struct call_t
{
    vector_t x, d;
    double   last{0}, fx{0}, dg{0}, xinf{0}, ginf{0}, gsq{0}, t0{0};
    bool     valid{false};
    size_t   evals_before{0}, evals_after{0};
};
std::vector<call_t> g_calls;
const recorder_t*   g_rec = nullptr;

class rec_lsearch0_t final : public lsearch0_t
{
public:
    explicit rec_lsearch0_t(rlsearch0_t inner)
        : lsearch0_t("recording"), m_inner(std::move(inner))
    {
    }
    rec_lsearch0_t(const rec_lsearch0_t& o) : lsearch0_t(o), m_inner(o.m_inner->clone()), m_forward_epsilon(o.m_forward_epsilon) {}
    rlsearch0_t clone() const override { return std::make_unique<rec_lsearch0_t>(*this); }
    scalar_t    get(const solver_state_t& state, const vector_t& descent, const scalar_t last) override
    {
        // solver_t::make_lsearch writes solver::epsilon into the wrapper's lsearch0::epsilon: hand it on
        if (m_forward_epsilon) m_inner->parameter("lsearch0::epsilon") = parameter("lsearch0::epsilon").value<scalar_t>();
        call_t c;
        c.x            = state.x();
        c.d            = descent;
        c.last         = last;
        c.valid        = state.valid();
        c.fx           = state.fx();
        c.dg           = state.dg(descent);
        c.xinf         = state.x().lpNorm<Eigen::Infinity>();
        c.ginf         = state.gx().lpNorm<Eigen::Infinity>();
        c.gsq          = state.gx().squaredNorm();
        c.evals_before = g_rec ? g_rec->m_log.size() : 0;
        c.t0           = m_inner->get(state, descent, last);
        c.evals_after  = g_rec ? g_rec->m_log.size() : 0;
        g_calls.push_back(std::move(c));
        return g_calls.back().t0;
    }
    rlsearch0_t m_inner;
    bool        m_forward_epsilon{true};
};

// ---- configuration -----------------------------------------------------------------------------------------------------
const char* const KINDS[] = {"constant", "linear", "quadratic", "cgdescent"};
const char* const ALGS[]  = {"backtrack", "lemarechal", "fletcher", "morethuente", "cgdescent"};

struct prm0_t
{
    double eps{1e-6}, const_t0{1.0}, lin_beta{10.0}, lin_alpha{1.01}, quad_beta{10.0}, quad_alpha{1.01}, phi0{0.01}, phi1{0.1}, phi2{2.0};
};

struct cfg_t
{
    int    alg{0};
    int    maxit{128};
    int    interp{2};
    double c1{1e-4}, c2{0.1};
    double safeguard{0.1}, tau1{9.0}, tau2{0.1}, tau3{0.5}, delta{0.66};
    double cge{1e-6}, cgt{0.5}, cgg{0.66}, cgr{5.0};
};

double above_one(vh::rng_t& rng)
{
    switch (rng.range(0, 5))
    {
    case 0: return std::nextafter(1.0, 2.0);
    case 1: return 1.0 + logu(rng, 1e-6, 1e-1);
    case 2: return logu(rng, 1e3, 9.9e5);
    default: return 1.0 + logu(rng, 1e-2, 1e2);
    }
}
double unit_open(vh::rng_t& rng)
{
    switch (rng.range(0, 5))
    {
    case 0: return logu(rng, 1e-300, 1e-20);
    case 1: return 1.0 - logu(rng, 1e-12, 1e-2);
    case 2: return std::ldexp(1.0, -static_cast<int>(rng.range(1, 8)));
    default: return logu(rng, 1e-4, 0.9);
    }
}

prm0_t make_prm0(vh::rng_t& rng, const bool wide)
{
    prm0_t p;
    if (rng.range(0, 3) == 0) return p; // registered defaults (epsilon = lsearch0's own default 1e-6)
    // lsearch0::epsilon in (0, 1): mostly what solver::epsilon looks like, sometimes extreme
    switch (rng.range(0, 7))
    {
    case 0: p.eps = wide ? logu(rng, 1e-320, 1e-200) : 1e-8; break;
    case 1: p.eps = wide ? logu(rng, 1e-40, 1e-16) : 1e-10; break;
    case 2: p.eps = logu(rng, 1e-3, 0.99); break;
    default: p.eps = logu(rng, 1e-14, 1e-4); break;
    }
    p.const_t0   = rng.range(0, 2) == 0 ? logu(rng, 1e-300, 1e-10) : logu(rng, 1e-6, 9.9e5);
    p.lin_beta   = above_one(rng);
    p.lin_alpha  = above_one(rng);
    p.quad_beta  = above_one(rng);
    p.quad_alpha = above_one(rng);
    p.phi0       = unit_open(rng);
    p.phi1       = unit_open(rng);
    p.phi2       = above_one(rng);
    return p;
}

rlsearch0_t make_lsearch0(const int kind, const prm0_t& p, const bool set_epsilon)
{
    auto ls = lsearch0_t::all().get(KINDS[kind]);
    if (!ls)
    {
        std::printf("FAIL - kind=setup cannot create lsearch0 %s\n", KINDS[kind]);
        std::exit(3);
    }
    if (set_epsilon) ls->parameter("lsearch0::epsilon") = p.eps;
    switch (kind)
    {
    case 0: ls->parameter("lsearch0::constant::t0") = p.const_t0; break;
    case 1:
        ls->parameter("lsearch0::linear::beta")  = p.lin_beta;
        ls->parameter("lsearch0::linear::alpha") = p.lin_alpha;
        break;
    case 2:
        ls->parameter("lsearch0::quadratic::beta")  = p.quad_beta;
        ls->parameter("lsearch0::quadratic::alpha") = p.quad_alpha;
        break;
    default:
        ls->parameter("lsearch0::cgdescent::phi0") = p.phi0;
        ls->parameter("lsearch0::cgdescent::phi1") = p.phi1;
        ls->parameter("lsearch0::cgdescent::phi2") = p.phi2;
        break;
    }
    return ls;
}

cfg_t make_cfg(vh::rng_t& rng)
{
    cfg_t c;
    c.alg = static_cast<int>(rng.range(0, 4));
    switch (rng.range(0, 9))
    {
    case 0: c.maxit = static_cast<int>(rng.range(1, 3)); break;
    case 1: c.maxit = static_cast<int>(rng.range(3, 20)); break;
    case 2: c.maxit = static_cast<int>(rng.range(20, 100)); break;
    default: c.maxit = 128; break;
    }
    c.interp = static_cast<int>(rng.range(0, 2));
    switch (rng.range(0, 3))
    {
    case 0: c.c1 = 1e-4, c.c2 = 0.1; break;
    case 1: c.c1 = 1e-4, c.c2 = 0.9; break;
    case 2: c.c1 = 0.1, c.c2 = 0.9; break;
    default:
        c.c1 = logu(rng, 1e-8, 0.49);
        c.c2 = c.c1 + (1.0 - c.c1) * std::min(0.999, std::max(1e-3, rng.unit()));
        break;
    }
    if (!(c.c1 > 0.0 && c.c1 < c.c2 && c.c2 < 1.0)) { c.c1 = 1e-4, c.c2 = 0.1; }
    if (rng.range(0, 3) == 0)
    {
        c.safeguard = std::min(0.499, std::max(1e-6, 0.5 * rng.unit()));
        c.tau1      = 2.001 + 20.0 * rng.unit();
        c.tau3      = std::min(0.5, std::max(2e-3, 0.5 * rng.unit()));
        c.tau2      = c.tau3 * std::min(0.999, std::max(1e-3, rng.unit()));
        c.delta     = std::min(0.999, std::max(1e-3, rng.unit()));
        c.cge       = logu(rng, 1e-12, 1e2);
        c.cgt       = std::min(0.999, std::max(1e-3, rng.unit()));
        c.cgg       = std::min(0.999, std::max(1e-3, rng.unit()));
        c.cgr       = 1.0 + logu(rng, 1e-2, 1e2);
    }
    return c;
}

rlsearchk_t make_lsearchk(const cfg_t& c)
{
    auto       ls = lsearchk_t::all().get(ALGS[c.alg]);
    const auto it = static_cast<interpolation_type>(c.interp);
    ls->parameter("lsearchk::tolerance")      = std::make_tuple(c.c1, c.c2);
    ls->parameter("lsearchk::max_iterations") = c.maxit;
    switch (c.alg)
    {
    case 0:
        ls->parameter("lsearchk::backtrack::interpolation") = it;
        ls->parameter("lsearchk::backtrack::safeguard")     = c.safeguard;
        break;
    case 1:
        ls->parameter("lsearchk::lemarechal::interpolation") = it;
        ls->parameter("lsearchk::lemarechal::tau1")          = c.tau1;
        ls->parameter("lsearchk::lemarechal::safeguard")     = c.safeguard;
        break;
    case 2:
        ls->parameter("lsearchk::fletcher::interpolation") = it;
        ls->parameter("lsearchk::fletcher::tau1")          = c.tau1;
        ls->parameter("lsearchk::fletcher::tau23")         = std::make_tuple(c.tau2, c.tau3);
        break;
    case 3: ls->parameter("lsearchk::morethuente::delta") = c.delta; break;
    default:
        ls->parameter("lsearchk::cgdescent::epsilon") = c.cge;
        ls->parameter("lsearchk::cgdescent::theta")   = c.cgt;
        ls->parameter("lsearchk::cgdescent::gamma")   = c.cgg;
        ls->parameter("lsearchk::cgdescent::ro")      = c.cgr;
        break;
    }
    return ls;
}

// ---- statistics ----------------------------------------------------------------------------------------------------------
long                        g_fails = 0, g_cands = 0, g_ncalls = 0, g_nprobes = 0;
std::map<std::string, long> g_hist;

void fail(const long id, const std::string& what)
{
    ++g_fails;
    std::printf("FAIL %ld %s\n", id, what.c_str());
}
void cand(const long id, const std::string& what)
{
    ++g_cands;
    std::printf("CAND %ld %s\n", id, what.c_str());
}

std::vector<tensor_size_t> pick_coords(const vector_t& d)
{
    std::vector<tensor_size_t> idx(static_cast<size_t>(d.size())), J;
    for (tensor_size_t i = 0; i < d.size(); ++i) idx[static_cast<size_t>(i)] = i;
    std::stable_sort(idx.begin(), idx.end(), [&](tensor_size_t a, tensor_size_t b) { return std::fabs(d(a)) > std::fabs(d(b)); });
    for (size_t k = 0; k < idx.size() && k < 4; ++k) J.push_back(idx[k]);
    return J;
}

void print_begin(const long id, const char* mode, const int kind, const std::string& desc, const prm0_t& p, const cfg_t& c)
{
    std::string line = "I0BEGIN " + std::to_string(id) + " " + mode + " " + std::to_string(kind) + " " + desc + " |";
    for (const auto v : {p.eps, p.const_t0, p.lin_beta, p.lin_alpha, p.quad_beta, p.quad_alpha, p.phi0, p.phi1, p.phi2}) line += " " + vh::hexf(v);
    line += " | " + std::to_string(c.alg) + " " + std::to_string(c.maxit) + " " + std::to_string(c.interp);
    for (const auto v : {c.c1, c.c2, c.safeguard, c.tau1, c.tau2, c.tau3, c.delta, c.cge, c.cgt, c.cgg, c.cgr}) line += " " + vh::hexf(v);
    std::puts(line.c_str());
}

// the harness' own memory of the previous call (what the closed forms of linear / quadratic refer to)
struct prev_t
{
    bool   any{false};
    double fx{0}, dg{0};
};

// prints the I0CALL line of call `i` and applies the direct oracle to it
void report_call(const long id, const size_t i, const int kind, const prm0_t& p, const call_t& c, const std::vector<rec_t>& log, prev_t& prev,
                 std::vector<tensor_size_t>& J)
{
    ++g_ncalls;
    J                 = pick_coords(c.d);
    const auto ntrial = c.evals_after - c.evals_before;
    const auto ftrial = ntrial > 0 ? log[c.evals_before].f : std::nan("");
    std::string line  = "I0CALL " + std::to_string(id) + " " + std::to_string(i) + " | " + vh::hexf(c.last) + " " + (c.valid ? "1" : "0") + " " +
                       vh::hexf(c.fx) + " " + vh::hexf(c.dg) + " " + vh::hexf(c.xinf) + " " + vh::hexf(c.ginf) + " " + vh::hexf(c.gsq) + " | " +
                       std::to_string(ntrial) + " " + vh::hexf(ftrial) + " | " + std::to_string(J.size());
    for (const auto j : J) line += " " + vh::hexf(c.x(j));
    for (const auto j : J) line += " " + vh::hexf(c.d(j));
    for (const auto j : J) line += " " + (ntrial > 0 ? vh::hexf(log[c.evals_before].x(j)) : std::string("nan"));
    line += " = " + vh::hexf(c.t0);
    std::puts(line.c_str());

    // ---- the property's own oracle (independent of the model) ----------------------------------------------------------
    const auto first   = c.last < 0.0;
    const auto descent = c.dg < 0.0;
    const auto what    = [&](const char* k) {
        return std::string("kind=") + k + " lsearch0=" + KINDS[kind] + " call=" + std::to_string(i) + " last=" + vh::hexf(c.last) + " fx=" + vh::hexf(c.fx) +
               " dg=" + vh::hexf(c.dg) + " t0=" + vh::hexf(c.t0);
    };
    g_hist[std::string(KINDS[kind]) + (first ? ":first" : ":later")] += 1;
    // evaluations: only lsearch0-cgdescent evaluates, exactly once per call after the first, value only, at x + (last * phi1) * d
    if (kind != 3 || first)
    {
        if (ntrial != 0) fail(id, what("evaluations") + " lsearch0 evaluated the objective " + std::to_string(ntrial) + " times");
    }
    else
    {
        if (ntrial != 1) fail(id, what("evaluations") + " lsearch0-cgdescent made " + std::to_string(ntrial) + " evaluations (1 expected)");
        else
        {
            const auto& e = log[c.evals_before];
            if (e.withg) fail(id, what("evaluations") + " the trial evaluation requested the gradient");
            const auto s = c.last * p.phi1;
            for (tensor_size_t j = 0; j < c.x.size(); ++j)
            {
                const volatile double sd = s * c.d(j);
                if (!same(e.x(j), c.x(j) + sd))
                {
                    fail(id, what("trial-point") + " coordinate " + std::to_string(j) + " is " + vh::hexf(e.x(j)) + ", x + (last*phi1)*d = " + vh::hexf(c.x(j) + sd));
                    break;
                }
            }
        }
    }
    // closed forms, recomputed from what THIS harness observed at the previous call
    double expect = std::nan("");
    bool   have   = false;
    switch (kind)
    {
    case 0: expect = p.const_t0, have = true; break;
    case 1:
        if (first) expect = 1.0, have = true;
        else
        {
            const auto pdg = prev.any ? prev.dg : 1.0;
            const auto a = -c.last * pdg, b = p.lin_beta * p.eps;
            const auto m = (a < b) ? b : a;
            const auto v = -p.lin_alpha * m / c.dg;
            expect = (v < 1.0) ? v : 1.0, have = true;
            g_hist[a < b ? "linear:max=beta*eps" : "linear:max=-last*prevdg"] += 1;
            g_hist[v < 1.0 ? "linear:min=formula" : "linear:min=1"] += 1;
        }
        break;
    case 2:
        if (first) expect = 1.0, have = true;
        else
        {
            const auto pf = prev.any ? prev.fx : 0.0, pdg = prev.any ? prev.dg : 1.0;
            const auto a = pf - c.fx, b = p.quad_beta * p.eps;
            const auto m = (a < b) ? b : a;
            const auto v = -p.quad_alpha * 2.0 * m / pdg;
            expect = (v < 1.0) ? v : 1.0, have = true;
            g_hist[a < b ? "quadratic:max=beta*eps" : (std::isnan(a) ? "quadratic:max=nan" : "quadratic:max=prevf-fx")] += 1;
            g_hist[v < 1.0 ? "quadratic:min=formula" : "quadratic:min=1"] += 1;
        }
        break;
    default:
        if (first)
        {
            const auto fn = std::fabs(c.fx);
            if (c.xinf > 0) expect = p.phi0 * c.xinf / c.ginf, g_hist["cgdescent:first:x"] += 1;
            else if (fn > 0) expect = p.phi0 * fn / c.gsq, g_hist["cgdescent:first:f"] += 1;
            else expect = 1.0, g_hist["cgdescent:first:one"] += 1;
            have = true;
        }
        else if (ntrial == 1)
        {
            const auto s = c.last * p.phi1, dt = 0.0 - s, df = c.fx - ftrial;
            const auto convex = (dt * c.dg - df) > 0.0;
            const auto tq     = 0.0 - 0.5 * c.dg * dt / (c.dg - df / dt);
            const auto accept = ftrial < c.fx && convex;
            expect = accept ? tq : c.last * p.phi2, have = true;
            g_hist[accept ? "cgdescent:later:interpolated" : (ftrial < c.fx ? "cgdescent:later:grow(not-convex)" : "cgdescent:later:grow(no-decrease)")] += 1;
        }
        break;
    }
    if (have && !same(expect, c.t0)) fail(id, what("closed-form") + " expected=" + vh::hexf(expect) + " (from the previous call's fx=" + vh::hexf(prev.fx) + " dg=" + vh::hexf(prev.dg) + ")");
    // proved range: linear (dg < 0) / quadratic (first call or previous dg < 0): 0 <= t0 <= 1
    if (kind == 1 && descent && !(c.t0 >= 0.0 && c.t0 <= 1.0)) fail(id, what("range") + " linear t0 outside [0, 1] along a descent direction");
    if (kind == 2 && (first || (prev.any && prev.dg < 0.0)) && !(c.t0 >= 0.0 && c.t0 <= 1.0)) fail(id, what("range") + " quadratic t0 outside [0, 1] (previous dg=" + vh::hexf(prev.dg) + ")");
    // searched (false at full strength, see notes): t0 finite and > 0 on a valid descent state
    // (quadratic reads the PREVIOUS call's dg: the history must consist of descent directions, as in every solver run, where a
    //  refused direction ends the run)
    if (c.valid && descent && (kind != 2 || first || (prev.any && prev.dg < 0.0)))
    {
        g_hist["valid-descent-calls"] += 1;
        if (!(std::isfinite(c.t0) && c.t0 > 0.0))
        {
            g_hist[std::string("t0-not-finite-positive:") + KINDS[kind]] += 1;
            cand(id, what("lsearch0-t0-not-finite-positive") + " prev_fx=" + vh::hexf(prev.fx) + " prev_dg=" + vh::hexf(prev.dg) + " xinf=" + vh::hexf(c.xinf) +
                         " ginf=" + vh::hexf(c.ginf) + " gsq=" + vh::hexf(c.gsq) + " ftrial=" + vh::hexf(ftrial));
        }
    }
    prev.any = true;
    prev.fx  = c.fx;
    prev.dg  = c.dg;
}

double bad_value(vh::rng_t& rng)
{
    static const double BAD[] = {std::nan(""), HUGE_VAL, -HUGE_VAL, 0.0, -0.0, 1e300, -1e300, 5e-324, -5e-324};
    return BAD[rng.range(0, 8)];
}

double last_of(vh::rng_t& rng)
{
    switch (rng.range(0, 15))
    {
    case 0: return -1.0;
    case 1: return -logu(rng, 1e-300, 1e3);
    case 2: return 0.0;
    case 3: return -0.0;
    case 4: return std::nan("");
    case 5: return HUGE_VAL;
    case 6: return -HUGE_VAL;
    case 7: return logu(rng, 1e-320, 1e-280);
    case 8: return logu(rng, 1e100, 1e300);
    case 9: return std::ldexp(1.0, static_cast<int>(rng.range(-8, 8)));
    default: return logu(rng, 1e-10, 1e2);
    }
}

// ---- mode seq: one lsearch0 object, crafted states ------------------------------------------------------------------------
void run_seq(vh::rng_t& rng, const long id)
{
    const auto kind = static_cast<int>(rng.range(0, 3));
    const auto p    = make_prm0(rng, true);
    const auto n    = static_cast<tensor_size_t>(rng.range(1, 3));
    std::string fname;
    const auto  fn  = make_fun(rng, n, fname);
    const auto  rec = recorder_t{*fn};
    auto        ls0 = rec_lsearch0_t{make_lsearch0(kind, p, true)};
    ls0.m_forward_epsilon = false;
    g_rec = &rec;
    g_calls.clear();
    print_begin(id, "seq", kind, fname + "[" + std::to_string(n) + "D]", p, cfg_t{});

    vector_t x(n);
    for (tensor_size_t i = 0; i < n; ++i) x(i) = sym(rng) * logu(rng, 1e-3, 1e1);
    if (rng.range(0, 5) == 0) x.full(0.0);
    auto state = solver_state_t{rec, x};
    rec.m_log.clear();

    const auto ncalls = rng.range(2, 9);
    const auto style  = rng.range(0, 3); // 0: states evaluated from the function (consistent), 1: injected decreasing values, 2/3: wild
    double     fcur   = sym(rng) * logu(rng, 1e-6, 1e6);
    double     last   = -1.0;
    prev_t     prev;
    std::vector<tensor_size_t> J;
    for (int64_t k = 0; k < ncalls; ++k)
    {
        vector_t gx(n), d(n);
        double   fx = 0;
        if (style == 0)
        {
            fx = fn->vgrad(x, gx);
        }
        else
        {
            const auto gmag = rng.range(0, 5) == 0 ? logu(rng, 1e-300, 1e300) : logu(rng, 1e-6, 1e6);
            for (tensor_size_t i = 0; i < n; ++i) gx(i) = sym(rng) * gmag;
            if (style == 1 || rng.range(0, 2) == 0)
            {
                // typical: a decreasing sequence, with differences on both sides of beta * epsilon
                switch (rng.range(0, 5))
                {
                case 0: fcur -= p.eps * logu(rng, 1e-3, 1e3); break;
                case 1: fcur += logu(rng, 1e-12, 1e2); break;
                case 2: break;
                default: fcur -= logu(rng, 1e-12, 1e3); break;
                }
                fx = fcur;
            }
            else { fx = rng.range(0, 2) == 0 ? bad_value(rng) : sym(rng) * logu(rng, 1e-300, 1e300); }
            if (style >= 2 && rng.range(0, 7) == 0) gx(rng.range(0, n - 1)) = bad_value(rng);
            if (rng.range(0, 11) == 0) fx = 0.0;
        }
        // direction
        const auto dk = rng.range(0, 9);
        const auto sc = rng.range(0, 3) == 0 ? logu(rng, 1e-150, 1e150) : logu(rng, 1e-3, 1e3);
        for (tensor_size_t i = 0; i < n; ++i)
        {
            switch (dk)
            {
            case 0: d(i) = gx(i) * sc; break;
            case 1: d(i) = 0.0; break;
            case 2: d(i) = sym(rng) * sc; break;
            case 3: d(i) = -gx(i) * sc * (1.0 + 0.9 * sym(rng)); break;
            default: d(i) = -gx(i) * sc; break;
            }
        }
        if (style >= 2 && rng.range(0, 15) == 0) d(rng.range(0, n - 1)) = bad_value(rng);
        state.update(x, gx, fx);
        const auto t0 = ls0.get(state, d, last);
        report_call(id, static_cast<size_t>(k), kind, p, g_calls.back(), rec.m_log, prev, J);
        // the next last_step_size: mostly what a line search would hand back (a positive step, often <= 1 or the clamped t0)
        switch (rng.range(0, 5))
        {
        case 0: last = last_of(rng); break;
        case 1: last = t0; break;
        case 2: last = std::isfinite(t0) ? std::min(1.0, std::max(t0, lsearchk_t::stpmin())) : 1.0; break;
        default: last = logu(rng, 1e-6, 1e1); break;
        }
        // move
        if (rng.range(0, 3) != 0)
            for (tensor_size_t i = 0; i < n; ++i)
            {
                const auto step = (std::isfinite(last) ? last : 1.0) * d(i);
                if (std::isfinite(x(i) + step) && std::fabs(x(i) + step) < 1e6) x(i) += step;
            }
        if (rng.range(0, 13) == 0) x.full(0.0);
    }
    std::printf("I0END %ld -\n", id);
    g_rec = nullptr;
}

// ---- mode run: whole runs of the real solvers -----------------------------------------------------------------------------
const char* const SOLVERS[] = {"gd", "cgd-n", "cgd-hs", "cgd-fr", "cgd-pr", "cgd-cd", "cgd-ls", "cgd-dy", "cgd-dycd", "cgd-dyhs", "cgd-frpr", "lbfgs",
                               "dfp", "sr1", "bfgs", "hoshino", "fletcher"};

rfunction_t pick_function(vh::rng_t& rng, const std::vector<std::string>& smooth_ids, std::string& fname)
{
    static const tensor_size_t DIMS[] = {1, 2, 2, 3, 4, 8, 16};
    const auto                 n      = DIMS[rng.range(0, 6)];
    rfunction_t                fn;
    if (rng.range(0, 2) != 0)
    {
        const auto& fid = smooth_ids[static_cast<size_t>(rng.range(0, static_cast<int64_t>(smooth_ids.size()) - 1))];
        fn              = function_t::all().get(fid)->make(n, rng.range(10, 20));
        if (fn) fname = fn->type_id();
    }
    if (!fn) fn = make_fun(rng, n, fname);
    fname += "[" + std::to_string(fn->size()) + "D]";
    return fn;
}

void run_solver(vh::rng_t& rng, const long id, const std::vector<std::string>& smooth_ids)
{
    const auto  kind = static_cast<int>(rng.range(0, 3));
    auto        p    = make_prm0(rng, false);
    p.eps            = std::min(p.eps, 0.1); // solver::epsilon lives in (0, 0.1]
    const auto  c    = make_cfg(rng);
    const char* sid  = SOLVERS[rng.range(0, 16)];
    std::string fname;
    const auto  fn = pick_function(rng, smooth_ids, fname);
    const auto  n  = fn->size();
    vector_t    x0(n);
    const auto  radius = logu(rng, 1e-2, 1e1);
    for (tensor_size_t i = 0; i < n; ++i) x0(i) = sym(rng) * radius;
    if (rng.range(0, 9) == 0) x0.full(0.0);
    {
        vector_t   g0(n);
        const auto f0 = fn->vgrad(x0, g0);
        if (!std::isfinite(f0)) x0.full(0.5);
    }
    auto solver = solver_t::all().get(sid);
    if (!solver) return;
    solver->parameter("solver::epsilon")   = p.eps;
    solver->parameter("solver::max_evals") = rng.range(20, 400);
    solver->parameter("solver::tolerance") = std::make_tuple(c.c1, c.c2);
    solver->lsearch0(rec_lsearch0_t{make_lsearch0(kind, p, false)}); // epsilon arrives through solver::epsilon (make_lsearch)
    solver->lsearchk(*make_lsearchk(c));

    const auto rec = recorder_t{*fn};
    g_rec          = &rec;
    g_calls.clear();
    print_begin(id, "run", kind, std::string(sid) + ":" + fname, p, c);
    const auto state = solver->minimize(rec, x0, make_null_logger());
    g_rec            = nullptr;
    prev_t prev;
    std::vector<tensor_size_t> J;
    for (size_t i = 0; i < g_calls.size(); ++i)
    {
        report_call(id, i, kind, p, g_calls[i], rec.m_log, prev, J);
        // within a solver run the first call sees m_last_step_size = -1 and every later one the step of the previous search
        if (i == 0 && !same(g_calls[i].last, -1.0)) fail(id, "kind=first-last lsearch_t handed " + vh::hexf(g_calls[i].last) + " to the first lsearch0 call");
    }
    g_hist[std::string("run-status=") + std::to_string(static_cast<int>(state.status()))] += 1;
    std::printf("I0END %ld -\n", id);
}

// ---- mode comp: the real lsearch_t iterated by this harness -------------------------------------------------------------------
void run_comp(vh::rng_t& rng, const long id, const std::vector<std::string>& smooth_ids)
{
    const auto  kind = static_cast<int>(rng.range(0, 3));
    const auto  p    = make_prm0(rng, rng.range(0, 3) == 0);
    const auto  c    = make_cfg(rng);
    std::string fname;
    const auto  fn = pick_function(rng, smooth_ids, fname);
    const auto  n  = fn->size();
    vector_t    x0(n);
    const auto  radius = logu(rng, 1e-2, 1e1);
    for (tensor_size_t i = 0; i < n; ++i) x0(i) = sym(rng) * radius;
    if (rng.range(0, 9) == 0) x0.full(0.0);

    const auto rec = recorder_t{*fn};
    g_rec          = &rec;
    g_calls.clear();
    auto wrapper               = std::make_unique<rec_lsearch0_t>(make_lsearch0(kind, p, true));
    wrapper->m_forward_epsilon = false;
    const auto ls              = lsearch_t{std::move(wrapper), make_lsearchk(c)};
    const auto logger          = make_null_logger();
    auto       state           = solver_state_t{rec, x0};
    print_begin(id, "comp", kind, std::string(ALGS[c.alg]) + ":" + fname, p, c);
    rec.m_log.clear();

    const auto niter = rng.range(2, 10);
    prev_t     prev;
    std::vector<tensor_size_t> J;
    double     pending_refusal_t0 = std::nan("");
    bool       pending_refusal    = false;
    for (int64_t k = 0; k < niter; ++k)
    {
        if (!state.valid()) break;
        vector_t   d(n);
        const auto dk = rng.range(0, 11);
        const auto sc = rng.range(0, 2) == 0 ? logu(rng, 1e-3, 1e3) : 1.0;
        for (tensor_size_t i = 0; i < n; ++i)
        {
            switch (dk)
            {
            case 0: d(i) = state.gx()(i); break;                                   // ascent: refused, last = t0
            case 1: d(i) = 0.0; break;                                             // dg = 0: refused
            case 2: d(i) = sym(rng); break;
            case 3: case 4: d(i) = -state.gx()(i) * (1.0 + 0.9 * sym(rng)); break;
            default: d(i) = -state.gx()(i); break;
            }
            d(i) *= sc;
        }
        const auto x_before = vector_t{state.x()};
        const auto ncalls0  = g_calls.size();
        const auto ok       = ls.get(state, d, logger);
        if (g_calls.size() != ncalls0 + 1)
        {
            fail(id, "kind=one-lsearch0-call-per-lsearch lsearch_t::get made " + std::to_string(g_calls.size() - ncalls0) + " lsearch0 calls");
            break;
        }
        const auto& call = g_calls.back();
        if (pending_refusal && !same(call.last, pending_refusal_t0))
            fail(id, "kind=last-after-refusal the step handed to lsearch0 after a refused direction is " + vh::hexf(call.last) + ", the refused t0 was " + vh::hexf(pending_refusal_t0));
        report_call(id, static_cast<size_t>(k), kind, p, call, rec.m_log, prev, J);
        // the probes of lsearchk
        const auto  first_probe = call.evals_after;
        const auto& log         = rec.m_log;
        std::string line        = "I0LS " + std::to_string(id) + " " + std::to_string(k) + " | ";
        for (size_t e = first_probe; e < log.size(); ++e)
        {
            const auto& r = log[e];
            const auto  v = std::isfinite(r.f) && all_finite(r.x) && r.withg && all_finite(r.g);
            if (e > first_probe) line += ";";
            line += std::string(v ? "1" : "0") + "," + vh::hexf(r.f) + "," + vh::hexf(r.withg ? r.g.dot(d) : std::nan(""));
            for (const auto j : J) line += "," + vh::hexf(r.x(j));
        }
        if (first_probe == log.size()) line += "-";
        line += std::string(" = ") + (ok ? "1" : "0");
        std::puts(line.c_str());
        g_nprobes += static_cast<long>(log.size() - first_probe);
        // direct oracle of the composition: what the line search actually starts from is clamp(t0) in [stpmin, 1]
        const auto descent = call.dg < 0.0;
        pending_refusal    = !descent;
        pending_refusal_t0 = call.t0;
        if (!descent)
        {
            if (ok) fail(id, "kind=refusal success along a non-descent direction");
            if (first_probe != log.size()) fail(id, "kind=refusal lsearchk evaluated the objective along a refused direction");
            g_hist["comp:refused"] += 1;
        }
        else if (first_probe < log.size())
        {
            const auto start = std::isfinite(call.t0) ? std::min(1.0, std::max(call.t0, lsearchk_t::stpmin())) : 1.0;
            if (!(start >= lsearchk_t::stpmin() && start <= 1.0)) fail(id, "kind=start the clamped initial step is outside [stpmin, 1]");
            for (tensor_size_t j = 0; j < n; ++j)
            {
                const volatile double sd = start * d(j);
                if (!same(log[first_probe].x(j), x_before(j) + sd))
                {
                    fail(id, "kind=start the first trial point of lsearchk is not x + clamp(t0, stpmin, 1) * d: t0=" + vh::hexf(call.t0) + " start=" + vh::hexf(start) +
                                 " coordinate " + std::to_string(j) + " = " + vh::hexf(log[first_probe].x(j)));
                    break;
                }
            }
            g_hist[ok ? "comp:ok" : "comp:failed"] += 1;
            if (call.t0 > 1.0) g_hist["comp:t0-above-1-clamped"] += 1;
            if (!(call.t0 >= lsearchk_t::stpmin())) g_hist["comp:t0-below-stpmin-or-nan-clamped"] += 1;
        }
        if (!ok && state.valid() && rng.range(0, 1) == 0)
        {
            // carry on from the origin of the failed search (a solver would stop): exercises last_step_size after a failure
            state.update(x_before);
        }
    }
    // observe m_last_step_size after the last iteration: one more call along the null direction (refused without evaluation)
    if (state.valid())
    {
        vector_t   d0(n);
        d0.full(0.0);
        const auto nbefore = g_calls.size();
        ls.get(state, d0, logger);
        if (g_calls.size() == nbefore + 1) std::printf("I0END %ld %s\n", id, vh::hexf(g_calls.back().last).c_str());
        else std::printf("I0END %ld -\n", id);
    }
    else std::printf("I0END %ld -\n", id);
    g_rec = nullptr;
}
} // namespace

int main(int argc, char** argv)
{
    std::setvbuf(stdout, nullptr, _IOLBF, 0);
    const std::string tier     = argc > 1 ? argv[1] : "quick";
    const long        only     = argc > 2 ? std::atol(argv[2]) : -1;
    const bool        thorough = tier == "thorough";
    const auto        seed     = vh::env_seed();

    std::vector<std::string> smooth_ids;
    for (const auto& fid : function_t::all().ids())
    {
        const auto f = function_t::all().get(fid)->make(2, 10);
        if (f && f->smooth()) smooth_ids.push_back(fid);
    }
    const long cases = thorough ? 60000 : 6000;
    long       runs  = 0;
    for (long id = 0; id < cases; ++id)
    {
        if (only >= 0 && id != only) continue;
        vh::rng_t rng(seed * 1000003ULL + static_cast<uint64_t>(id) * 7919ULL + 0xC0710ULL);
        rng.next();
        switch (id % 5)
        {
        case 0: case 1: run_seq(rng, id); break;
        case 2: run_solver(rng, id, smooth_ids); break;
        default: run_comp(rng, id, smooth_ids); break;
        }
        ++runs;
    }
    std::string h;
    for (const auto& kv : g_hist) h += " " + kv.first + "=" + std::to_string(kv.second);
    std::printf("I0HIST%s\n", h.c_str());
    std::printf("DONE cases=%ld calls=%ld probes=%ld fails=%ld candidates=%ld\n", runs, g_ncalls, g_nprobes, g_fails, g_cands);
    return 0;
}
