// C09 harness: the ML objectives of the real library (linear::function_t, gboost::{bias,scale,grads}_function_t)
// on random small datasets (mixed sclass / mclass / scalar / struct features with missing values, regression and
// classification targets), for several configurations (1..16 worker threads x batch size x cached / uncached x
// 4 scaling modes) of the SAME data and parameter vector.
//
// Output (doubles as C hex floats):
//   DATA <case> n=<n> isize=<d> tsize=<k> | T=<row;row;...> | X=<row;row;...>      scaled, missing -> 0, reference
//   LIN   <case>.<cfg> loss=<0..3> isize= tsize= l1= l2= r2= workers= batch= vtol= | x=.. | gtol=.. | sched=b:e:w,.. = <value> | <gradient>
//   BIAS  <case>.<cfg> loss= workers= batch= vtol= | x=.. | gtol=.. | sched=.. = <value> | <gradient>
//   SCALE <case>.<cfg> loss= workers= batch= vtol= | x=.. | groups=.. | S=rows | W=rows | smp=.. | gtol=.. | sched=.. = <value> | <gradient>
//   GRADS <case>.<cfg> loss= workers= batch= vtol= | O=rows | gtol=.. | sched=.. = <value> | <gx rows> | <gradients() rows>
//   FAIL <clause> <case>.<cfg> ...   direct property violations found on the implementation (independent of the Coq model)
//   DONE cases=<n> ...
// (LIN/BIAS/SCALE/GRADS lines are only printed for the four rational losses mse / mae / hinge / squared hinge; every loss
//  goes through the direct oracles.)
// Usage: c09_objectives quick|thorough [cases [first]]   or   c09_objectives case <index>      seed from VERIF_SEED.
#include "common.h"
#include <algorithm>
#include <array>
#include <map>
#include <mutex>
#include <nano/dataset.h>
#include <nano/dataset/iterator.h>
#include <nano/dataset/stats.h>
#include <nano/datasource.h>
#include <nano/gboost/function.h>
#include <nano/generator/elemwise_identity.h>
#include <nano/linear/function.h>
#include <nano/loss.h>
#include <nano/machine/cluster.h>
#include <nano/verif.h>
#include <functional>
#include <numeric>

#ifndef NANO_VERIF
#error "this harness needs the NANO_VERIF hooks (g_max_threads)"
#endif

using namespace nano;

namespace
{
using ld = long double;

enum kind_t
{
    k_sclass = 0,
    k_mclass,
    k_scalar,
    k_struct
};

struct feat_t
{
    kind_t                           kind{k_scalar};
    int                              width{1}; // classes or struct size
    std::vector<uint8_t>             present;  // per sample
    std::vector<std::vector<double>> values;   // per sample: label / hits / scalars
};

struct case_t
{
    tensor_size_t       rows{0};
    std::vector<feat_t> feats; // the last one is the target (never missing)
};

class c09_datasource_t final : public datasource_t
{
public:
    explicit c09_datasource_t(const case_t& c)
        : datasource_t("c09")
        , m_case(&c)
    {
    }

    rdatasource_t clone() const override { return std::make_unique<c09_datasource_t>(*this); }

private:
    void do_load() override
    {
        const auto& c = *m_case;
        features_t  features;
        for (size_t f = 0; f < c.feats.size(); ++f)
        {
            const auto& ft   = c.feats[f];
            const auto  name = "f" + std::to_string(f);
            strings_t   labels;
            for (int l = 0; l < ft.width; ++l)
            {
                labels.push_back("l" + std::to_string(l));
            }
            switch (ft.kind)
            {
            case k_sclass: features.push_back(feature_t{name}.sclass(labels)); break;
            case k_mclass: features.push_back(feature_t{name}.mclass(labels)); break;
            case k_scalar: features.push_back(feature_t{name}.scalar(feature_type::float64)); break;
            default: features.push_back(feature_t{name}.scalar(feature_type::float64, make_dims(ft.width, 1, 1))); break;
            }
        }
        resize(c.rows, features, c.feats.size() - 1U);
        for (size_t f = 0; f < c.feats.size(); ++f)
        {
            const auto& ft = c.feats[f];
            for (tensor_size_t s = 0; s < c.rows; ++s)
            {
                if (ft.present[static_cast<size_t>(s)] == 0U)
                {
                    continue;
                }
                const auto& v  = ft.values[static_cast<size_t>(s)];
                const auto  fi = static_cast<tensor_size_t>(f);
                switch (ft.kind)
                {
                case k_sclass: set(s, fi, static_cast<int32_t>(v[0])); break;
                case k_mclass:
                {
                    tensor_mem_t<int8_t, 1> hits(ft.width);
                    for (int l = 0; l < ft.width; ++l)
                    {
                        hits(l) = static_cast<int8_t>(v[static_cast<size_t>(l)]);
                    }
                    set(s, fi, hits);
                    break;
                }
                case k_scalar: set(s, fi, v[0]); break;
                default:
                {
                    tensor_mem_t<scalar_t, 3> vals(ft.width, 1, 1);
                    for (int l = 0; l < ft.width; ++l)
                    {
                        vals(l) = v[static_cast<size_t>(l)];
                    }
                    set(s, fi, vals);
                    break;
                }
                }
            }
        }
    }

    const case_t* m_case;
};

// ---- generators ------------------------------------------------------------------------------------------------
struct gen_t
{
    vh::rng_t rng;
    bool      exact{false}; // small dyadic values only: all double arithmetic of the objectives is then exact
    explicit gen_t(uint64_t seed)
        : rng(seed)
    {
    }

    double val() { return exact ? static_cast<double>(rng.range(-24, 24)) / 8.0 : 6.0 * rng.unit() - 3.0; }
    // parameter entries: zeros are frequent (sign(0) = 0 in the l1 gradient)
    double par()
    {
        if (rng.range(0, 5) == 0) return 0.0;
        return exact ? static_cast<double>(rng.range(-16, 16)) / 8.0 : 4.0 * rng.unit() - 2.0;
    }

    tensor_size_t rows()
    {
        switch (rng.range(0, 11))
        {
        case 0: return 1;
        case 1: return 2;
        case 2: return rng.range(3, 4);
        case 3:
        case 4: return rng.range(5, 12);
        case 5:
        case 6:
        case 7: return rng.range(13, 40);
        case 8:
        case 9: return rng.range(41, 100);
        default: return rng.range(101, 200);
        }
    }

    std::vector<uint8_t> presence(tensor_size_t rows, bool optional)
    {
        std::vector<uint8_t> p(static_cast<size_t>(rows), 1U);
        if (!optional) return p;
        double prob = 0.0;
        switch (rng.range(0, 7))
        {
        case 0:
        case 1:
        case 2: return p;
        case 3:
        case 4: prob = 0.1; break;
        case 5: prob = 0.5; break;
        case 6: prob = 0.9; break;
        default: std::fill(p.begin(), p.end(), 0U); return p; // all missing
        }
        for (auto& x : p) x = (rng.unit() < prob) ? 0U : 1U;
        return p;
    }

    feat_t feature(tensor_size_t rows, kind_t kind, bool optional)
    {
        feat_t f;
        f.kind    = kind;
        f.width   = kind == k_scalar ? 1 : static_cast<int>(rng.range(2, kind == k_sclass ? 4 : 3));
        f.present = presence(rows, optional);
        f.values.assign(static_cast<size_t>(rows), {});
        for (auto& v : f.values)
        {
            switch (kind)
            {
            case k_sclass: v.push_back(static_cast<double>(rng.range(0, f.width - 1))); break;
            case k_mclass:
                for (int l = 0; l < f.width; ++l) v.push_back(static_cast<double>(rng.range(0, 1)));
                break;
            default:
                for (int l = 0; l < f.width; ++l) v.push_back(val());
                break;
            }
        }
        return f;
    }

    case_t make_case(std::string& kinds)
    {
        case_t c;
        c.rows            = rows();
        const auto nfeats = rng.range(0, 3) == 0 ? rng.range(5, 10) : rng.range(1, 4);
        int        cols   = 0;
        for (int64_t f = 0; f < nfeats && cols < 20; ++f)
        {
            const auto kind = static_cast<kind_t>(rng.range(0, 3));
            c.feats.push_back(feature(c.rows, kind, true));
            cols += c.feats.back().kind == k_sclass ? c.feats.back().width - 1 : c.feats.back().width;
            kinds += "csxv"[kind];
        }
        static const kind_t tk[] = {k_scalar, k_scalar, k_struct, k_sclass, k_sclass, k_mclass};
        const auto          tkind = tk[rng.range(0, 5)];
        c.feats.push_back(feature(c.rows, tkind, false));
        kinds += "/";
        kinds += "csxv"[tkind];
        return c;
    }
};

// ---- printing ---------------------------------------------------------------------------------------------------
template <class tdata>
std::string hexs(const tdata* p, tensor_size_t n)
{
    std::string s;
    for (tensor_size_t i = 0; i < n; ++i)
    {
        if (i) s += ",";
        s += vh::hexf(static_cast<double>(p[i]));
    }
    return s;
}

std::string rows_str(const scalar_t* p, tensor_size_t rows, tensor_size_t cols)
{
    std::string s;
    for (tensor_size_t r = 0; r < rows; ++r)
    {
        if (r) s += ";";
        s += hexs(p + r * cols, cols);
    }
    return s;
}

std::string ints_str(const tensor_size_t* p, tensor_size_t n)
{
    std::string s;
    for (tensor_size_t i = 0; i < n; ++i)
    {
        if (i) s += ",";
        s += std::to_string(p[i]);
    }
    return s;
}

struct counters_t
{
    long               cases{0}, configs{0}, evals{0}, fails{0}, model_lines{0}, ambiguous{0}, exact_cases{0}, missing_cells{0};
    std::map<int, int> threads, modes, rows_hist, cached;
    std::map<std::string, int> losses, batch_kind, subset_kind;
};
counters_t cnt;

void fail(const std::string& clause, const std::string& id, const std::string& detail)
{
    cnt.fails++;
    if (cnt.fails <= 100)
    {
        std::printf("FAIL %s %s %s\n", clause.c_str(), id.c_str(), detail.substr(0, 20000).c_str());
    }
}

const scaling_type modes[] = {scaling_type::none, scaling_type::mean, scaling_type::minmax, scaling_type::standard};

// rational losses known to the Coq model: id 0..3 (s-/m- prefixes only change error(), not value / vgrad)
int rational_id(const std::string& loss)
{
    if (loss == "mse") return 0;
    if (loss == "mae") return 1;
    if (loss == "s-hinge" || loss == "m-hinge") return 2;
    if (loss == "s-squared-hinge" || loss == "m-squared-hinge") return 3;
    return -1;
}
bool kinked(const std::string& loss) // discontinuous gradient
{
    return loss == "mae" || loss == "s-hinge" || loss == "m-hinge" || loss == "pinball";
}
bool exponential_like(const std::string& loss)
{
    return loss == "s-exponential" || loss == "m-exponential";
}

// ---- per-sample reference through the library's loss on ONE sample (C06 covers the loss kernels themselves) --------
struct sample_loss_t
{
    const loss_t& loss;
    tensor_size_t k;
    tensor4d_t    t, o, g;
    tensor1d_t    v;
    sample_loss_t(const loss_t& l, tensor_size_t tsize)
        : loss(l)
        , k(tsize)
        , t(make_dims(1, tsize, 1, 1))
        , o(make_dims(1, tsize, 1, 1))
        , g(make_dims(1, tsize, 1, 1))
        , v(1)
    {
    }
    // returns the value, fills grad
    double eval(const scalar_t* target, const double* output, double* grad)
    {
        for (tensor_size_t c = 0; c < k; ++c)
        {
            t(c) = target[c];
            o(c) = output[c];
        }
        loss.value(t, o, v);
        loss.vgrad(t, o, g);
        for (tensor_size_t c = 0; c < k; ++c) grad[c] = g(c);
        return v(0);
    }
    // distance to the nearest kink of the gradient, relative to the magnitudes (only for kinked losses)
    double kink_distance(const std::string& id, const scalar_t* target, const double* output) const
    {
        double d = HUGE_VAL;
        for (tensor_size_t c = 0; c < k; ++c)
        {
            const auto tc = target[c], oc = output[c];
            if (id == "mae" || id == "pinball") d = std::min(d, std::fabs(oc - tc) / (1.0 + std::fabs(oc) + std::fabs(tc)));
            else d = std::min(d, std::fabs(1.0 - tc * oc) / (1.0 + std::fabs(tc * oc)));
        }
        return d;
    }
};

struct reference_t
{
    ld                  value{0};
    std::vector<ld>     grad;
    double              vtol{0};
    std::vector<double> gtol;
    bool                ambiguous{false}; // a sample sits (numerically) on a kink of a discontinuous gradient
};

bool close(double impl, ld ref, double tol)
{
    return std::isfinite(impl) && std::fabs(static_cast<ld>(impl) - ref) <= static_cast<ld>(tol);
}

std::string cmp_str(double impl, ld ref, double tol)
{
    return "impl=" + vh::hexf(impl) + " naive=" + vh::hexf(static_cast<double>(ref)) + " tol=" + vh::hexf(tol);
}

// compares value + gradient with a reference; returns false and prints FAIL on the first difference
bool check_against(const std::string& clause, const std::string& id, double fx, const vector_t& gx, const reference_t& ref,
                   const std::string& ctx)
{
    if (!close(fx, ref.value, ref.vtol))
    {
        fail(clause + "-value", id, cmp_str(fx, ref.value, ref.vtol) + " " + ctx);
        return false;
    }
    if (ref.ambiguous)
    {
        return true;
    }
    for (tensor_size_t k = 0; k < gx.size(); ++k)
    {
        if (!close(gx(k), ref.grad[static_cast<size_t>(k)], ref.gtol[static_cast<size_t>(k)]))
        {
            fail(clause + "-grad", id,
                 "coordinate=" + std::to_string(k) + " " + cmp_str(gx(k), ref.grad[static_cast<size_t>(k)], ref.gtol[static_cast<size_t>(k)]) +
                     " " + ctx);
            return false;
        }
    }
    return true;
}

constexpr double REL   = 1e-9;
constexpr double TINY  = 1e-280;
constexpr double KAPPA = 16.0;

struct cfg_t
{
    size_t        threads{1};
    tensor_size_t batch{1};
    tensor_size_t cache_batch{1}; // batch size in force while the caches are filled
    int           cache_flatten{0}; // 0 = no, 1 = yes, 2 = requested with too few bytes (refused)
    int           cache_targets{0};
    std::string   str() const
    {
        return "threads=" + std::to_string(threads) + " batch=" + std::to_string(batch) + " cache_batch=" + std::to_string(cache_batch) +
               " cache_flatten=" + std::to_string(cache_flatten) + " cache_targets=" + std::to_string(cache_targets);
    }
};

tensor_size_t pick_batch(gen_t& g, tensor_size_t n, std::string& kind)
{
    switch (g.rng.range(0, 9))
    {
    case 0: kind = "1"; return 1;
    case 1: kind = "n-1"; return std::max<tensor_size_t>(1, n - 1);
    case 2: kind = "n"; return n;
    case 3: kind = "n+1"; return n + 1;
    case 4: kind = "divisor"; {
        std::vector<tensor_size_t> ds;
        for (tensor_size_t d = 1; d <= n; ++d) if (n % d == 0) ds.push_back(d);
        return ds[static_cast<size_t>(g.rng.range(0, static_cast<int64_t>(ds.size()) - 1))];
    }
    case 5: kind = "huge"; return g.rng.range(1000, 10000);
    case 6: kind = "half"; return std::max<tensor_size_t>(1, (n + 1) / 2);
    default: kind = "small"; return g.rng.range(1, std::max<tensor_size_t>(1, std::min<tensor_size_t>(n, 16)));
    }
}

template <class titerator>
void configure(titerator& it, const cfg_t& cfg, scaling_type mode)
{
    it.batch(cfg.cache_batch);
    it.scaling(mode);
}

std::string sched_str(std::vector<std::array<tensor_size_t, 3>>& sched)
{
    std::string s;
    for (size_t i = 0; i < sched.size(); ++i)
    {
        if (i) s += ",";
        s += std::to_string(sched[i][0]) + ":" + std::to_string(sched[i][1]) + ":" + std::to_string(sched[i][2]);
    }
    return s;
}

// the chunks visited by a loop must be exactly [0,b), [b,2b), ..., [.., n), each once, with tnum < concurrency
bool check_partition(const std::string& id, std::vector<std::array<tensor_size_t, 3>> sched, tensor_size_t n, tensor_size_t batch,
                     size_t concurrency, const std::string& what)
{
    const auto shown = sched_str(sched);
    std::sort(sched.begin(), sched.end());
    tensor_size_t begin = 0;
    bool          ok    = true;
    for (const auto& ev : sched)
    {
        ok = ok && ev[0] == begin && ev[1] == std::min(begin + batch, n) && ev[2] >= 0 && static_cast<size_t>(ev[2]) < concurrency;
        begin = ev[1];
    }
    ok = ok && begin == n;
    if (!ok)
    {
        fail("partition", id, what + ": the visited ranges do not partition [0," + std::to_string(n) + ") in chunks of " + std::to_string(batch) +
                                  " with tnum < " + std::to_string(concurrency) + ": " + shown);
    }
    return ok;
}

bool same_bits(const scalar_t* a, const scalar_t* b, tensor_size_t n, tensor_size_t& where)
{
    for (tensor_size_t i = 0; i < n; ++i)
    {
        if (!(a[i] == b[i]) && !(std::isnan(a[i]) && std::isnan(b[i])))
        {
            where = i;
            return false;
        }
    }
    return true;
}

struct gb_inputs_t
{
    tensor_size_t groups{1};
    cluster_t     cluster;
    tensor4d_t    soutputs, woutputs;
    vector_t      xscale, xscale0;
    vector_t      xbias, xbias0;
    vector_t      xgrads, xgrads0;
};

void run_case(uint64_t seed, long icase, bool thorough)
{
    gen_t g(seed);
    g.exact = (g.rng.range(0, 1) == 0);
    std::string kinds;
    const auto  c  = g.make_case(kinds);
    const auto  id = std::to_string(icase);

    c09_datasource_t ds(c);
    ds.load();

    // sample subset
    indices_t   samples;
    std::string subset;
    {
        std::vector<tensor_size_t> all(static_cast<size_t>(c.rows));
        std::iota(all.begin(), all.end(), 0);
        switch (g.rng.range(0, 5))
        {
        case 0:
        case 1: subset = "all"; break;
        case 2:
        {
            subset       = "range";
            const auto a = g.rng.range(0, c.rows - 1), b = g.rng.range(a + 1, c.rows);
            all          = std::vector<tensor_size_t>(all.begin() + a, all.begin() + b);
            break;
        }
        case 3:
        {
            subset = "sorted-subset";
            std::vector<tensor_size_t> sel;
            for (auto s : all) if (g.rng.range(0, 1)) sel.push_back(s);
            if (sel.empty()) sel.push_back(g.rng.range(0, c.rows - 1));
            all = sel;
            break;
        }
        default:
            subset = "shuffled";
            for (size_t i = all.size(); i > 1; --i) std::swap(all[i - 1], all[static_cast<size_t>(g.rng.range(0, static_cast<int64_t>(i) - 1))]);
            if (g.rng.range(0, 1)) all.resize(std::max<size_t>(1, all.size() / 2));
            break;
        }
        samples.resize(static_cast<tensor_size_t>(all.size()));
        for (size_t i = 0; i < all.size(); ++i) samples(static_cast<tensor_size_t>(i)) = all[i];
    }
    const auto n = samples.size();
    cnt.subset_kind[subset]++;
    cnt.rows_hist[n <= 1 ? 1 : n <= 4 ? 4 : n <= 12 ? 12 : n <= 40 ? 40 : n <= 100 ? 100 : 200]++;
    if (g.exact) cnt.exact_cases++;

    const auto imode = static_cast<int>(g.rng.range(0, 5));
    const auto mode  = modes[imode < 4 ? imode : 0]; // none is the mode of the gboost models: more weight
    cnt.modes[static_cast<int>(mode)]++;
    const bool exact = g.exact && mode == scaling_type::none;

    // ---- reference data: direct calls, single thread, no iterator ----
    dataset_t ref{ds, 1U};
    ref.add<sclass_identity_generator_t>();
    ref.add<mclass_identity_generator_t>();
    ref.add<scalar_identity_generator_t>();
    ref.add<struct_identity_generator_t>();
    const auto isize = ref.columns();
    const auto tsize = ::nano::size(ref.target_dims());
    if (isize <= 0 || tsize <= 0)
    {
        return; // no input column (cannot happen: at least one feature) -- nothing to evaluate
    }
    const bool class_target = c.feats.back().kind == k_sclass || c.feats.back().kind == k_mclass;

    tensor2d_t Xref(n, isize);
    tensor4d_t Tref(cat_dims(n, ref.target_dims()));
    {
        tensor2d_t fb;
        tensor4d_t tb;
        const auto fstats = scalar_stats_t::make_flatten_stats(ref, samples);
        const auto tstats = scalar_stats_t::make_targets_stats(ref, samples);
        const auto X0     = ref.flatten(samples, fb);
        for (tensor_size_t i = 0; i < X0.size(); ++i) cnt.missing_cells += std::isfinite(X0(i)) ? 0 : 1;
        Xref              = X0;
        fstats.scale(mode, Xref.tensor());
        Tref = ref.targets(samples, tb);
        tstats.scale(mode, Tref.tensor());
    }
    for (tensor_size_t i = 0; i < Xref.size(); ++i)
    {
        if (!std::isfinite(Xref(i)))
        {
            return; // a NaN statistic (C14's territory): not an input of this property
        }
    }

    // ---- loss, parameters ----
    std::string loss_id;
    {
        static const char* reg[]   = {"mse", "mae", "cauchy", "pinball"};
        static const char* scls[]  = {"s-hinge", "s-squared-hinge", "s-classnll", "s-savage", "s-tangent", "s-logistic", "s-exponential"};
        static const char* mcls[]  = {"m-hinge", "m-squared-hinge", "m-savage", "m-tangent", "m-logistic", "m-exponential"};
        const auto         r       = g.rng.range(0, 9);
        if (!class_target) loss_id = r < 4 ? "mse" : r < 7 ? "mae" : reg[g.rng.range(2, 3)];
        else if (c.feats.back().kind == k_sclass)
            loss_id = r < 3 ? "s-hinge" : r < 6 ? "s-squared-hinge" : r < 7 ? "mse" : scls[g.rng.range(2, 6)];
        else loss_id = r < 3 ? "m-hinge" : r < 6 ? "m-squared-hinge" : r < 7 ? "mae" : mcls[g.rng.range(2, 5)];
    }
    cnt.losses[loss_id]++;
    const auto rloss = loss_t::all().get(loss_id);
    if (!rloss)
    {
        fail("setup", id, "unknown loss " + loss_id);
        return;
    }
    const auto& loss = *rloss;
    const int   rid  = rational_id(loss_id);

    double l1 = 0.0, l2 = 0.0;
    {
        static const double nice[] = {0.5, 1.0, 2.0, 0.125, 1e-3, 0.1, 3.0, 1e3, 1e6};
        const auto          pick   = [&]() -> double
        {
            switch (g.rng.range(0, 5))
            {
            case 0:
            case 1: return 0.0;
            case 2:
            case 3: return nice[g.rng.range(0, g.exact ? 3 : 8)];
            default: return g.exact ? static_cast<double>(g.rng.range(1, 32)) / 8.0 : std::pow(10.0, -3.0 + 5.0 * g.rng.unit());
            }
        };
        l1 = pick();
        l2 = pick();
    }

    const auto lsize = (isize + 1) * tsize;
    vector_t   xlin(lsize), xlin0(lsize);
    for (tensor_size_t k = 0; k < lsize; ++k)
    {
        xlin(k)  = g.par();
        xlin0(k) = g.par();
    }

    gb_inputs_t gb;
    gb.groups  = g.rng.range(1, 4);
    gb.cluster = cluster_t(ref.samples(), gb.groups);
    {
        const auto unassigned = g.rng.range(0, 3); // 0: none, 1: 30%, 2: 70%, 3: all
        for (tensor_size_t s = 0; s < ref.samples(); ++s)
        {
            const auto u = g.rng.unit();
            if (unassigned == 3 || (unassigned == 1 && u < 0.3) || (unassigned == 2 && u < 0.7)) continue;
            gb.cluster.assign(s, g.rng.range(0, gb.groups - 1));
        }
    }
    gb.soutputs.resize(cat_dims(ref.samples(), ref.target_dims()));
    gb.woutputs.resize(cat_dims(ref.samples(), ref.target_dims()));
    for (tensor_size_t i = 0; i < gb.soutputs.size(); ++i)
    {
        gb.soutputs(i) = g.val();
        gb.woutputs(i) = g.rng.range(0, 7) == 0 ? 0.0 : g.val();
    }
    gb.xscale.resize(gb.groups);
    gb.xscale0.resize(gb.groups);
    for (tensor_size_t k = 0; k < gb.groups; ++k)
    {
        gb.xscale(k)  = g.par();
        gb.xscale0(k) = g.par();
    }
    gb.xbias.resize(tsize);
    gb.xbias0.resize(tsize);
    for (tensor_size_t k = 0; k < tsize; ++k)
    {
        gb.xbias(k)  = g.par();
        gb.xbias0(k) = g.par();
    }
    gb.xgrads.resize(n * tsize);
    gb.xgrads0.resize(n * tsize);
    for (tensor_size_t k = 0; k < n * tsize; ++k)
    {
        gb.xgrads(k)  = g.val();
        gb.xgrads0(k) = g.val();
    }

    // ---- naive per-sample references (independent of batches, threads, caches and of the Coq model) ----
    sample_loss_t       sl(loss, tsize);
    const auto          ts = static_cast<size_t>(tsize);
    const bool          kink = kinked(loss_id);
    const bool          expo = exponential_like(loss_id);
    std::vector<double> out(ts), grad(ts);
    const double        kink_eps = 1e-9;

    reference_t rlin; // linear
    {
        rlin.grad.assign(static_cast<size_t>(lsize), 0);
        std::vector<ld> gmag(static_cast<size_t>(lsize), 0);
        ld              vmag = 0;
        for (tensor_size_t i = 0; i < n; ++i)
        {
            std::vector<ld> a(ts, 0);
            for (tensor_size_t cc = 0; cc < tsize; ++cc)
            {
                ld o = 0;
                for (tensor_size_t j = 0; j < isize; ++j)
                {
                    o += static_cast<ld>(xlin(cc * isize + j)) * Xref(i, j);
                    a[static_cast<size_t>(cc)] += std::fabs(static_cast<ld>(xlin(cc * isize + j)) * Xref(i, j));
                }
                o += xlin(isize * tsize + cc);
                a[static_cast<size_t>(cc)] += std::fabs(xlin(isize * tsize + cc));
                out[static_cast<size_t>(cc)] = static_cast<double>(o);
            }
            const auto v = sl.eval(Tref.data() + i * tsize, out.data(), grad.data());
            if (kink && sl.kink_distance(loss_id, Tref.data() + i * tsize, out.data()) < kink_eps)
            {
                const bool on_kink = sl.kink_distance(loss_id, Tref.data() + i * tsize, out.data()) == 0.0;
                if (!(exact && on_kink)) rlin.ambiguous = true;
            }
            rlin.value += v;
            const ld kappa = KAPPA * (1.0 + (expo ? std::fabs(v) : 0.0));
            vmag += std::fabs(v);
            for (tensor_size_t cc = 0; cc < tsize; ++cc)
            {
                const auto gc = grad[static_cast<size_t>(cc)];
                const auto ac = a[static_cast<size_t>(cc)];
                vmag += std::fabs(gc) * ac + kappa * ac * ac;
                for (tensor_size_t j = 0; j < isize; ++j)
                {
                    rlin.grad[static_cast<size_t>(cc * isize + j)] += static_cast<ld>(gc) * Xref(i, j);
                    gmag[static_cast<size_t>(cc * isize + j)] += (std::fabs(gc) + kappa * ac) * std::fabs(Xref(i, j));
                }
                rlin.grad[static_cast<size_t>(isize * tsize + cc)] += gc;
                gmag[static_cast<size_t>(isize * tsize + cc)] += std::fabs(gc) + kappa * ac;
            }
        }
        rlin.value /= static_cast<ld>(n);
        vmag /= static_cast<ld>(n);
        const auto wsize = isize * tsize;
        ld         abssum = 0, sqsum = 0;
        for (tensor_size_t k = 0; k < wsize; ++k)
        {
            abssum += std::fabs(xlin(k));
            sqsum += static_cast<ld>(xlin(k)) * xlin(k);
        }
        const ld reg = static_cast<ld>(l1) * abssum / static_cast<ld>(wsize) + static_cast<ld>(l2) / 2 * sqsum / static_cast<ld>(wsize);
        rlin.value += reg;
        rlin.vtol = static_cast<double>(REL * (vmag + reg)) + TINY;
        rlin.gtol.assign(static_cast<size_t>(lsize), 0.0);
        for (tensor_size_t k = 0; k < lsize; ++k)
        {
            auto& gk = rlin.grad[static_cast<size_t>(k)];
            gk /= static_cast<ld>(n);
            ld rg = 0;
            if (k < wsize)
            {
                const auto w = xlin(k);
                const ld   s = w > 0 ? 1 : w < 0 ? -1 : 0;
                rg           = static_cast<ld>(l1) * s / static_cast<ld>(wsize) + static_cast<ld>(l2) * w / static_cast<ld>(wsize);
            }
            gk += rg;
            rlin.gtol[static_cast<size_t>(k)] = static_cast<double>(REL * (gmag[static_cast<size_t>(k)] / static_cast<ld>(n) + std::fabs(rg))) + TINY;
        }
    }

    reference_t rbias; // gboost bias: output = x
    {
        rbias.grad.assign(ts, 0);
        std::vector<ld> gmag(ts, 0);
        ld              vmag = 0;
        for (tensor_size_t cc = 0; cc < tsize; ++cc) out[static_cast<size_t>(cc)] = gb.xbias(cc);
        for (tensor_size_t i = 0; i < n; ++i)
        {
            const auto v = sl.eval(Tref.data() + i * tsize, out.data(), grad.data());
            if (kink && sl.kink_distance(loss_id, Tref.data() + i * tsize, out.data()) < kink_eps)
            {
                const bool on_kink = sl.kink_distance(loss_id, Tref.data() + i * tsize, out.data()) == 0.0;
                if (!(exact && on_kink)) rbias.ambiguous = true;
            }
            rbias.value += v;
            vmag += std::fabs(v);
            for (size_t cc = 0; cc < ts; ++cc)
            {
                rbias.grad[cc] += grad[cc];
                gmag[cc] += std::fabs(grad[cc]);
            }
        }
        rbias.value /= static_cast<ld>(n);
        rbias.vtol = static_cast<double>(REL * vmag / static_cast<ld>(n)) + TINY;
        for (size_t cc = 0; cc < ts; ++cc)
        {
            rbias.grad[cc] /= static_cast<ld>(n);
            rbias.gtol.push_back(static_cast<double>(REL * gmag[cc] / static_cast<ld>(n)) + TINY);
        }
    }

    reference_t rscale; // gboost scale: output = s + x[group] * w, unassigned: s alone
    {
        const auto gs = static_cast<size_t>(gb.groups);
        rscale.grad.assign(gs, 0);
        std::vector<ld> gmag(gs, 0);
        ld              vmag = 0;
        for (tensor_size_t i = 0; i < n; ++i)
        {
            const auto      s     = samples(i);
            const auto      group = gb.cluster.group(s);
            std::vector<ld> a(ts, 0);
            for (tensor_size_t cc = 0; cc < tsize; ++cc)
            {
                const auto so = gb.soutputs.data()[s * tsize + cc], wo = gb.woutputs.data()[s * tsize + cc];
                ld         o  = so;
                a[static_cast<size_t>(cc)] = std::fabs(so);
                if (group >= 0)
                {
                    o += static_cast<ld>(gb.xscale(group)) * wo;
                    a[static_cast<size_t>(cc)] += std::fabs(static_cast<ld>(gb.xscale(group)) * wo);
                }
                out[static_cast<size_t>(cc)] = static_cast<double>(o);
            }
            const auto v = sl.eval(Tref.data() + i * tsize, out.data(), grad.data());
            if (kink && sl.kink_distance(loss_id, Tref.data() + i * tsize, out.data()) < kink_eps)
            {
                const bool on_kink = sl.kink_distance(loss_id, Tref.data() + i * tsize, out.data()) == 0.0;
                if (!(exact && on_kink)) rscale.ambiguous = true;
            }
            rscale.value += v;
            const ld kappa = KAPPA * (1.0 + (expo ? std::fabs(v) : 0.0));
            vmag += std::fabs(v);
            for (tensor_size_t cc = 0; cc < tsize; ++cc)
            {
                const auto gc = grad[static_cast<size_t>(cc)];
                const auto ac = a[static_cast<size_t>(cc)];
                const auto wo = gb.woutputs.data()[s * tsize + cc];
                vmag += std::fabs(gc) * ac + kappa * ac * ac;
                if (group >= 0)
                {
                    rscale.grad[static_cast<size_t>(group)] += static_cast<ld>(gc) * wo;
                    gmag[static_cast<size_t>(group)] += (std::fabs(gc) + kappa * ac) * std::fabs(wo);
                }
            }
        }
        rscale.value /= static_cast<ld>(n);
        rscale.vtol = static_cast<double>(REL * vmag / static_cast<ld>(n)) + TINY;
        for (size_t k = 0; k < gs; ++k)
        {
            rscale.grad[k] /= static_cast<ld>(n);
            rscale.gtol.push_back(static_cast<double>(REL * gmag[k] / static_cast<ld>(n)) + TINY);
        }
    }

    reference_t rgrads; // gboost grads: output = x, gradient = per-sample loss gradient / n
    std::vector<double> raw_grads(static_cast<size_t>(n * tsize)); // what gradients() must return
    {
        rgrads.grad.assign(static_cast<size_t>(n * tsize), 0);
        ld vmag = 0;
        for (tensor_size_t i = 0; i < n; ++i)
        {
            for (tensor_size_t cc = 0; cc < tsize; ++cc) out[static_cast<size_t>(cc)] = gb.xgrads(i * tsize + cc);
            const auto v = sl.eval(Tref.data() + i * tsize, out.data(), grad.data());
            rgrads.value += v;
            vmag += std::fabs(v);
            for (tensor_size_t cc = 0; cc < tsize; ++cc)
            {
                raw_grads[static_cast<size_t>(i * tsize + cc)]   = grad[static_cast<size_t>(cc)];
                rgrads.grad[static_cast<size_t>(i * tsize + cc)] = static_cast<ld>(grad[static_cast<size_t>(cc)]) / static_cast<ld>(n);
                rgrads.gtol.push_back(static_cast<double>(REL * std::fabs(grad[static_cast<size_t>(cc)]) / static_cast<ld>(n)) + TINY);
            }
        }
        rgrads.value /= static_cast<ld>(n);
        rgrads.vtol = static_cast<double>(REL * vmag / static_cast<ld>(n)) + TINY;
    }
    if (rlin.ambiguous || rbias.ambiguous || rscale.ambiguous) cnt.ambiguous++;

    const auto ctx0 = "loss=" + loss_id + " mode=" + std::to_string(static_cast<int>(mode)) + " n=" + std::to_string(n) + " isize=" +
                      std::to_string(isize) + " tsize=" + std::to_string(tsize) + " feats=" + kinds + " subset=" + subset +
                      " exact=" + std::to_string(exact ? 1 : 0);

    if (rid >= 0)
    {
        std::printf("DATA %s n=%ld isize=%ld tsize=%ld | T=%s | X=%s\n", id.c_str(), static_cast<long>(n), static_cast<long>(isize),
                    static_cast<long>(tsize), rows_str(Tref.data(), n, tsize).c_str(), rows_str(Xref.data(), n, isize).c_str());
    }

    // ---- (extension) the per-sample loss values exactly as the objectives form them (same loss call, same double
    // arithmetic for the outputs): the TERMS of the sums whose re-association the proved bound C09_fp_mean covers.
    // The driver checks |fx - mean(terms)| <= gamma_{n + workers} mean|terms| + 2^-1075 in exact rational arithmetic.
    {
        tensor4d_t outs(cat_dims(n, ref.target_dims()));
        tensor1d_t vb(n), vs(n), vg(n);
        for (tensor_size_t i = 0; i < n; ++i)
            for (tensor_size_t cc = 0; cc < tsize; ++cc) outs(i * tsize + cc) = gb.xbias(cc);
        loss.value(Tref, outs, vb);
        for (tensor_size_t i = 0; i < n; ++i)
        {
            const auto   s     = samples(i);
            const auto   group = gb.cluster.group(s);
            const double scale = (group < 0) ? 0.0 : gb.xscale(group);
            for (tensor_size_t cc = 0; cc < tsize; ++cc)
            {
                const double so = gb.soutputs.data()[s * tsize + cc], wo = gb.woutputs.data()[s * tsize + cc];
                const double sw = scale * wo; // one rounded product, one rounded sum: what the Eigen expression does (no FMA)
                outs(i * tsize + cc) = so + sw;
            }
        }
        loss.value(Tref, outs, vs);
        for (tensor_size_t k = 0; k < n * tsize; ++k) outs(k) = gb.xgrads(k);
        loss.value(Tref, outs, vg);
        std::printf("AVALS %s n=%ld | bias=%s | scale=%s | grads=%s\n", id.c_str(), static_cast<long>(n), hexs(vb.data(), n).c_str(),
                    hexs(vs.data(), n).c_str(), hexs(vg.data(), n).c_str());
    }

    // ---- configurations ----
    const int nconfigs = thorough ? 5 : 3;
    struct result_t
    {
        double   fx;
        vector_t gx;
        cfg_t    cfg;
    };
    std::vector<result_t> lin_results, bias_results, scale_results, grads_results;

    for (int icfg = 0; icfg < nconfigs; ++icfg)
    {
        cfg_t       cfg;
        std::string bk;
        cfg.threads = icfg == 0 ? 1U : static_cast<size_t>(g.rng.range(2, 16));
        if (icfg > 0 && g.rng.range(0, 9) == 0) cfg.threads = 1U;
        cfg.batch         = pick_batch(g, n, bk);
        cfg.cache_batch   = g.rng.range(0, 2) == 0 ? pick_batch(g, n, bk) : cfg.batch;
        cfg.cache_flatten = static_cast<int>(g.rng.range(0, 4) == 4 ? 2 : g.rng.range(0, 1));
        cfg.cache_targets = static_cast<int>(g.rng.range(0, 4) == 4 ? 2 : g.rng.range(0, 1));
        cnt.batch_kind[bk]++;
        cnt.threads[static_cast<int>(cfg.threads)]++;
        cnt.cached[cfg.cache_flatten * 3 + cfg.cache_targets]++;
        cnt.configs++;
        const auto cid = id + "." + std::to_string(icfg);
        const auto ctx = ctx0 + " " + cfg.str() + " replay: c09_objectives case " + id;

        dataset_t dataset{ds, cfg.threads};
        dataset.add<sclass_identity_generator_t>();
        dataset.add<mclass_identity_generator_t>();
        dataset.add<scalar_identity_generator_t>();
        dataset.add<struct_identity_generator_t>();
        if (dataset.concurrency() != cfg.threads)
        {
            fail("setup", cid, "concurrency " + std::to_string(dataset.concurrency()) + " != requested threads " + ctx);
            continue;
        }
        const auto huge = std::numeric_limits<tensor_size_t>::max();

        auto fit = flatten_iterator_t{dataset, samples};
        configure(fit, cfg, mode);
        if (cfg.cache_flatten == 1 && !fit.cache_flatten(huge)) fail("cache", cid, "cache_flatten refused with unlimited bytes " + ctx);
        if (cfg.cache_flatten == 2 && fit.cache_flatten(8 * n * isize - 1)) fail("cache", cid, "cache_flatten accepted with too few bytes " + ctx);
        if (cfg.cache_targets == 1 && !fit.cache_targets(huge)) fail("cache", cid, "cache_targets refused with unlimited bytes " + ctx);
        if (cfg.cache_targets == 2 && fit.cache_targets(8 * n * tsize - 1)) fail("cache", cid, "cache_targets accepted with too few bytes " + ctx);
        fit.batch(cfg.batch);

        auto tit = targets_iterator_t{dataset, samples};
        configure(tit, cfg, mode);
        if (cfg.cache_targets == 1 && !tit.cache_targets(huge)) fail("cache", cid, "cache_targets refused with unlimited bytes " + ctx);
        if (cfg.cache_targets == 2 && tit.cache_targets(8 * n * tsize - 1)) fail("cache", cid, "cache_targets accepted with too few bytes " + ctx);
        tit.batch(cfg.batch);

        // what the iterators deliver, and the schedule they take
        std::mutex                                 mu;
        std::vector<std::array<tensor_size_t, 3>>  sched, tsched;
        tensor2d_t                                 Xgot(n, isize);
        tensor4d_t                                 Tgot(cat_dims(n, dataset.target_dims())), Tgot2(cat_dims(n, dataset.target_dims()));
        Xgot.full(std::numeric_limits<scalar_t>::quiet_NaN());
        Tgot.full(std::numeric_limits<scalar_t>::quiet_NaN());
        Tgot2.full(std::numeric_limits<scalar_t>::quiet_NaN());
        fit.loop(
            [&](tensor_range_t range, size_t tnum, tensor2d_cmap_t inputs, tensor4d_cmap_t targets)
            {
                const std::scoped_lock lock(mu);
                sched.push_back({range.begin(), range.end(), static_cast<tensor_size_t>(tnum)});
                if (range.begin() >= 0 && range.end() <= n && range.begin() <= range.end() && inputs.size<0>() == range.size() &&
                    targets.size<0>() == range.size())
                {
                    Xgot.slice(range) = inputs;
                    Tgot.slice(range) = targets;
                }
            });
        tit.loop(
            [&](tensor_range_t range, size_t tnum, tensor4d_cmap_t targets)
            {
                const std::scoped_lock lock(mu);
                tsched.push_back({range.begin(), range.end(), static_cast<tensor_size_t>(tnum)});
                if (range.begin() >= 0 && range.end() <= n && range.begin() <= range.end() && targets.size<0>() == range.size())
                {
                    Tgot2.slice(range) = targets;
                }
            });
        check_partition(cid, sched, n, cfg.batch, dataset.concurrency(), "flatten_iterator_t::loop " + ctx);
        check_partition(cid, tsched, n, cfg.batch, dataset.concurrency(), "targets_iterator_t::loop " + ctx);
        tensor_size_t where = 0;
        if (!same_bits(Xgot.data(), Xref.data(), Xref.size(), where))
        {
            fail("deliver-inputs", cid, "flatten_iterator_t delivers " + vh::hexf(Xgot(where)) + " instead of " + vh::hexf(Xref(where)) +
                                            " at sample " + std::to_string(where / isize) + " column " + std::to_string(where % isize) + " " + ctx);
        }
        if (!same_bits(Tgot.data(), Tref.data(), Tref.size(), where))
        {
            fail("deliver-targets", cid, "flatten_iterator_t delivers target " + vh::hexf(Tgot(where)) + " instead of " + vh::hexf(Tref(where)) +
                                             " at sample " + std::to_string(where / tsize) + " " + ctx);
        }
        if (!same_bits(Tgot2.data(), Tref.data(), Tref.size(), where))
        {
            fail("deliver-targets", cid, "targets_iterator_t delivers target " + vh::hexf(Tgot2(where)) + " instead of " + vh::hexf(Tref(where)) +
                                             " at sample " + std::to_string(where / tsize) + " " + ctx);
        }
        const auto sstr = sched_str(sched);
        const auto head = " loss=" + std::to_string(rid) + " workers=" + std::to_string(dataset.concurrency()) + " batch=" + std::to_string(cfg.batch);

        // ---- linear objective: warm-up at another point first (stale accumulators / buffers must not leak) ----
        {
            const auto function = linear::function_t{fit, loss, l1, l2};
            vector_t   gx(lsize), gx0(lsize);
            if (function.size() != lsize)
            {
                fail("lin-size", cid, "size " + std::to_string(function.size()) + " " + ctx);
            }
            else
            {
                function.vgrad(xlin0, gx0);
                const auto fx = function.vgrad(xlin, gx);
                const auto f2 = function.vgrad(xlin); // value only
                cnt.evals += 3;
                const auto lctx = "l1=" + vh::hexf(l1) + " l2=" + vh::hexf(l2) + " x=" + hexs(xlin.data(), lsize) + " " + ctx;
                check_against("lin-naive", cid, fx, gx, rlin, lctx);
                if (!close(f2, fx, 2 * rlin.vtol)) fail("lin-value-only", cid, "vgrad(x) without gradient " + cmp_str(f2, fx, 2 * rlin.vtol) + " " + lctx);
                lin_results.push_back({fx, gx, cfg});
                if (rid >= 0)
                {
                    cnt.model_lines++;
                    std::printf("LIN %s%s isize=%ld tsize=%ld l1=%s l2=%s r2=%s vtol=%s amb=%d | x=%s | gtol=%s | sched=%s = %s | %s\n", cid.c_str(),
                                head.c_str(), static_cast<long>(isize), static_cast<long>(tsize), vh::hexf(l1).c_str(), vh::hexf(l2).c_str(),
                                vh::hexf(std::sqrt(l2)).c_str(), vh::hexf(rlin.vtol).c_str(), rlin.ambiguous ? 1 : 0, hexs(xlin.data(), lsize).c_str(),
                                hexs(rlin.gtol.data(), lsize).c_str(), sstr.c_str(), vh::hexf(fx).c_str(), hexs(gx.data(), lsize).c_str());
                }
            }
        }
        // ---- gboost bias ----
        {
            const auto function = gboost::bias_function_t{tit, loss};
            vector_t   gx(tsize), gx0(tsize);
            function.vgrad(gb.xbias0, gx0);
            const auto fx = function.vgrad(gb.xbias, gx);
            const auto f2 = function.vgrad(gb.xbias);
            cnt.evals += 3;
            const auto bctx = "x=" + hexs(gb.xbias.data(), tsize) + " " + ctx;
            check_against("bias-naive", cid, fx, gx, rbias, bctx);
            if (!close(f2, fx, 2 * rbias.vtol)) fail("bias-value-only", cid, cmp_str(f2, fx, 2 * rbias.vtol) + " " + bctx);
            bias_results.push_back({fx, gx, cfg});
            std::printf("ASSOC %s obj=bias workers=%zu zeros=%zu = %s\n", cid.c_str(), dataset.concurrency(), dataset.concurrency(), vh::hexf(fx).c_str());
            if (rid >= 0)
            {
                cnt.model_lines++;
                std::printf("BIAS %s%s vtol=%s amb=%d | x=%s | gtol=%s | sched=%s = %s | %s\n", cid.c_str(), head.c_str(), vh::hexf(rbias.vtol).c_str(),
                            rbias.ambiguous ? 1 : 0, hexs(gb.xbias.data(), tsize).c_str(), hexs(rbias.gtol.data(), tsize).c_str(), sstr.c_str(),
                            vh::hexf(fx).c_str(), hexs(gx.data(), tsize).c_str());
            }
        }
        // ---- gboost scale ----
        {
            const auto function = gboost::scale_function_t{tit, loss, gb.cluster, gb.soutputs, gb.woutputs};
            vector_t   gx(gb.groups), gx0(gb.groups);
            function.vgrad(gb.xscale0, gx0);
            const auto fx = function.vgrad(gb.xscale, gx);
            const auto f2 = function.vgrad(gb.xscale);
            cnt.evals += 3;
            const auto sctx = "x=" + hexs(gb.xscale.data(), gb.groups) + " " + ctx;
            check_against("scale-naive", cid, fx, gx, rscale, sctx);
            if (!close(f2, fx, 2 * rscale.vtol)) fail("scale-value-only", cid, cmp_str(f2, fx, 2 * rscale.vtol) + " " + sctx);
            scale_results.push_back({fx, gx, cfg});
            std::printf("ASSOC %s obj=scale workers=%zu zeros=%zu = %s\n", cid.c_str(), dataset.concurrency(), dataset.concurrency(), vh::hexf(fx).c_str());
            if (rid >= 0)
            {
                cnt.model_lines++;
                indices_t grp(ref.samples());
                for (tensor_size_t s = 0; s < ref.samples(); ++s) grp(s) = gb.cluster.group(s);
                std::printf("SCALE %s%s vtol=%s amb=%d | x=%s | groups=%s | S=%s | W=%s | smp=%s | gtol=%s | sched=%s = %s | %s\n", cid.c_str(),
                            head.c_str(), vh::hexf(rscale.vtol).c_str(), rscale.ambiguous ? 1 : 0, hexs(gb.xscale.data(), gb.groups).c_str(),
                            ints_str(grp.data(), grp.size()).c_str(), rows_str(gb.soutputs.data(), ref.samples(), tsize).c_str(),
                            rows_str(gb.woutputs.data(), ref.samples(), tsize).c_str(), ints_str(samples.data(), n).c_str(),
                            hexs(rscale.gtol.data(), gb.groups).c_str(), sstr.c_str(), vh::hexf(fx).c_str(), hexs(gx.data(), gb.groups).c_str());
            }
        }
        // ---- gboost grads ----
        {
            const auto function = gboost::grads_function_t{tit, loss};
            const auto gsize    = n * tsize;
            vector_t   gx(gsize), gx0(gsize);
            if (function.size() != gsize)
            {
                fail("grads-size", cid, "size " + std::to_string(function.size()) + " " + ctx);
            }
            else
            {
                function.vgrad(gb.xgrads0, gx0);
                const auto fx = function.vgrad(gb.xgrads, gx);
                cnt.evals += 2;
                const auto gctx = "x=" + hexs(gb.xgrads.data(), std::min<tensor_size_t>(gsize, 64)) + " " + ctx;
                check_against("grads-naive", cid, fx, gx, rgrads, gctx);
                const auto& raw = function.gradients(map_tensor(gb.xgrads.data(), cat_dims(n, dataset.target_dims())));
                for (tensor_size_t k = 0; k < gsize; ++k)
                {
                    const auto want = raw_grads[static_cast<size_t>(k)];
                    if (!close(raw(k), want, REL * std::fabs(want) + TINY))
                    {
                        fail("grads-gradients", cid, "gradients() entry " + std::to_string(k) + " " + cmp_str(raw(k), want, REL * std::fabs(want)) + " " + gctx);
                        break;
                    }
                }
                grads_results.push_back({fx, gx, cfg});
                std::printf("ASSOC %s obj=grads workers=%zu zeros=0 = %s\n", cid.c_str(), dataset.concurrency(), vh::hexf(fx).c_str());
                if (rid >= 0)
                {
                    cnt.model_lines++;
                    std::printf("GRADS %s%s vtol=%s | O=%s | gtol=%s | sched=%s = %s | %s | %s\n", cid.c_str(), head.c_str(), vh::hexf(rgrads.vtol).c_str(),
                                rows_str(gb.xgrads.data(), n, tsize).c_str(), hexs(rgrads.gtol.data(), gsize).c_str(), sstr.c_str(),
                                vh::hexf(fx).c_str(), rows_str(gx.data(), n, tsize).c_str(), rows_str(raw.data(), n, tsize).c_str());
                }
            }
        }
    }

    // ---- the values must not depend on the configuration (threads, batch, caches) beyond re-association ----
    const auto independent = [&](const char* what, const std::vector<result_t>& rs, const reference_t& ref)
    {
        for (size_t a = 1; a < rs.size(); ++a)
        {
            if (!close(rs[a].fx, rs[0].fx, 2 * ref.vtol))
            {
                fail(std::string("config-") + what, id, "value " + vh::hexf(rs[0].fx) + " under [" + rs[0].cfg.str() + "] but " + vh::hexf(rs[a].fx) +
                                                            " under [" + rs[a].cfg.str() + "] tol=" + vh::hexf(2 * ref.vtol) + " " + ctx0);
                return;
            }
            if (ref.ambiguous) continue;
            for (tensor_size_t k = 0; k < rs[a].gx.size(); ++k)
            {
                if (!close(rs[a].gx(k), rs[0].gx(k), 2 * ref.gtol[static_cast<size_t>(k)]))
                {
                    fail(std::string("config-") + what, id, "gradient coordinate " + std::to_string(k) + " " + vh::hexf(rs[0].gx(k)) + " under [" +
                                                                rs[0].cfg.str() + "] but " + vh::hexf(rs[a].gx(k)) + " under [" + rs[a].cfg.str() + "] " + ctx0);
                    return;
                }
            }
        }
    };
    independent("lin", lin_results, rlin);
    independent("bias", bias_results, rbias);
    independent("scale", scale_results, rscale);
    independent("grads", grads_results, rgrads);
    cnt.cases++;
}


// =====================================================================================================================
// (extension) REAL stage: small datasets, EVERY registered loss; the library's objectives against
//   * an independent closed-form long-double implementation of the 11 loss kernels (nothing of the library's loss code),
//   * a central finite difference of that closed-form value along a random direction (gradient = derivative of the value),
//   * and, through the R* lines, the real-valued Coq specification (per-run interval lemmas generated by tools/checks/c09.py).
// Lines: RLOSSES ids=a,b,...     the registry of the library
//        RLIN  <id> loss=<name> alpha=<hex> isize= tsize= l1= l2= | T=rows | X=rows | x=.. = <value> | <gradient>
//        RBIAS <id> loss= alpha= | T=rows | x=.. = <value> | <gradient>
//        RSCALE <id> loss= alpha= | T=rows | x=.. | groups=.. | S=rows | W=rows = <value> | <gradient>      (per position)
//        RGRADS <id> loss= alpha= | T=rows | O=rows = <value> | <gradient rows>
// =====================================================================================================================
struct closed_loss_t
{
    std::string base;
    ld          alpha{0.5L};
    static ld   sgn(ld a) { return a > 0 ? 1.0L : a < 0 ? -1.0L : 0.0L; }
    ld          value(const double* t, const ld* o, tensor_size_t k) const
    {
        ld v = 0;
        if (base == "classnll")
        {
            ld m = o[0];
            for (tensor_size_t c = 1; c < k; ++c) m = std::max(m, o[c]);
            ld se = std::numeric_limits<double>::epsilon(), pos = 0;
            for (tensor_size_t c = 0; c < k; ++c)
            {
                se += std::exp(o[c] - m);
                if (t[c] > 0) pos += o[c];
            }
            return std::log(se) - pos + m;
        }
        for (tensor_size_t c = 0; c < k; ++c)
        {
            const ld tc = t[c], oc = o[c];
            if (base == "mse") v += 0.5L * (oc - tc) * (oc - tc);
            else if (base == "mae") v += std::fabs(oc - tc);
            else if (base == "cauchy") v += 0.5L * std::log((tc - oc) * (tc - oc) + 1.0L);
            else if (base == "pinball") v += alpha * std::max(tc - oc, 0.0L) + (1.0L - alpha) * std::max(oc - tc, 0.0L);
            else if (base == "hinge") v += std::max(1.0L - tc * oc, 0.0L);
            else if (base == "squared-hinge") v += std::max(1.0L - tc * oc, 0.0L) * std::max(1.0L - tc * oc, 0.0L);
            else if (base == "savage") v += 1.0L / ((1.0L + std::exp(tc * oc)) * (1.0L + std::exp(tc * oc)));
            else if (base == "tangent") v += (2.0L * std::atan(tc * oc) - 1.0L) * (2.0L * std::atan(tc * oc) - 1.0L);
            else if (base == "logistic") v += std::log1p(std::exp(-tc * oc));
            else if (base == "exponential") v += std::exp(-tc * oc);
        }
        return v;
    }
    void grad(const double* t, const ld* o, tensor_size_t k, ld* g) const
    {
        if (base == "classnll")
        {
            ld m = o[0];
            for (tensor_size_t c = 1; c < k; ++c) m = std::max(m, o[c]);
            ld se = 0;
            for (tensor_size_t c = 0; c < k; ++c) se += std::exp(o[c] - m);
            for (tensor_size_t c = 0; c < k; ++c) g[c] = std::exp(o[c] - m) / se - (t[c] > 0 ? 1.0L : 0.0L);
            return;
        }
        for (tensor_size_t c = 0; c < k; ++c)
        {
            const ld tc = t[c], oc = o[c];
            if (base == "mse") g[c] = oc - tc;
            else if (base == "mae") g[c] = sgn(oc - tc);
            else if (base == "cauchy") g[c] = (oc - tc) / (1.0L + (oc - tc) * (oc - tc));
            else if (base == "pinball") g[c] = -alpha + 0.5L * (1.0L - sgn(tc - oc));
            else if (base == "hinge") g[c] = -tc * (sgn(1.0L - tc * oc) + 1.0L) * 0.5L;
            else if (base == "squared-hinge") g[c] = -tc * std::max(1.0L - tc * oc, 0.0L) * 2.0L;
            else if (base == "savage") g[c] = -2.0L * tc / ((1.0L + std::exp(tc * oc)) * (1.0L + std::exp(tc * oc)) * (1.0L + std::exp(-tc * oc)));
            else if (base == "tangent") g[c] = 4.0L * tc * (2.0L * std::atan(tc * oc) - 1.0L) / (1.0L + (tc * oc) * (tc * oc));
            else if (base == "logistic") g[c] = -tc * (std::exp(-tc * oc) / (1.0L + std::exp(-tc * oc)));
            else if (base == "exponential") g[c] = -tc * std::exp(-tc * oc);
        }
    }
    bool smooth() const { return base != "mae" && base != "pinball" && base != "hinge"; }
    bool kinked_value() const { return base == "mae" || base == "pinball" || base == "hinge" || base == "squared-hinge"; }
};

std::string base_of(const std::string& id)
{
    return (id.rfind("s-", 0) == 0 || id.rfind("m-", 0) == 0) ? id.substr(2) : id;
}

long real_lines = 0, real_cases = 0, real_fd = 0;
std::map<std::string, int> real_losses;

void run_real_case(uint64_t seed, long icase)
{
    gen_t g(seed);
    g.exact = false;
    const auto ids = loss_t::all().ids();
    const auto loss_id = ids[static_cast<size_t>(icase) % ids.size()];
    const auto base    = base_of(loss_id);
    const auto id      = "r" + std::to_string(icase);
    const bool sclass  = loss_id.rfind("s-", 0) == 0;
    const bool mclass  = loss_id.rfind("m-", 0) == 0;

    // tiny dataset: 1..4 samples, 1..2 features (scalar / struct / sclass, some values missing), target by loss type
    case_t c;
    c.rows            = g.rng.range(1, 4);
    const auto nfeats = g.rng.range(1, 2);
    for (int64_t f = 0; f < nfeats; ++f)
    {
        static const kind_t fk[] = {k_scalar, k_scalar, k_struct, k_sclass};
        c.feats.push_back(g.feature(c.rows, fk[g.rng.range(0, 3)], g.rng.range(0, 2) == 0));
    }
    c.feats.push_back(g.feature(c.rows, sclass ? k_sclass : mclass ? k_mclass : (g.rng.range(0, 1) ? k_scalar : k_struct), false));
    c09_datasource_t ds(c);
    ds.load();

    indices_t samples(c.rows);
    for (tensor_size_t i = 0; i < c.rows; ++i) samples(i) = i;
    if (c.rows > 1 && g.rng.range(0, 2) == 0) std::swap(samples(0), samples(c.rows - 1));
    const auto n = samples.size();

    const auto threads = static_cast<size_t>(g.rng.range(1, 3));
    const auto mode    = modes[g.rng.range(0, 3)];
    dataset_t  dataset{ds, threads};
    dataset.add<sclass_identity_generator_t>();
    dataset.add<mclass_identity_generator_t>();
    dataset.add<scalar_identity_generator_t>();
    dataset.add<struct_identity_generator_t>();
    const auto isize = dataset.columns();
    const auto tsize = ::nano::size(dataset.target_dims());
    if (isize <= 0 || tsize <= 0 || isize > 4) return;

    // the exact inputs of the specification: what the library's own single-threaded direct calls deliver
    tensor2d_t X(n, isize);
    tensor4d_t T(cat_dims(n, dataset.target_dims()));
    {
        tensor2d_t fb;
        tensor4d_t tb;
        const auto fstats = scalar_stats_t::make_flatten_stats(dataset, samples);
        const auto tstats = scalar_stats_t::make_targets_stats(dataset, samples);
        X                 = dataset.flatten(samples, fb);
        fstats.scale(mode, X.tensor());
        T = dataset.targets(samples, tb);
        tstats.scale(mode, T.tensor());
    }
    for (tensor_size_t i = 0; i < X.size(); ++i) if (!std::isfinite(X(i))) return;
    for (tensor_size_t i = 0; i < T.size(); ++i) if (!std::isfinite(T(i))) return;

    auto rloss = loss_t::all().get(loss_id);
    if (!rloss) { fail("setup", id, "unknown loss " + loss_id); return; }
    closed_loss_t cl;
    cl.base = base;
    if (base == "pinball")
    {
        static const double alphas[] = {0.5, 0.25, 0.125, 0.75, 0.9};
        const double        a        = alphas[g.rng.range(0, 4)];
        rloss->parameter("loss::pinball::alpha") = a;
        cl.alpha                                 = a;
    }
    const auto& loss = *rloss;
    real_losses[loss_id]++;
    real_cases++;

    static const double regs[] = {0.0, 0.0, 0.5, 1.0, 0.125, 2.0, 0.1, 3.0};
    const double        l1 = regs[g.rng.range(0, 7)], l2 = regs[g.rng.range(0, 7)];
    const auto          lsize = (isize + 1) * tsize;
    vector_t            xlin(lsize), xlin0(lsize);
    for (tensor_size_t k = 0; k < lsize; ++k) { xlin(k) = g.par(); xlin0(k) = g.par(); }
    const auto groups = g.rng.range(1, 3);
    cluster_t  cluster(dataset.samples(), groups);
    for (tensor_size_t s = 0; s < dataset.samples(); ++s) if (g.rng.range(0, 3) != 0) cluster.assign(s, g.rng.range(0, groups - 1));
    tensor4d_t so(cat_dims(dataset.samples(), dataset.target_dims())), wo(cat_dims(dataset.samples(), dataset.target_dims()));
    for (tensor_size_t i = 0; i < so.size(); ++i) { so(i) = g.val(); wo(i) = g.rng.range(0, 7) == 0 ? 0.0 : g.val(); }
    vector_t xs(groups), xs0(groups), xb(tsize), xb0(tsize), xg(n * tsize), xg0(n * tsize);
    for (tensor_size_t k = 0; k < groups; ++k) { xs(k) = g.par(); xs0(k) = g.par(); }
    for (tensor_size_t k = 0; k < tsize; ++k) { xb(k) = g.par(); xb0(k) = g.par(); }
    for (tensor_size_t k = 0; k < n * tsize; ++k) { xg(k) = g.val(); xg0(k) = g.val(); }

    std::string bk;
    const auto  batch = pick_batch(g, n, bk);
    auto        fit   = flatten_iterator_t{dataset, samples};
    fit.batch(batch);
    fit.scaling(mode);
    if (g.rng.range(0, 1)) { fit.cache_flatten(std::numeric_limits<tensor_size_t>::max()); fit.cache_targets(std::numeric_limits<tensor_size_t>::max()); }
    auto tit = targets_iterator_t{dataset, samples};
    tit.batch(batch);
    tit.scaling(mode);
    if (g.rng.range(0, 1)) tit.cache_targets(std::numeric_limits<tensor_size_t>::max());

    const auto ts   = static_cast<size_t>(tsize);
    const auto head = " loss=" + loss_id + " alpha=" + vh::hexf(static_cast<double>(cl.alpha));
    const auto ctx  = "loss=" + loss_id + " mode=" + std::to_string(static_cast<int>(mode)) + " n=" + std::to_string(n) + " isize=" +
                     std::to_string(isize) + " tsize=" + std::to_string(tsize) + " threads=" + std::to_string(threads) + " batch=" +
                     std::to_string(batch) + " replay: c09_objectives realcase " + std::to_string(icase);
    const auto Tstr = rows_str(T.data(), n, tsize);

    // closed-form value / gradient of mean_i loss(t_i, out_i(theta)) for outputs given by a callback, in long double
    std::vector<ld> o(ts), gl(ts);
    const auto check = [&](const std::string& what, double fx, const vector_t& gx, ld ref, const std::vector<ld>& gref, ld vmag,
                           const std::vector<ld>& gmag, bool amb)
    {
        const ld vtol = 1e-9L * (1.0L + vmag);
        if (!std::isfinite(fx) || std::fabs(static_cast<ld>(fx) - ref) > vtol)
        {
            fail("real-" + what + "-value", id, "impl=" + vh::hexf(fx) + " closed-form=" + vh::hexf(static_cast<double>(ref)) + " tol=" +
                                                    vh::hexf(static_cast<double>(vtol)) + " " + ctx);
            return;
        }
        if (amb) return;
        for (tensor_size_t k = 0; k < gx.size(); ++k)
        {
            const ld gtol = 1e-9L * (1.0L + gmag[static_cast<size_t>(k)]);
            if (!std::isfinite(gx(k)) || std::fabs(static_cast<ld>(gx(k)) - gref[static_cast<size_t>(k)]) > gtol)
            {
                fail("real-" + what + "-grad", id, "coordinate=" + std::to_string(k) + " impl=" + vh::hexf(gx(k)) + " closed-form=" +
                                                       vh::hexf(static_cast<double>(gref[static_cast<size_t>(k)])) + " " + ctx);
                return;
            }
        }
    };
    const auto near_kink = [&](const double* t, const ld* oo)
    {
        if (!cl.kinked_value() && cl.base != "classnll") return false;
        for (size_t cc = 0; cc < ts; ++cc)
        {
            const ld tc = t[cc], oc = oo[cc];
            const ld d  = (cl.base == "mae" || cl.base == "pinball") ? std::fabs(oc - tc) : std::fabs(1.0L - tc * oc);
            if (cl.base != "classnll" && d < 1e-9L) return true;
        }
        return false;
    };

    // ---- linear ----
    {
        const auto function = linear::function_t{fit, loss, l1, l2};
        vector_t   gx(lsize), gx0(lsize);
        function.vgrad(xlin0, gx0);
        const auto fx = function.vgrad(xlin, gx);
        cnt.evals += 2;
        const auto value_at = [&](const std::vector<ld>& th, std::vector<ld>* grad, std::vector<ld>* gmag, ld* vmag, bool* amb) -> ld
        {
            ld v = 0;
            if (grad) grad->assign(static_cast<size_t>(lsize), 0);
            if (gmag) gmag->assign(static_cast<size_t>(lsize), 0);
            for (tensor_size_t i = 0; i < n; ++i)
            {
                for (tensor_size_t cc = 0; cc < tsize; ++cc)
                {
                    ld a = th[static_cast<size_t>(isize * tsize + cc)];
                    for (tensor_size_t j = 0; j < isize; ++j) a += th[static_cast<size_t>(cc * isize + j)] * X(i, j);
                    o[static_cast<size_t>(cc)] = a;
                }
                const ld vi = cl.value(T.data() + i * tsize, o.data(), tsize);
                v += vi;
                if (vmag) *vmag += std::fabs(vi);
                if (amb && near_kink(T.data() + i * tsize, o.data())) *amb = true;
                if (grad)
                {
                    cl.grad(T.data() + i * tsize, o.data(), tsize, gl.data());
                    for (tensor_size_t cc = 0; cc < tsize; ++cc)
                    {
                        for (tensor_size_t j = 0; j < isize; ++j)
                        {
                            (*grad)[static_cast<size_t>(cc * isize + j)] += gl[static_cast<size_t>(cc)] * X(i, j);
                            (*gmag)[static_cast<size_t>(cc * isize + j)] += std::fabs(gl[static_cast<size_t>(cc)] * X(i, j));
                        }
                        (*grad)[static_cast<size_t>(isize * tsize + cc)] += gl[static_cast<size_t>(cc)];
                        (*gmag)[static_cast<size_t>(isize * tsize + cc)] += std::fabs(gl[static_cast<size_t>(cc)]);
                    }
                }
            }
            v /= static_cast<ld>(n);
            const auto wsize = isize * tsize;
            ld         ab = 0, sq = 0;
            for (tensor_size_t k = 0; k < wsize; ++k) { ab += std::fabs(th[static_cast<size_t>(k)]); sq += th[static_cast<size_t>(k)] * th[static_cast<size_t>(k)]; }
            const ld reg = static_cast<ld>(l1) * ab / static_cast<ld>(wsize) + static_cast<ld>(l2) / 2 * sq / static_cast<ld>(wsize);
            if (vmag) *vmag = *vmag / static_cast<ld>(n) + reg;
            if (grad)
                for (tensor_size_t k = 0; k < lsize; ++k)
                {
                    auto& gk = (*grad)[static_cast<size_t>(k)];
                    gk /= static_cast<ld>(n);
                    (*gmag)[static_cast<size_t>(k)] /= static_cast<ld>(n);
                    if (k < wsize)
                    {
                        const ld w  = th[static_cast<size_t>(k)];
                        const ld rg = static_cast<ld>(l1) * closed_loss_t::sgn(w) / static_cast<ld>(wsize) + static_cast<ld>(l2) * w / static_cast<ld>(wsize);
                        gk += rg;
                        (*gmag)[static_cast<size_t>(k)] += std::fabs(rg);
                    }
                }
            return v + reg;
        };
        std::vector<ld> th(static_cast<size_t>(lsize)), gref, gmag;
        for (tensor_size_t k = 0; k < lsize; ++k) th[static_cast<size_t>(k)] = xlin(k);
        ld   vmag = 0;
        bool amb  = false;
        const ld ref = value_at(th, &gref, &gmag, &vmag, &amb);
        check("lin", fx, gx, ref, gref, vmag, gmag, amb);
        // gradient = derivative of the (closed-form) value: central difference along a random direction
        bool zero_w = false;
        for (tensor_size_t k = 0; k < isize * tsize; ++k) zero_w = zero_w || xlin(k) == 0.0;
        if (cl.smooth() && !amb && !(l1 > 0 && zero_w))
        {
            std::vector<ld> d(static_cast<size_t>(lsize)), tp(th), tm(th);
            ld              gd = 0, dmax = 0;
            for (tensor_size_t k = 0; k < lsize; ++k)
            {
                d[static_cast<size_t>(k)] = 2.0L * g.rng.unit() - 1.0L;
                gd += static_cast<ld>(gx(k)) * d[static_cast<size_t>(k)];
                dmax = std::max(dmax, std::fabs(d[static_cast<size_t>(k)]));
            }
            const ld h = 1e-6L;
            for (tensor_size_t k = 0; k < lsize; ++k) { tp[static_cast<size_t>(k)] += h * d[static_cast<size_t>(k)]; tm[static_cast<size_t>(k)] -= h * d[static_cast<size_t>(k)]; }
            const ld fd  = (value_at(tp, nullptr, nullptr, nullptr, nullptr) - value_at(tm, nullptr, nullptr, nullptr, nullptr)) / (2 * h);
            const ld tol = 1e-5L * (1.0L + std::fabs(gd) + vmag * 64.0L * (1.0L + static_cast<ld>(isize)) * (1.0L + static_cast<ld>(isize)) * (1.0L + static_cast<ld>(isize)));
            real_fd++;
            if (std::fabs(fd - gd) > tol)
                fail("real-lin-derivative", id, "<gx,d>=" + vh::hexf(static_cast<double>(gd)) + " finite difference of the closed-form value=" +
                                                    vh::hexf(static_cast<double>(fd)) + " " + ctx);
        }
        real_lines++;
        std::printf("RLIN %s%s isize=%ld tsize=%ld l1=%s l2=%s | T=%s | X=%s | x=%s = %s | %s\n", id.c_str(), head.c_str(), static_cast<long>(isize),
                    static_cast<long>(tsize), vh::hexf(l1).c_str(), vh::hexf(l2).c_str(), Tstr.c_str(), rows_str(X.data(), n, isize).c_str(),
                    hexs(xlin.data(), lsize).c_str(), vh::hexf(fx).c_str(), hexs(gx.data(), lsize).c_str());
    }
    // ---- bias / scale / grads: outputs given per sample by a callback ----
    const auto gb_check = [&](const std::string& what, double fx, const vector_t& gx, const std::function<void(tensor_size_t, ld*)>& outputs,
                              const std::function<void(tensor_size_t, const ld*, std::vector<ld>&, std::vector<ld>&)>& scatter, tensor_size_t gsize)
    {
        ld              v = 0, vmag = 0;
        bool            amb = false;
        std::vector<ld> gref(static_cast<size_t>(gsize), 0), gmag(static_cast<size_t>(gsize), 0);
        for (tensor_size_t i = 0; i < n; ++i)
        {
            outputs(i, o.data());
            const ld vi = cl.value(T.data() + i * tsize, o.data(), tsize);
            v += vi;
            vmag += std::fabs(vi);
            amb = amb || near_kink(T.data() + i * tsize, o.data());
            cl.grad(T.data() + i * tsize, o.data(), tsize, gl.data());
            scatter(i, gl.data(), gref, gmag);
        }
        for (auto& x : gref) x /= static_cast<ld>(n);
        for (auto& x : gmag) x /= static_cast<ld>(n);
        check(what, fx, gx, v / static_cast<ld>(n), gref, vmag / static_cast<ld>(n), gmag, amb);
    };
    {
        const auto function = gboost::bias_function_t{tit, loss};
        vector_t   gx(tsize), gx0(tsize);
        function.vgrad(xb0, gx0);
        const auto fx = function.vgrad(xb, gx);
        cnt.evals += 2;
        gb_check("bias", fx, gx, [&](tensor_size_t, ld* oo) { for (tensor_size_t cc = 0; cc < tsize; ++cc) oo[cc] = xb(cc); },
                 [&](tensor_size_t, const ld* gg, std::vector<ld>& gr, std::vector<ld>& gm)
                 { for (size_t cc = 0; cc < ts; ++cc) { gr[cc] += gg[cc]; gm[cc] += std::fabs(gg[cc]); } }, tsize);
        real_lines++;
        std::printf("RBIAS %s%s | T=%s | x=%s = %s | %s\n", id.c_str(), head.c_str(), Tstr.c_str(), hexs(xb.data(), tsize).c_str(), vh::hexf(fx).c_str(),
                    hexs(gx.data(), tsize).c_str());
    }
    {
        const auto function = gboost::scale_function_t{tit, loss, cluster, so, wo};
        vector_t   gx(groups), gx0(groups);
        function.vgrad(xs0, gx0);
        const auto fx = function.vgrad(xs, gx);
        cnt.evals += 2;
        gb_check("scale", fx, gx,
                 [&](tensor_size_t i, ld* oo)
                 {
                     const auto s = samples(i);
                     const auto gr = cluster.group(s);
                     for (tensor_size_t cc = 0; cc < tsize; ++cc)
                         oo[cc] = static_cast<ld>(so.data()[s * tsize + cc]) + (gr < 0 ? 0.0L : static_cast<ld>(xs(gr)) * wo.data()[s * tsize + cc]);
                 },
                 [&](tensor_size_t i, const ld* gg, std::vector<ld>& gr, std::vector<ld>& gm)
                 {
                     const auto s = samples(i);
                     const auto grp = cluster.group(s);
                     if (grp < 0) return;
                     for (tensor_size_t cc = 0; cc < tsize; ++cc)
                     {
                         gr[static_cast<size_t>(grp)] += gg[cc] * wo.data()[s * tsize + cc];
                         gm[static_cast<size_t>(grp)] += std::fabs(gg[cc] * wo.data()[s * tsize + cc]);
                     }
                 }, groups);
        // per position: group, strong and weak outputs of the sample at that position
        indices_t  grp(n);
        tensor2d_t Sp(n, tsize), Wp(n, tsize);
        for (tensor_size_t i = 0; i < n; ++i)
        {
            grp(i) = cluster.group(samples(i));
            for (tensor_size_t cc = 0; cc < tsize; ++cc) { Sp(i, cc) = so.data()[samples(i) * tsize + cc]; Wp(i, cc) = wo.data()[samples(i) * tsize + cc]; }
        }
        real_lines++;
        std::printf("RSCALE %s%s | T=%s | x=%s | groups=%s | S=%s | W=%s = %s | %s\n", id.c_str(), head.c_str(), Tstr.c_str(), hexs(xs.data(), groups).c_str(),
                    ints_str(grp.data(), n).c_str(), rows_str(Sp.data(), n, tsize).c_str(), rows_str(Wp.data(), n, tsize).c_str(), vh::hexf(fx).c_str(),
                    hexs(gx.data(), groups).c_str());
    }
    {
        const auto function = gboost::grads_function_t{tit, loss};
        const auto gsize    = n * tsize;
        vector_t   gx(gsize), gx0(gsize);
        function.vgrad(xg0, gx0);
        const auto fx = function.vgrad(xg, gx);
        cnt.evals += 2;
        gb_check("grads", fx, gx, [&](tensor_size_t i, ld* oo) { for (tensor_size_t cc = 0; cc < tsize; ++cc) oo[cc] = xg(i * tsize + cc); },
                 [&](tensor_size_t i, const ld* gg, std::vector<ld>& gr, std::vector<ld>& gm)
                 { for (tensor_size_t cc = 0; cc < tsize; ++cc) { gr[static_cast<size_t>(i * tsize + cc)] += gg[cc]; gm[static_cast<size_t>(i * tsize + cc)] += std::fabs(gg[cc]); } },
                 gsize);
        real_lines++;
        std::printf("RGRADS %s%s | T=%s | O=%s = %s | %s\n", id.c_str(), head.c_str(), Tstr.c_str(), rows_str(xg.data(), n, tsize).c_str(), vh::hexf(fx).c_str(),
                    rows_str(gx.data(), n, tsize).c_str());
    }
}

template <class tmap>
std::string hist_str(const tmap& m)
{
    std::ostringstream o;
    bool               first = true;
    for (const auto& kv : m)
    {
        o << (first ? "" : ",") << kv.first << ":" << kv.second;
        first = false;
    }
    return first ? "-" : o.str();
}
} // namespace

int main(int argc, char** argv)
{
    std::setvbuf(stdout, nullptr, _IOLBF, 0);
    nano::verif::g_max_threads.store(16U);
    const std::string mode     = argc > 1 ? argv[1] : "quick";
    const bool        thorough = mode == "thorough";
    const auto        seed     = vh::env_seed();
    const auto case_seed = [&](long icase) { return (seed * 0x9E3779B97F4A7C15ULL) ^ (0xC09ULL + 0xD1B54A32D192ED03ULL * static_cast<uint64_t>(icase + 1)); };
    try
    {
        if (mode == "real" || mode == "realcase")
        {
            // (extension) c09_objectives real <cases> [first]   |   c09_objectives realcase <index>
            const auto rseed = [&](long icase) { return (seed * 0x9E3779B97F4A7C15ULL) ^ (0x9C09ULL + 0xD1B54A32D192ED03ULL * static_cast<uint64_t>(icase + 1)); };
            std::string idlist;
            for (const auto& i : loss_t::all().ids()) idlist += (idlist.empty() ? "" : ",") + i;
            std::printf("RLOSSES ids=%s\n", idlist.c_str());
            long ncases = argc > 2 ? std::atol(argv[2]) : 34, first = argc > 3 ? std::atol(argv[3]) : 0;
            if (mode == "realcase") { first = ncases; ncases = 1; }
            for (long icase = first; icase < first + ncases; ++icase) run_real_case(rseed(icase), icase);
            std::printf("DONE real_cases=%ld real_lines=%ld real_fd=%ld fails=%ld evals=%ld losses=%s\n", real_cases, real_lines, real_fd, cnt.fails,
                        cnt.evals, hist_str(real_losses).c_str());
            return 0;
        }
        if (mode == "case" && argc > 2)
        {
            const auto icase = std::atol(argv[2]);
            run_case(case_seed(icase), icase, argc > 3 && std::string(argv[3]) == "thorough");
        }
        else
        {
            long ncases = thorough ? 1500 : 150;
            long first  = 0;
            if (argc > 2) ncases = std::atol(argv[2]);
            if (argc > 3) first = std::atol(argv[3]);
            for (long icase = first; icase < first + ncases; ++icase)
            {
                run_case(case_seed(icase), icase, thorough);
            }
        }
    }
    catch (const std::exception& e)
    {
        std::printf("FAIL exception - %s\n", e.what());
        cnt.fails++;
    }
    std::printf("DONE cases=%ld configs=%ld evals=%ld fails=%ld model_lines=%ld ambiguous=%ld exact_cases=%ld missing_cells=%ld threads=%s modes=%s rows=%s "
                "cached=%s losses=%s batch=%s subset=%s\n",
                cnt.cases, cnt.configs, cnt.evals, cnt.fails, cnt.model_lines, cnt.ambiguous, cnt.exact_cases, cnt.missing_cells,
                hist_str(cnt.threads).c_str(), hist_str(cnt.modes).c_str(), hist_str(cnt.rows_hist).c_str(), hist_str(cnt.cached).c_str(),
                hist_str(cnt.losses).c_str(), hist_str(cnt.batch_kind).c_str(), hist_str(cnt.subset_kind).c_str());
    return 0;
}
