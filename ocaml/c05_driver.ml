(* C05 driver: reads the lines of harness/c05_penalty.cpp on stdin and recomputes with the extracted exact-rational
   model (C05_model, Z mapped to Zarith):
     PEN   -> the three penalty functions (value + gradient) and the convex flag; bit-exact in mode X (all double
              operations exact), within 1e-11 x magnitude-of-the-summed-terms in modes T / K
     STATE -> update_constraints (stored ceq / cineq, counters, kkt tests 1/2 exact, test 5)
     AL / ALIT / ALEND -> the outer loop of the augmented-Lagrangian solver, step by step, bit-exact: criterion,
              old_criterion, ro, converged, the best-state update, the stop decision, the final status and point;
              the rounded double operations of the loop are passed to the model as IEEE operations on exactly
              converted values
     ALO / ALOIT / ALOEND (extension "outer") -> the complete loop [alo_step] of C05_Outer_Defs: make_ro1 recomputed from
              the initial state (exact when clamped, 1e-12 relative otherwise: h.dot(h) is an Eigen reduction), the
              multipliers lambda / miu of every inner solve recomputed from the previous iteration (bit-exact), the
              dx-convergence flag recomputed from the points (bit-exact), the multipliers stored in the returned state
     PS / PSIT / PSEND (extension "outer") -> the outer loop [ps_step] of solver_penalty_t::minimize: penalty sequence
              (bit-exact), skip / converged / stop decisions, status, best point = last usable inner solution
              re-evaluated on the original function
   Prints `MISMATCH <what> <id> ...` (model <> implementation), `PROPFAIL <what> <id> ...` (the property's own
   conclusion fails on implementation data) and a final `MODEL-DONE checked=<n> mismatches=<m>`.
   NB: compiled by tools/checks/c05.py after `open C05_model` (Z is Zarith here: no zutil.ml.inc). *)
module B = Big_int_Z

let mism = ref 0
let total = ref 0
let printed = ref 0
let skipped = ref 0
let exact_cases = ref 0
let report kind what id detail =
  incr mism;
  incr printed;
  if !printed <= 100 then Printf.printf "%s %s %s %s\n" kind what id detail

(* ---- exact conversion of doubles ---------------------------------------------------------------- *)
let qz = { qnum = B.zero_big_int; qden = B.unit_big_int }
let q_of_int n = { qnum = B.big_int_of_int n; qden = B.unit_big_int }
let q_of_float (x : float) : q =
  if x = 0.0 then qz
  else begin
    let (m, e) = Float.frexp x in
    let mi = Int64.of_float (Float.ldexp m 53) in
    let rec strip mi e = if Int64.rem mi 2L = 0L then strip (Int64.div mi 2L) (e + 1) else (mi, e) in
    let (mi, e) = strip mi (e - 53) in
    let n = B.big_int_of_int64 mi in
    if e >= 0 then { qnum = B.shift_left_big_int n e; qden = B.unit_big_int }
    else { qnum = n; qden = B.shift_left_big_int B.unit_big_int (- e) }
  end
let float_of_q (x : q) : float = Q.to_float (Q.make x.qnum x.qden)
let string_of_q (x : q) = Printf.sprintf "%h" (float_of_q x)

exception Nonfinite
let parse_float s = let s = String.trim s in
  let f = if s = "nan" then Float.nan else if s = "inf" then Float.infinity else if s = "-inf" then Float.neg_infinity
    else float_of_string s in
  if Float.is_finite f then f else raise Nonfinite
let qf s = q_of_float (parse_float s)
let split c s = if s = "" then [] else String.split_on_char c s
let qvec s : q list = let s = String.trim s in if s = "-" || s = "" then [] else List.map qf (split ',' s)
let rec nat_of_int n = if n <= 0 then O else S (nat_of_int (n - 1))
let rec int_of_nat = function O -> 0 | S m -> 1 + int_of_nat m

let split_str sep s =
  let n = String.length sep and m = String.length s in
  let rec go i start acc =
    if i + n > m then List.rev (String.sub s start (m - start) :: acc)
    else if String.sub s i n = sep then go (i + n) (i + n) (String.sub s start (i - start) :: acc)
    else go (i + 1) start acc in
  go 0 0 []
let fields s = List.map String.trim (split_str " | " s)

let ( +/ ) = qplus and ( -/ ) = qminus and ( */ ) = qmult and ( // ) = qdiv
let qle = qle_bool
let qeq = qeq_bool
let rec veq a b = match a, b with [], [] -> true | x :: a', y :: b' -> qeq x y && veq a' b' | _ -> false
let vabs v = List.map qabs v
let tol11 = { qnum = B.unit_big_int; qden = B.power_int_positive_int 10 11 }
let tiny = { qnum = B.unit_big_int; qden = B.shift_left_big_int B.unit_big_int 1000 }
let close a b mag = qle (qabs (a -/ b)) ((tol11 */ (mag +/ qabs b)) +/ tiny)
let half = { qnum = B.unit_big_int; qden = B.big_int_of_int 2 }
let two = q_of_int 2
let string_of_vec v = String.concat "," (List.map string_of_q v)

(* ---- constraints -------------------------------------------------------------------------------- *)
(* returns (constraint, oracle convex flag, value magnitude at x, gradient magnitudes at x) *)
let parse_constraint (x : q list) (s : string) =
  let n = List.length x in
  let zeros = List.map (fun _ -> qz) x in
  let xa = vabs x in
  match split ':' s with
  | [("const" | "min" | "max") as k; v; d] ->
    let v = qf v and d = int_of_string d in
    let c = (match k with "const" -> CConstant (v, nat_of_int d) | "min" -> CMinimum (v, nat_of_int d) | _ -> CMaximum (v, nat_of_int d)) in
    (c, true, qabs (List.nth x d) +/ qabs v, zeros)
  | [("balleq" | "ballineq") as k; o; r] ->
    let o = qvec o and r = qf r in
    let s = vadd xa (vabs o) in
    ((if k = "balleq" then CBallEq (o, r) else CBallIneq (o, r)), true, dot s s +/ (r */ r), vscale two s)
  | [("lineq" | "linineq") as k; q; r] ->
    let q = qvec q and r = qf r in
    ((if k = "lineq" then CLinEq (q, r) else CLinIneq (q, r)), true, dot (vabs q) xa +/ qabs r, zeros)
  | [("quadeq" | "quadineq") as k; p; q; r; cvx] ->
    let p = List.map qvec (split '/' p) and q = qvec q and r = qf r in
    let pa = List.map vabs p in
    let pm = mv pa xa in
    ((if k = "quadeq" then CQuadEq (p, q, r) else CQuadIneq (p, q, r)), cvx = "1",
     (half */ dot xa pm) +/ dot (vabs q) xa +/ qabs r, vadd pm (vabs q))
  | ("funeq" | "funineq") as k :: v :: g :: cvx :: _ ->
    let v = qf v and g = qvec g in
    ignore n;
    ((if k = "funeq" then CFunEq (fun _ -> (v, g)) else CFunIneq (fun _ -> (v, g))), cvx = "1", qabs v, zeros)
  | _ -> failwith ("bad constraint: " ^ s)

let parse_constraints x s = if String.trim s = "-" then [] else List.map (parse_constraint x) (split ';' (String.trim s))

(* ---- PEN ---------------------------------------------------------------------------------------- *)
let value_grad s = match split_str " ; " s with
  | [v; g] -> (qf v, qvec g)
  | _ -> failwith ("bad value;grad: " ^ s)

let check_pen line =
  match split_str " = " line with
  | [lhs; rhs] ->
    (match fields lhs, fields rhs with
     | [hdr; _n; x; fx; gfx; cs; rho; lambda; miu; fconvex], [lres; qres; ares; flags; _] ->
       let id, mode = (match split ' ' hdr with [_; id; mode] -> id, mode | _ -> failwith "bad header") in
       let x = qvec x and fx = qf fx and gfx = qvec gfx and rho = qf rho in
       let lambda = qvec lambda and miu = qvec miu in
       let parsed = parse_constraints x cs in
       let cons = List.map (fun (c, _, _, _) -> c) parsed in
       let fobj = fun _ -> (fx, gfx) in
       let exact = mode = "X" in
       if exact then incr exact_cases;
       (* magnitudes of the summed terms, per penalty *)
       let rec mults ps ls ms = match ps with
         | [] -> []
         | (c, _, _, _) :: ps' ->
           if is_equality c then (match ls with l :: ls' -> l :: mults ps' ls' ms | [] -> qz :: mults ps' [] ms)
           else (match ms with m :: ms' -> m :: mults ps' ls ms' | [] -> qz :: mults ps' ls []) in
       let mus = mults parsed lambda miu in
       let evs = evals cons x in
       let n = List.length x in
       let comp k v = vnth v (nat_of_int k) in
       let vmag coef = List.fold_left2 (fun a (_, _, mag, _) mu -> a +/ coef mag mu) (qabs fx) parsed mus in
       let gmag coef k =
         List.fold_left2 (fun a ((_, _, mag, gm), e) mu -> a +/ (coef mag mu */ (qabs (comp k e.ce_grad) +/ comp k gm)))
           (qabs (comp k gfx)) (List.combine parsed evs) mus in
       let tm mag mu = mag +/ qabs (mu // rho) in
       let check what (mv_, mg) (iv, ig) vcoef gcoef skip_grad =
         incr total;
         let okv = if exact then qeq mv_ iv else close iv mv_ (vmag vcoef) in
         if not okv then report "MISMATCH" (what ^ "-value") id (Printf.sprintf "model=%s impl=%s :: %s" (string_of_q mv_) (string_of_q iv) line);
         if not skip_grad then begin
           if List.length mg <> n || List.length ig <> n then report "MISMATCH" (what ^ "-gradient-size") id line
           else
             let bad = ref (-1) in
             List.iteri (fun k (a, b) ->
                 let ok = if exact then qeq a b else close b a (gmag gcoef k) in
                 if not ok && !bad < 0 then bad := k) (List.combine mg ig);
             if !bad >= 0 then
               report "MISMATCH" (what ^ "-gradient") id
                 (Printf.sprintf "component %d model=%s impl=%s :: %s" !bad (string_of_vec mg) (string_of_vec ig) line)
         end in
       check "linear" (linear_penalty_at fobj cons rho x) (value_grad lres)
         (fun mag _ -> rho */ mag) (fun _ _ -> rho) (mode = "K");
       check "quadratic" (quadratic_penalty_at fobj cons rho x) (value_grad qres)
         (fun mag _ -> rho */ mag */ mag) (fun mag _ -> two */ rho */ mag) false;
       check "augmented" (augmented_lagrangian_at fobj cons rho lambda miu x) (value_grad ares)
         (fun mag mu -> half */ rho */ tm mag mu */ tm mag mu) (fun mag mu -> rho */ tm mag mu) false;
       (* convex flags of the three objects *)
       let mflag = pen_convex (fconvex = "1") (List.map (fun (c, o, _, _) -> (c, o)) parsed) in
       let want = if mflag then "111" else "000" in
       incr total;
       if flags <> want then report "MISMATCH" "convex-flag" id (Printf.sprintf "model=%s impl=%s :: %s" want flags line)
     | _ -> failwith ("bad PEN line: " ^ line))
  | _ -> failwith ("bad PEN line: " ^ line)

(* ---- STATE -------------------------------------------------------------------------------------- *)
let check_state line =
  match split_str " = " line with
  | [lhs; rhs] ->
    (match fields lhs, fields rhs with
     | [hdr; _n; x; gx; meq; mineq; cs], [ceq; cineq; k1; k2; k5] ->
       let id, mode = (match split ' ' hdr with [_; id; mode] -> id, mode | _ -> failwith "bad header") in
       let exact = mode = "X" in
       let x = qvec x and gx = qvec gx and meq = qvec meq and mineq = qvec mineq in
       let parsed = parse_constraints x cs in
       let cons = List.map (fun (c, _, _, _) -> c) parsed in
       let iceq = qvec ceq and icineq = qvec cineq in
       (* the arrays before the update hold stale values: they must all be overwritten *)
       let stale = q_of_int 77 in
       let ((((mceq, mcineq), mlgx), ie), ii) =
         update_constraints cons x gx meq mineq (List.map (fun _ -> stale) iceq) (List.map (fun _ -> stale) icineq) in
       incr total;
       if int_of_nat ie <> List.length iceq || int_of_nat ii <> List.length icineq then
         report "MISMATCH" "state-counts" id line
       else begin
         let mags_eq = List.filter_map (fun (c, _, m, _) -> if is_equality c then Some m else None) parsed in
         let mags_in = List.filter_map (fun (c, _, m, _) -> if is_equality c then None else Some m) parsed in
         let cmp what mvals ivals mags =
           List.iteri (fun k ((a, b), m) ->
               let ok = if exact then qeq a b else close b a m in
               if not ok then report "MISMATCH" what id (Printf.sprintf "index %d model=%s impl=%s :: %s" k (string_of_q a) (string_of_q b) line))
             (List.combine (List.combine mvals ivals) mags) in
         cmp "state-ceq" mceq iceq mags_eq;
         cmp "state-cineq" mcineq icineq mags_in
       end;
       (* kkt tests 1 and 2: max/abs of the stored values -> exact *)
       incr total;
       if not (qeq (kkt1 icineq) (qf k1)) then report "MISMATCH" "state-kkt1" id line;
       if not (qeq (kkt2 iceq) (qf k2)) then report "MISMATCH" "state-kkt2" id line;
       (* kkt test 5 = |lgx|_inf *)
       let m5 = linf mlgx in
       let ok5 = if exact then qeq m5 (qf k5) else begin
           let evs = evals cons x in
           let rec mults ps ls ms = match ps with
             | [] -> []
             | (c, _, _, _) :: ps' ->
               if is_equality c then (match ls with l :: ls' -> l :: mults ps' ls' ms | [] -> qz :: mults ps' [] ms)
               else (match ms with m :: ms' -> m :: mults ps' ls ms' | [] -> qz :: mults ps' ls []) in
           let mus = mults parsed meq mineq in
           let mag = List.fold_left (fun acc k ->
               let comp v = vnth v (nat_of_int k) in
               let m = List.fold_left2 (fun a ((_, _, _, gm), e) mu -> a +/ (qabs mu */ (qabs (comp e.ce_grad) +/ comp gm)))
                   (qabs (comp gx)) (List.combine parsed evs) mus in
               qmax acc m) qz (List.init (List.length x) (fun k -> k)) in
           close (qf k5) m5 mag end in
       if not ok5 then report "MISMATCH" "state-kkt5" id (Printf.sprintf "model=%s :: %s" (string_of_q m5) line)
     | _ -> failwith ("bad STATE line: " ^ line))
  | _ -> failwith ("bad STATE line: " ^ line)

(* ---- AL ----------------------------------------------------------------------------------------- *)
(* the rounded double operations of the loop: IEEE on exactly converted operands *)
let ieee op = fun a b -> let r = op (float_of_q a) (float_of_q b) in if Float.is_finite r then q_of_float r else raise Nonfinite
let rops_ieee = { rmul = ieee ( *. ); radd = ieee ( +. ); rdiv = ieee ( /. ) }

type alrun = { id : string; params : al_params; x0 : q list; ceq0 : q list; cineq0 : q list;
               mutable st : al_state option; mutable dead : bool; mutable iters : int; header : string;
               (* extension "outer" *)
               mutable f0 : q option; mutable ost : alo_state option; mutable pending : (q list * q list) option;
               mutable odead : bool }
let cur : alrun option ref = ref None
let al_runs = ref 0
let al_steps = ref 0
let alo_steps = ref 0
let alo_ro1_exact = ref 0
let ps_runs = ref 0
let ps_steps = ref 0

let status_code = function MaxIters -> 0 | Converged -> 1 | Failed -> 2

let check_al line =
  let body = List.hd (split_str " :: " line) in
  match fields body with
  | [hdr; eps; tau; gamma; miu_max; lmin; lmax; max_outers; x0; ceq0; cineq0; _descr] ->
    let id = (match split ' ' hdr with [_; id] -> id | _ -> failwith "bad AL header") in
    (try
       let params = { p_eps = qf eps; p_tau = qf tau; p_gamma = qf gamma; p_miu_max = qf miu_max; p_lmin = qf lmin;
                      p_lmax = qf lmax; p_max_outers = B.big_int_of_int (int_of_string max_outers) } in
       cur := Some { id; params; x0 = qvec x0; ceq0 = qvec ceq0; cineq0 = qvec cineq0; st = None; dead = false; iters = 0;
                     header = line; f0 = None; ost = None; pending = None; odead = false };
       incr al_runs
     with Nonfinite -> (cur := None; incr skipped))
  | _ -> failwith ("bad AL line: " ^ line)

(* ---- extension "outer": the complete loop ------------------------------------------------------------------- *)
let tol12 = { qnum = B.unit_big_int; qden = B.power_int_positive_int 10 12 }

let check_alo line =
  match !cur, fields line with
  | Some run, [hdr; f0] ->
    (match split ' ' hdr with
     | [_; id] when id = run.id -> (try run.f0 <- Some (qf f0) with Nonfinite -> run.odead <- true)
     | _ -> failwith ("ALO without AL: " ^ line))
  | _ -> ()

let check_aloit line =
  match !cur, fields line with
  | Some run, [hdr; lambda; miu] ->
    (match split ' ' hdr with
     | [_; id; _] when id = run.id ->
       (try run.pending <- Some (qvec lambda, qvec miu) with Nonfinite -> run.odead <- true)
     | _ -> failwith ("ALOIT without AL: " ^ line))
  | _ -> ()

(* one outer iteration of the complete model; [e] is the event of the ALIT line (its dx flag is NOT used: alo_step
   recomputes it), ro / old / conv / stop / bx / status are the implementation's *)
let check_alo_step run e ro old conv stop bx status outer line =
  match run.f0, run.pending with
  | _ when run.odead -> ()
  | Some f0, Some (lambda, miu) ->
    run.pending <- None;
    let bad what detail = report "MISMATCH" what run.id (detail ^ " :: " ^ line ^ " :: " ^ run.header) in
    let os = (match run.ost with
        | Some os -> os
        | None ->
          let os = alo_init rops_ieee f0 run.x0 run.ceq0 run.cineq0 in
          (* make_ro1: the clamps give bit-exact values; in between the Eigen dot products round differently *)
          let mro = os.o_core.s_ro in
          incr total;
          if qeq mro ro then incr alo_ro1_exact
          else if not (qle (qabs (mro -/ ro)) (tol12 */ qabs ro)) then bad "alo-ro1" ("model=" ^ string_of_q mro);
          os) in
    incr total; incr alo_steps;
    let c = os.o_core in
    if not (alo_running run.params os) then bad "alo-extra-iteration" "the model's loop had already ended";
    if B.int_of_big_int c.s_outer <> outer then bad "alo-outer" (Printf.sprintf "model=%d" (B.int_of_big_int c.s_outer));
    let first = (match run.ost with None -> true | Some _ -> false) in
    if (not first) && not (qeq c.s_ro ro) then bad "alo-ro" ("model=" ^ string_of_q c.s_ro);
    if not (qeq c.s_old old) then bad "alo-old-criterion" ("model=" ^ string_of_q c.s_old);
    (* the multipliers this inner solve used = what the model computed at the end of the previous iteration *)
    if not (veq c.s_lambda lambda) then bad "alo-lambda" ("model=" ^ string_of_vec c.s_lambda ^ " impl=" ^ string_of_vec lambda);
    if not (veq c.s_miu miu) then bad "alo-miu" ("model=" ^ string_of_vec c.s_miu ^ " impl=" ^ string_of_vec miu);
    if List.exists (fun m -> not (qle qz m)) miu then report "PROPFAIL" "alo-miu-negative" run.id (line ^ " :: " ^ run.header);
    (* continue from the implementation's values so that one deviation is reported once *)
    let os = { os with o_core = { c with s_ro = ro; s_old = old; s_lambda = lambda; s_miu = miu };
                       o_bro = (if first then ro else os.o_bro); o_bcrit = (if first then old else os.o_bcrit) } in
    let e' = alo_event rops_ieee run.params os e in
    let mconv = al_step_converged rops_ieee run.params os.o_core e' in
    if mconv <> conv then bad "alo-converged" (Printf.sprintf "model=%b (dx flag computed by the model: %b)" mconv e'.e_dx);
    let os' = alo_step rops_ieee run.params os e in
    if not (veq os'.o_core.s_x bx) then bad "alo-best-state" ("model x=" ^ string_of_vec os'.o_core.s_x);
    if os'.o_core.s_stopped <> stop then bad "alo-stop" (Printf.sprintf "model=%b" os'.o_core.s_stopped);
    if os'.o_core.s_stopped && status_code os'.o_core.s_status <> status then
      bad "alo-status" (Printf.sprintf "model=%d" (status_code os'.o_core.s_status));
    run.ost <- Some os'
  | _ -> ()

let check_aloend line =
  match !cur with
  | None -> ()
  | Some run when run.dead || run.odead -> ()
  | Some run ->
    (match fields line with
     | [hdr; meq; mineq; _kkt5] ->
       (match split ' ' hdr with
        | [_; id] when id = run.id ->
          (try
             let meq = qvec meq and mineq = qvec mineq in
             (match run.ost with
              | None -> ()
              | Some os ->
                incr total;
                if not (veq os.o_meq meq && veq os.o_mineq mineq) then
                  report "MISMATCH" "alo-returned-multipliers" run.id
                    (Printf.sprintf "model meq=%s mineq=%s :: %s :: %s" (string_of_vec os.o_meq) (string_of_vec os.o_mineq) line run.header);
                if List.exists (fun m -> not (qle qz m)) mineq then
                  report "PROPFAIL" "alo-returned-miu-negative" run.id (line ^ " :: " ^ run.header))
           with Nonfinite -> ())
        | _ -> failwith ("ALOEND without AL: " ^ line))
     | _ -> failwith ("bad ALOEND line: " ^ line))

(* ---- extension "outer": the penalty solvers ------------------------------------------------------------------- *)
type psrun = { pid : string; pparams : ps_params; mutable table : (q list * oeval) list; mutable pst : ps_state;
               mutable pdead : bool; mutable piters : int; pheader : string }
let pcur : psrun option ref = ref None

let oeval_of fx ceq cineq valid = { oe_fx = qf fx; oe_ceq = qvec ceq; oe_cineq = qvec cineq; oe_valid = valid = "1" }
let oeval_eq a b = qeq a.oe_fx b.oe_fx && veq a.oe_ceq b.oe_ceq && veq a.oe_cineq b.oe_cineq && a.oe_valid = b.oe_valid

(* the evaluation of the ORIGINAL function: the values the harness reports for the points the loop visits *)
let orig_of run = fun x ->
  match List.find_opt (fun (y, _) -> veq x y) run.table with
  | Some (_, ev) -> ev
  | None -> failwith "orig: unknown point"

let check_ps line =
  pcur := None;
  let body = List.hd (split_str " :: " line) in
  match fields body with
  | [hdr; _kind; eps; eta; penalty0; eps0; epsk; max_outers; x0; fx0; ceq0; cineq0; valid0; _descr] ->
    let id = (match split ' ' hdr with [_; id] -> id | _ -> failwith "bad PS header") in
    (try
       let params = { ps_eps = qf eps; ps_eta = qf eta; ps_penalty0 = qf penalty0; ps_eps0 = qf eps0; ps_epsK = qf epsk;
                      ps_max_outers = B.big_int_of_int (int_of_string max_outers) } in
       let x0 = qvec x0 in
       let ev0 = (try oeval_of fx0 ceq0 cineq0 valid0 with Nonfinite -> { oe_fx = qz; oe_ceq = []; oe_cineq = []; oe_valid = false }) in
       let dummy = ps_init (fun _ -> ev0) params x0 in
       let run = { pid = id; pparams = params; table = [(x0, ev0)]; pst = dummy; pdead = false; piters = 0; pheader = line } in
       pcur := Some run;
       incr ps_runs
     with Nonfinite -> incr skipped)
  | _ -> failwith ("bad PS line: " ^ line)

let check_psit line =
  match !pcur with
  | None -> ()
  | Some run when run.pdead -> ()
  | Some run ->
    (match split_str " = " line with
     | [lhs; rhs] ->
       (match fields lhs, fields rhs with
        | [hdr; penalty; ok; cx; fx; ceq; cineq; bvalid], [conv; stop; status] ->
          let id = (match split ' ' hdr with [_; id; _] -> id | _ -> failwith "bad PSIT header") in
          if id <> run.pid then failwith ("PSIT without PS: " ^ line);
          (try
             let ok = ok = "1" in
             let penalty = qf penalty in
             let e = { pe_x = (if ok then qvec cx else []); pe_ok = ok } in
             if ok then begin
               let ev = (try oeval_of fx ceq cineq bvalid with Nonfinite ->
                   if bvalid = "1" then raise Nonfinite else { oe_fx = qz; oe_ceq = []; oe_cineq = []; oe_valid = false }) in
               run.table <- (e.pe_x, ev) :: run.table
             end;
             let orig = orig_of run in
             let s = run.pst in
             incr total; incr ps_steps;
             run.piters <- run.piters + 1;
             let bad what detail = report "MISMATCH" what id (detail ^ " :: " ^ line ^ " :: " ^ run.pheader) in
             if not (ps_running run.pparams s) then bad "ps-extra-iteration" "the model's loop had already ended";
             if not (qeq s.q_penalty penalty) then bad "ps-penalty" ("model=" ^ string_of_q s.q_penalty);
             let s = { s with q_penalty = penalty } in
             if ok then begin
               let mconv = ps_step_converged rops_ieee run.pparams s e in
               if mconv <> (conv = "1") then bad "ps-converged" (Printf.sprintf "model=%b" mconv)
             end;
             let s' = ps_step rops_ieee orig run.pparams s e in
             if s'.q_stopped <> (stop = "1") then bad "ps-stop" (Printf.sprintf "model=%b" s'.q_stopped);
             if s'.q_stopped && status_code s'.q_status <> int_of_string status then
               bad "ps-status" (Printf.sprintf "model=%d" (status_code s'.q_status));
             run.pst <- s'
           with Nonfinite -> (run.pdead <- true; incr skipped))
        | _ -> failwith ("bad PSIT line: " ^ line))
     | _ -> failwith ("bad PSIT line: " ^ line))

let check_psend line =
  match !pcur with
  | None -> ()
  | Some run when run.pdead -> pcur := None
  | Some run ->
    (match fields line with
     | [hdr; status; x; fx; ceq; cineq; valid; niters] ->
       let id = (match split ' ' hdr with [_; id] -> id | _ -> failwith "bad PSEND header") in
       if id <> run.pid then failwith ("PSEND without PS: " ^ line);
       (try
          let s = run.pst in
          incr total;
          let bad what detail = report "MISMATCH" what id (detail ^ " :: " ^ line ^ " :: " ^ run.pheader) in
          if run.piters <> int_of_string niters then bad "ps-iterations" "";
          if List.length s.q_trace <> run.piters then bad "ps-trace" (Printf.sprintf "model made %d inner solves" (List.length s.q_trace));
          if B.gt_big_int (B.big_int_of_int (List.length s.q_trace)) run.pparams.ps_max_outers then bad "ps-too-many-solves" "";
          if ps_running run.pparams s then bad "ps-early-exit" "the model's loop would go on";
          if status_code s.q_status <> int_of_string status then bad "ps-final-status" (Printf.sprintf "model=%d" (status_code s.q_status));
          if not (veq s.q_x (qvec x)) then bad "ps-final-x" ("model=" ^ string_of_vec s.q_x);
          (match (try Some (oeval_of fx ceq cineq valid) with Nonfinite -> None) with
           | Some ev -> if not (oeval_eq s.q_eval ev) then bad "ps-final-state" "the returned state is not the original function's evaluation at the last usable inner solution"
           | None -> if s.q_eval.oe_valid then bad "ps-final-state" "non-finite returned state, valid in the model")
        with Nonfinite -> incr skipped);
       pcur := None
     | _ -> failwith ("bad PSEND line: " ^ line))

let check_alit line =
  match !cur with
  | None -> ()
  | Some run when run.dead -> ()
  | Some run ->
    (match split_str " = " line with
     | [lhs; rhs] ->
       (match fields lhs, fields rhs with
        | [hdr; cx; ceq; cineq; ok; dx; bvalid], [crit; old; ro; conv; stop; bx; status] ->
          let id, outer = (match split ' ' hdr with [_; id; k] -> id, int_of_string k | _ -> failwith "bad ALIT header") in
          if id <> run.id then failwith ("ALIT without AL: " ^ line);
          (try
             let e = { e_x = qvec cx; e_ceq = qvec ceq; e_cineq = qvec cineq; e_ok = ok = "1"; e_dx = dx = "1";
                       e_bvalid = bvalid = "1" } in
             let crit = qf crit and old = qf old and ro = qf ro in
             let s = (match run.st with
                 | Some s -> s
                 | None ->
                   (* ro of the first iteration is make_ro1 (dot products): taken from the run *)
                   let s = al_init rops_ieee run.x0 run.ceq0 run.cineq0 ro in
                   if not (qle ro qz) then () else report "PROPFAIL" "al-ro-not-positive" id line;
                   s) in
             incr total; incr al_steps;
             run.iters <- run.iters + 1;
             let bad what detail = report "MISMATCH" what id (detail ^ " :: " ^ line ^ " :: " ^ run.header) in
             if s.s_stopped || not (src_al_loop s.s_outer run.params.p_max_outers) then
               bad "al-extra-iteration" "the model's loop had already ended";
             if B.int_of_big_int s.s_outer <> outer then bad "al-outer" (Printf.sprintf "model=%d" (B.int_of_big_int s.s_outer));
             if not (qeq s.s_ro ro) then bad "al-ro" ("model=" ^ string_of_q s.s_ro);
             if not (qeq s.s_old old) then bad "al-old-criterion" ("model=" ^ string_of_q s.s_old);
             (* continue from the implementation's ro / old_criterion so that one deviation is reported once *)
             let s = { s with s_ro = ro; s_old = old } in
             let mcrit = al_step_criterion rops_ieee s e in
             if not (qeq mcrit crit) then bad "al-criterion" ("model=" ^ string_of_q mcrit);
             let mconv = al_step_converged rops_ieee run.params s e in
             if mconv <> (conv = "1") then bad "al-converged" (Printf.sprintf "model=%b" mconv);
             let s' = al_step rops_ieee run.params s e in
             if not (veq s'.s_x (qvec bx)) then
               bad "al-best-state" (Printf.sprintf "model updated=%b x=%s" (al_step_updated rops_ieee s e) (string_of_vec s'.s_x));
             if s'.s_stopped <> (stop = "1") then bad "al-stop" (Printf.sprintf "model=%b" s'.s_stopped);
             if s'.s_stopped && status_code s'.s_status <> int_of_string status then
               bad "al-status" (Printf.sprintf "model=%d" (status_code s'.s_status));
             run.st <- Some s';
             (try check_alo_step run e ro old (conv = "1") (stop = "1") (qvec bx) (int_of_string status) outer line
              with Nonfinite -> run.odead <- true)
           with Nonfinite -> (run.dead <- true; incr skipped))
        | _ -> failwith ("bad ALIT line: " ^ line))
     | _ -> failwith ("bad ALIT line: " ^ line))

let check_alend line =
  match !cur with
  | None -> ()
  | Some run when run.dead -> cur := None
  | Some run ->
    (match fields line with
     | [hdr; status; x; ceq; cineq; k1; k2; niters] ->
       let id = (match split ' ' hdr with [_; id] -> id | _ -> failwith "bad ALEND header") in
       if id <> run.id then failwith ("ALEND without AL: " ^ line);
       (try
          let status = int_of_string status and x = qvec x and ceq = qvec ceq and cineq = qvec cineq in
          incr total;
          let bad what detail = report "MISMATCH" what id (detail ^ " :: " ^ line ^ " :: " ^ run.header) in
          (match run.st with
           | None -> if int_of_string niters <> 0 then bad "al-no-iterations" ""
           | Some s ->
             if run.iters <> int_of_string niters then bad "al-iterations" "";
             if (not s.s_stopped) && src_al_loop s.s_outer run.params.p_max_outers then
               bad "al-early-exit" "the model's loop would go on";
             if status_code s.s_status <> status then bad "al-final-status" (Printf.sprintf "model=%d" (status_code s.s_status));
             if not (veq s.s_x x) then bad "al-final-x" ("model=" ^ string_of_vec s.s_x);
             if not (veq s.s_ceq ceq && veq s.s_cineq cineq) then bad "al-final-constraints" "");
          (* the property's conclusion on the implementation's data *)
          if status = 1 then begin
            let eps = run.params.p_eps in
            if not (List.for_all (fun h -> qle (qabs h) eps) ceq && List.for_all (fun g -> qle (qmax g qz) eps) cineq) then
              report "PROPFAIL" "al-converged-infeasible" id (line ^ " :: " ^ run.header)
          end;
          if not (qeq (kkt1 cineq) (qf k1) && qeq (kkt2 ceq) (qf k2)) then bad "al-final-kkt" ""
        with Nonfinite -> incr skipped);
       cur := None
     | _ -> failwith ("bad ALEND line: " ^ line))

let () =
  (try
     while true do
       let line = input_line stdin in
       let starts p = String.length line >= String.length p && String.sub line 0 (String.length p) = p in
       try
         if starts "PEN " then check_pen line
         else if starts "STATE " then check_state line
         else if starts "ALOIT " then check_aloit line
         else if starts "ALOEND " then check_aloend line
         else if starts "ALO " then check_alo line
         else if starts "PSIT " then check_psit line
         else if starts "PSEND " then check_psend line
         else if starts "PS " then check_ps line
         else if starts "ALIT " then check_alit line
         else if starts "ALEND " then check_alend line
         else if starts "AL " then check_al line
       with Nonfinite -> incr skipped
     done
   with End_of_file -> ());
  Printf.printf "MODEL-DONE checked=%d mismatches=%d skipped_nonfinite=%d exact_cases=%d al_runs=%d al_steps=%d alo_steps=%d alo_ro1_exact=%d ps_runs=%d ps_steps=%d\n"
    !total !mism !skipped !exact_cases !al_runs !al_steps !alo_steps !alo_ro1_exact !ps_runs !ps_steps
