(* C16 driver: reads the implementation's lines `OP dims | args = result` on stdin, recomputes each
   result with the extracted model and prints `MISMATCH <line> // model: <value>` for differences.
   Also applies the property oracle itself (naive prefix sums) to what the implementation returned. *)
let mism = ref 0
let total = ref 0
let report line model = incr mism; Printf.printf "MISMATCH %s // model: %s\n" line model

let () =
  (try
    while true do
      let line = input_line stdin in
      match String.index_opt line ' ' with
      | None -> ()
      | Some sp ->
        let op = String.sub line 0 sp in
        let rest = String.sub line (sp + 1) (String.length line - sp - 1) in
        (match split_str " = " rest with
         | [lhs; rhs] ->
           let (ds, args) = (match split_str " | " lhs with [a; b] -> (trim a, trim b) | [a] -> (trim a, "") | _ -> ("", "")) in
           let d = zlist_of_string ds in
           let chk model = incr total; if trim rhs <> trim model then report line model in
           (match op with
            | "SIZE" -> chk (string_of_int (int_of_z (size d)))
            | "OFF" ->
              let i = zlist_of_string args in
              if not (validb d i) then report line "index not valid in model"
              else chk (string_of_int (int_of_z (offset d i)))
            | "OFF0" -> chk (string_of_int (int_of_z (offset0 d (zlist_of_string args))))
            | "TENSOR" ->
              let (b, dd) = view_tensor d (zlist_of_string args) in
              chk (Printf.sprintf "%d ; %s" (int_of_z b) (string_of_zlist dd))
            | "VECTOR" ->
              let (b, n) = view_vector d (zlist_of_string args) in
              chk (Printf.sprintf "%d ; %d" (int_of_z b) (int_of_z n))
            | "MATRIX" ->
              let ((b, r), c) = view_matrix d (zlist_of_string args) in
              chk (Printf.sprintf "%d ; %d ; %d" (int_of_z b) (int_of_z r) (int_of_z c))
            | "SLICE" ->
              (match zlist_of_string args with
               | [b; e] ->
                 if not (slice_validb d b e) then report line "slice not valid in model"
                 else let (o, dd) = view_slice d b e in
                   chk (Printf.sprintf "%d ; %s" (int_of_z o) (string_of_zlist dd))
               | _ -> report line "bad slice args")
            | "RESHAPE" -> chk (string_of_zlist (reshape d (zlist_of_string args)))
            | "GATHER" ->
              let idx = zlist_of_string args in
              let n = int_of_z (size d) in
              let flat = List.init n (fun k -> z_of_int (k mod 120)) in
              let g = gather d flat idx in
              let gd = (z_of_int (List.length idx)) :: (match d with [] -> [] | _ :: r -> r) in
              chk (Printf.sprintf "%s ; %s" (string_of_zlist gd) (string_of_zlist g))
            | "INTEGRAL" ->
              let flat = zlist_of_string args in
              let out = integral d flat in
              chk (string_of_zlist out);
              (* the property itself on the implementation's output: naive prefix sums *)
              let impl = Array.of_list (zlist_of_string rhs) in
              if int_of_z (size d) <= 300 && int_of_z (size d) > 0 then
                List.iter (fun i ->
                    let o = int_of_z (offset d i) in
                    let nv = naive_integral_at d flat i in
                    if o >= Array.length impl || int_of_z impl.(o) <> int_of_z nv then
                      (incr mism; Printf.printf "PROPFAIL %s // naive prefix sum at %s is %d\n" line (string_of_zlist i) (int_of_z nv)))
                  (all_indices d)
            | "CONV" -> incr total
            | "STO" ->
              (* replay the storage script with the model: slot 0 = t (k mod 120), slot 1 = (7k+3) mod 100, same dims *)
              let n = int_of_z (size d) in
              let c0 = List.init n (fun k -> z_of_int (k mod 120)) and c1 = List.init n (fun k -> z_of_int ((k * 7 + 3) mod 100)) in
              let s0 = { s_kind = KOwn; s_buf = nat_of_int 0; s_off = z_of_int 0; s_dims = d }
              and s1 = { s_kind = KOwn; s_buf = nat_of_int 1; s_off = z_of_int 0; s_dims = d } in
              let ops = List.map (fun t ->
                  match String.split_on_char ' ' (trim t) with
                  | ["O"; a; b] -> SOwnOf (nat_of_int (int_of_string a), nat_of_int (int_of_string b))
                  | ["A"; a; b] -> SOwnAssign (nat_of_int (int_of_string a), nat_of_int (int_of_string b))
                  | ["M"; a; b; m] -> SMapOf (nat_of_int (int_of_string a), nat_of_int (int_of_string b), m = "1")
                  | ["S"; a; b; m; x; y] -> SSlice (nat_of_int (int_of_string a), nat_of_int (int_of_string b), m = "1", z_of_int (int_of_string x), z_of_int (int_of_string y))
                  | ["W"; a; b] -> SMapAssign (nat_of_int (int_of_string a), nat_of_int (int_of_string b))
                  | _ -> failwith ("bad storage op " ^ t)) (String.split_on_char ';' args) in
              incr total;
              (match srun ([Some c0; Some c1], [s0; s1; s0; s0; s0]) ops with
               | None -> report line "the model rejects the script"
               | Some st ->
                 let dumped = Array.of_list (sdump st) in
                 List.iter (fun tok ->
                     match String.index_opt tok ':' with
                     | None -> ()
                     | Some c ->
                       let slot = int_of_string (String.sub tok 0 c) and want = String.sub tok (c + 1) (String.length tok - c - 1) in
                       let got = (match dumped.(slot) with
                           | None -> "dangling"
                           | Some l -> "[" ^ String.concat "," (List.map (fun z -> string_of_int (int_of_z z)) l) ^ "]") in
                       if got <> want then report line (Printf.sprintf "slot %d = %s" slot got))
                   (List.filter (fun t -> t <> "") (String.split_on_char ' ' (trim rhs))))
            | _ -> ())
         | _ -> ())
    done
  with End_of_file -> ());
  Printf.printf "MODEL-DONE checked=%d mismatches=%d\n" !total !mism
