(* C01 (stage C01CG) driver: reads the lines of harness/c01_cgd.cpp on stdin.  Every double is converted EXACTLY to a
   canonical rational; the extracted model (C01cg_model, generic over its record of field operations) is run at the
   operations [eO] = the extracted exact operations QcO on the value paired with a running first-order rounding-error bound
   (as ocaml/c01q_driver.ml).

     MISMATCH <what> RUN <id> EV <k> ...   the implementation left the model:
        chain            previous g / previous d of event k are not g / chosen d of event k-1 (bitwise); for event 0 the
                         previous d is not -(previous g) (first-iteration branch of cg_step)
        beta-<solver>    |recorded beta - cg_beta(model, this solver id)| > 1e-9 * running bound
        restart          the recorded restart flag differs from the model's decision
                         !has_descent(-g + beta pd) || |g.pg| >= orthotest g.g  taken on the recorded beta.  The decision is
                         compared EXACTLY when every floating-point operation behind it is exact on this input (small
                         integer scripts: ties are then real ties); otherwise an event whose compared quantities lie within
                         the rounding band of a threshold is counted (restart_ambiguous), not compared
        direction        not restarted and the recorded d is not -g + beta * pd elementwise within 2 ulp (recorded beta)
        step-direction   the direction of the model's cg_step (model beta) differs from the recorded one by more than
                         1e-9 * bound although both took the same restart decision
     PROPFAIL <what> RUN <id> EV <k> ...   a PROVED property evaluated on the implementation's own numbers (exact arithmetic,
                                           independent of the model's functions):
        descent          g <> 0  =>  g . d < 0                                   (C01CG_descent)
        restart-steepest restarted  =>  d == -g bitwise                         (C01CG_restart_spec)
        restart-orth     not restarted  =>  |g.pg| < orthotest * g.g            (C01CG_restart_spec)
        frpr-clamp       cgd-frpr: |beta| <= FR                                  (C01CG_frpr_clamp)
        dyhs-clamp       cgd-dyhs: 0 <= beta <= max(0, DY)                       (C01CG_dyhs_bounds)
        dycd-bounds      cgd-dycd, pd.pg < 0: 0 <= beta <= CD                    (C01CG_dycd_bounds)
        plus-clamp       cgd-hs / cgd-pr / cgd-ls: beta >= 0                     (C01CG_plus_nonneg)
        n-clamp          cgd-n: beta >= -1 / (|pd| min(eta, |pg|))              (C01CG_n_clamp)
        n-sufficient     cgd-n, clamp inactive: g.(-g + beta pd) <= -(7/8) g.g  (C01CG_hz_sufficient_descent)
        dy-identity      cgd-dy: g.(-g + beta pd) = beta * (pd.pg)              (C01CG_dy_descent)
        hs-conjugacy     cgd-hs, beta > 0: (-g + beta pd).(g - pg) = 0          (C01CG_hs_conjugacy)
     MODEL-DONE checked=<n> mismatches=<m> propfails=<p> <counters>

   Compiled by tools/checks/c01.py after `module ZZ = Z  open C01cg_model` (the extracted module shadows Zarith's Z). *)

let tol = Q.of_float 1e-9
let u53 = Q.of_float (ldexp 1.0 (-53))

(* ---- reporting ------------------------------------------------------------------------------------------------- *)
let mism = ref 0
let pfail = ref 0
let printed = ref 0
let counters : (string, int) Hashtbl.t = Hashtbl.create 64
let count k = Hashtbl.replace counters k (1 + (try Hashtbl.find counters k with Not_found -> 0))
let () = List.iter (fun k -> Hashtbl.replace counters k 0)
    ["restart_ambiguous"; "restart_tie_exact"; "descent_tie_exact"; "nonfinite_event_skipped"; "restarted"; "not_restarted";
     "decision_exact"; "direction_bitexact"; "direction_within_2ulp"; "descent_within_rounding"; "nonfinite_direction_chosen"]
let report kind what id k detail =
  (if kind = "MISMATCH" then incr mism else incr pfail);
  incr printed;
  if !printed <= 60 then Printf.printf "%s %s RUN %s EV %s %s\n" kind what id k detail

(* ---- exact conversions (as c01q_driver.ml) ---------------------------------------------------------------------- *)
let parse_float s =
  let s = String.trim s in
  if s = "nan" || s = "-nan" then Float.nan else if s = "inf" then Float.infinity else if s = "-inf" then Float.neg_infinity
  else float_of_string s
let floats_of s = if String.trim s = "-" || String.trim s = "" then [] else List.map parse_float (String.split_on_char ',' (String.trim s))
let finite_all l = List.for_all Float.is_finite l
let qc_of_q (x : Q.t) : qc = { qnum = Q.num x; qden = Q.den x }
let q_of_qc (x : qc) : Q.t = Q.make x.qnum x.qden
type et = { v : qc; a : float; m : float }
let fabs_qc (x : qc) : float = Float.abs (Q.to_float (q_of_qc x))
let mk v m = { v; a = fabs_qc v; m }
let eO : et fops =
  { f0 = mk qcO.f0 0.0; f1 = mk qcO.f1 0.0;
    fadd = (fun x y -> let v = qcO.fadd x.v y.v in let a = fabs_qc v in { v; a; m = x.m +. y.m +. a });
    fsub = (fun x y -> let v = qcO.fsub x.v y.v in let a = fabs_qc v in { v; a; m = x.m +. y.m +. a });
    fmul = (fun x y -> let v = qcO.fmul x.v y.v in let a = fabs_qc v in { v; a; m = x.m *. y.a +. x.a *. y.m +. a });
    fopp = (fun x -> { x with v = qcO.fopp x.v });
    fdiv = (fun x y -> let v = qcO.fdiv x.v y.v in let a = fabs_qc v in
             let iy = 1.0 /. y.a in { v; a; m = x.m *. iy +. x.a *. y.m *. iy *. iy +. a });
    finv = (fun y -> let v = qcO.finv y.v in let a = fabs_qc v in { v; a; m = y.m *. a *. a +. a });
    fcmp = (fun x y -> qcO.fcmp x.v y.v) }
let inj (x : float) : et = { v = qc_of_q (Q.of_float x); a = Float.abs x; m = 0.0 }
let injv = List.map inj
let qv = List.map Q.of_float
let hex x = Printf.sprintf "%h" x
let qstr (x : Q.t) = Printf.sprintf "%.17g" (Q.to_float x)
let split_str sep s =
  let n = String.length sep and m = String.length s in
  let rec go i start acc =
    if i + n > m then List.rev (String.sub s start (m - start) :: acc)
    else if String.sub s i n = sep then go (i + n) (i + n) (String.sub s start (i - start) :: acc)
    else go (i + 1) start acc in
  go 0 0 []
let fields hd =
  List.filter_map (fun t -> match String.index_opt t '=' with
      | Some i -> Some (String.sub t 0 i, String.sub t (i + 1) (String.length t - i - 1))
      | None -> None) (String.split_on_char ' ' hd)
let fld fs k = try List.assoc k fs with Not_found -> "-"
let bound_q (e : et) : Q.t = if Float.is_finite e.m then Q.mul tol (Q.of_float (e.m *. 1.0000001)) else Q.of_float Float.max_float
let close (impl : float) (e : et) : bool =
  Float.is_finite impl && Q.leq (Q.abs (Q.sub (Q.of_float impl) (q_of_qc e.v))) (bound_q e)
let describe (x : float) (e : et) = Printf.sprintf "impl=%s model=%s bound=%.6g" (hex x) (qstr (q_of_qc e.v)) e.m
let first_bad_v (impl : float list) (model : et list) =
  let bad = ref None in
  List.iteri (fun i (x, e) -> if !bad = None && not (close x e) then bad := Some (i, x, e)) (List.combine impl model);
  !bad

(* ---- independent exact helpers (Zarith Q, no model function) ----------------------------------------------------- *)
let qdot a b = List.fold_left2 (fun acc x y -> Q.add acc (Q.mul x y)) Q.zero a b
let qabsdot a b = List.fold_left2 (fun acc x y -> Q.add acc (Q.abs (Q.mul x y))) Q.zero a b
let two53 = Q.of_float (ldexp 1.0 53)
(* every floating-point evaluation of sum_i a_i b_i (any order, no fused operations needed) is exact: all products are
   multiples of a unit u = 2^-k with sum |a_i b_i| < 2^53 u *)
let dot_exact (a : float list) (b : float list) : bool =
  let ps = List.map2 (fun x y -> Q.mul (Q.of_float x) (Q.of_float y)) a b in
  let kmax = List.fold_left (fun k p -> if Q.sign p = 0 then k else max k (ZZ.numbits (Q.den p) - 1)) 0 ps in
  kmax < 900 &&
  (let s = List.fold_left (fun acc p -> Q.add acc (Q.abs p)) Q.zero ps in
   Q.lt (Q.mul s (Q.of_bigint (ZZ.shift_left ZZ.one kmax))) two53)
let representable (x : Q.t) : bool = Q.equal (Q.of_float (Q.to_float x)) x
let ulps (a : float) (b : float) : int64 =
  let o x = let i = Int64.bits_of_float x in if Int64.compare i 0L < 0 then Int64.sub Int64.min_int i else i in
  Int64.abs (Int64.sub (o a) (o b))
let ulp_of (x : float) : Q.t = if x = 0.0 then Q.zero else Q.of_float (Float.abs x *. ldexp 1.0 (-52))

(* ---- run context -------------------------------------------------------------------------------------------------- *)
let cur_solver = ref "?"
let cur_ot = ref 0.0
let cur_eta = ref 0.0
let cur_kind = ref "natural"
let prev : (int * float list * float list) option ref = ref None       (* event index, g, chosen d of the previous event *)
let checked = ref 0

let kind_of = function
  | "cgd-hs" -> CK_HS | "cgd-fr" -> CK_FR | "cgd-pr" -> CK_PR | "cgd-cd" -> CK_CD | "cgd-ls" -> CK_LS | "cgd-dy" -> CK_DY
  | "cgd-n" -> CK_N | "cgd-dycd" -> CK_DYCD | "cgd-dyhs" -> CK_DYHS | "cgd-frpr" -> CK_FRPR
  | s -> failwith ("unknown cgd solver " ^ s)

let norm_et (v : float list) : et =
  let s = List.fold_left (fun acc x -> acc +. x *. x) 0.0 v in
  let r = sqrt s in
  { v = qc_of_q (Q.of_float r); a = r; m = float_of_int (List.length v + 2) *. r }

(* three-valued decisions *)
let decide (x : Q.t) (band : Q.t) : int option =        (* Some sign when |x| > band (or band = 0), None when ambiguous *)
  if Q.sign band = 0 then Some (Q.sign x)
  else if Q.gt x band then Some 1 else if Q.lt x (Q.neg band) then Some (-1) else None

let handle_cd id k n beta restarted ot rest =
  match List.map String.trim (split_str " | " rest) with
  | [spg; spd; sg; sd] ->
    let pg = floats_of spg and pd = floats_of spd and g = floats_of sg and d = floats_of sd in
    let ki = int_of_string k in
    if List.exists (fun v -> List.length v <> n) [pg; pd; g; d] then report "MISMATCH" "event-shape" id k (Printf.sprintf "n=%d" n)
    else begin
      (* -- the chain: pstate = cstate; pdescent = cdescent; first iteration: -g -- *)
      (match !prev with
       | Some (pk, g0, d0) when pk = ki - 1 ->
         if g0 = pg && d0 = pd then count "chain_checked"
         else report "MISMATCH" "chain" id k "previous g / previous d are not g / chosen d of the previous event"
       | _ when ki = 0 ->
         if finite_all pg then begin
           let (_, d0) = cg_step eO (kind_of !cur_solver) (inj !cur_eta) (inj !cur_ot) eO.f0 eO.f0 cg_init (injv pg) in
           if List.for_all2 (fun x e -> Q.equal (Q.of_float x) (q_of_qc e.v)) pd d0 then count "first_direction_checked"
           else report "MISMATCH" "chain" id k "the first direction is not -g"
         end
       | _ -> ());
      prev := Some (ki, g, d);
      if ot <> !cur_ot then report "MISMATCH" "orthotest" id k (Printf.sprintf "recorded %s, configured %s" (hex ot) (hex !cur_ot));
      (* restart => d == -g bitwise, whatever beta is *)
      if restarted && finite_all g && not (List.for_all2 (fun x y -> x = -. y) d g) then
        report "PROPFAIL" "restart-steepest" id k "restarted but the chosen direction is not -g";
      if not (finite_all pg && finite_all pd && finite_all g && finite_all d && Float.is_finite beta) then begin
        count "nonfinite_event_skipped";
        (* beta = +-inf from a zero denominator and g.(-g + beta pd) = -inf: has_descent accepts it (see notes/C01.md) *)
        if not restarted && not (finite_all d) then count "nonfinite_direction_chosen"
      end
      else begin
        incr checked;
        count (if restarted then "restarted" else "not_restarted");
        let kind = kind_of !cur_solver in
        let nn = float_of_int (n + 2) in
        let qpg = qv pg and qpd = qv pd and qg = qv g and qd = qv d in
        let qbeta = Q.of_float beta and qot = Q.of_float ot in
        let gg = qdot qg qg and gpg = qdot qg qpg and pgpg = qdot qpg qpg and pdpg = qdot qpd qpg and gpd = qdot qg qpd in
        let pdy = Q.sub gpd pdpg and gy = Q.sub gg gpg in
        (* -- beta of this solver id -- *)
        let epg = injv pg and epd = injv pd and eg = injv g in
        let pd2 = norm_et pd and pg2 = norm_et pg in
        let mbeta0 = cg_beta eO kind (inj !cur_eta) pd2 pg2 epg epd eg in
        (* a clamp (max / min / three-way) returns ONE of its alternatives with that alternative's error bound; next to a tie
           the implementation may have taken the other one: the tolerance is the largest bound among the alternatives *)
        let alternatives =
          (match kind with
           | CK_HS -> [beta_HS eO epg epd eg]
           | CK_PR -> [beta_PR eO epg epd eg]
           | CK_LS -> [beta_LS eO epg epd eg]
           | CK_DYHS -> [beta_DY eO epg epd eg; beta_HS eO epg epd eg]
           | CK_FRPR -> [beta_PR eO epg epd eg; beta_FR eO epg epd eg]
           | CK_N -> [n_eta eO (inj !cur_eta) pd2 pg2; beta_N_plain eO epg epd eg]
           | CK_DYCD -> [beta_DY eO epg epd eg; beta_CD eO epg epd eg]
           | _ -> []) in
        let mbeta = { mbeta0 with m = List.fold_left (fun a (o : et) -> if Float.is_nan o.m then Float.infinity else Float.max a o.m) mbeta0.m alternatives } in
        let zero_den =
          (match kind with
           | CK_HS | CK_DY | CK_DYHS | CK_N -> Q.sign pdy = 0
           | CK_FR | CK_PR | CK_FRPR -> Q.sign pgpg = 0
           | CK_CD | CK_LS -> Q.sign pdpg = 0
           | CK_DYCD -> Q.sign (Q.max pdy (Q.neg pdpg)) = 0) in
        if zero_den then count "beta_zero_denominator_skipped"
        else if close beta mbeta then count "beta_checked"
        else report "MISMATCH" ("beta-" ^ !cur_solver) id k (describe beta mbeta);
        (* -- the candidate from the recorded beta, as binary64 code: (-g) + beta * pd -- *)
        let cand = List.map2 (fun gi pi -> (-. gi) +. beta *. pi) g pd in
        let cand_q = List.map2 (fun gi pi -> Q.add (Q.neg gi) (Q.mul qbeta pi)) qg qpd in
        let cand_exact = List.for_all2 (fun c q -> Float.is_finite c && Q.equal (Q.of_float c) q) cand cand_q in
        if not restarted then begin
          let worst = List.fold_left2 (fun w x c -> if Float.is_finite c then max w (ulps x c) else Int64.max_int) 0L d cand in
          if worst = 0L then count "direction_bitexact"
          else if Int64.compare worst 2L <= 0 then count "direction_within_2ulp"
          else report "MISMATCH" "direction" id k (Printf.sprintf "the chosen direction is %Ld ulp away from -g + beta * pd (beta=%s)" worst (hex beta))
        end;
        (* -- the restart decision -- *)
        let used = if restarted then cand else d in              (* the vector has_descent saw *)
        if finite_all used then begin
          let qused = qv used in
          let gd = qdot qg qused in
          let ex_gd = (if restarted then cand_exact else true) && dot_exact g used in
          let band_gd = if ex_gd then Q.zero
            else Q.add (Q.mul (Q.mul (Q.of_float (8.0 *. nn)) u53) (qabsdot qg qused))
                (List.fold_left2 (fun acc gi c -> Q.add acc (Q.mul (Q.abs gi) (Q.mul (Q.of_int 4) (ulp_of c)))) Q.zero qg used) in
          let ggf = Q.to_float gg in
          let ex_orth = dot_exact g pg && dot_exact g g && representable (Q.mul qot gg) in
          let orth = Q.sub (Q.abs gpg) (Q.mul qot gg) in
          let band_orth = if ex_orth then Q.zero
            else Q.mul (Q.mul (Q.of_float (8.0 *. nn)) u53) (Q.add (qabsdot qg qpg) (Q.mul qot gg)) in
          ignore ggf;
          let dsc = decide gd band_gd and orc = decide orth band_orth in
          let no_descent = (match dsc with Some s -> [s >= 0] | None -> [true; false]) in      (* !(dg < 0) *)
          let far = (match orc with Some s -> [s >= 0] | None -> [true; false]) in             (* |g.pg| >= ot g.g *)
          let possible = List.concat_map (fun a -> List.map (fun b -> a || b) far) no_descent in
          if ex_gd && ex_orth then count "decision_exact";
          if ex_gd && Q.sign gd = 0 then count "descent_tie_exact";
          if ex_orth && Q.sign orth = 0 then count "restart_tie_exact";
          (* the model's decision on the same beta *)
          let (_, mrestart) = cg_choose eO (inj ot) (inj beta) epg epd eg in
          if List.length (List.sort_uniq compare possible) > 1 then count "restart_ambiguous"
          else begin
            count "restart_checked";
            let expect = List.hd possible in
            if expect <> restarted then
              report "MISMATCH" "restart" id k
                (Printf.sprintf "recorded restarted=%b but !has_descent || |g.pg| >= orthotest g.g is %b: g.d=%s (band %s) |g.pg|-ot*g.g=%s (band %s)"
                   restarted expect (qstr gd) (qstr band_gd) (qstr orth) (qstr band_orth))
            else if cand_exact && ex_gd && ex_orth && mrestart <> restarted then
              report "MISMATCH" "restart" id k (Printf.sprintf "recorded restarted=%b, model cg_choose=%b on an exact input" restarted mrestart)
          end;
          (* proved: not restarted => |g.pg| < orthotest g.g and g.d < 0 *)
          if not restarted then begin
            (match orc with
             | Some s when s >= 0 -> report "PROPFAIL" "restart-orth" id k
                                       (Printf.sprintf "not restarted although |g.pg|=%s >= orthotest*g.g=%s" (qstr (Q.abs gpg)) (qstr (Q.mul qot gg)))
             | _ -> ())
          end
        end;
        (* -- descent of the chosen direction: g <> 0 => g.d < 0 -- *)
        if List.exists (fun x -> x <> 0.0) g then begin
          let gd = qdot qg qd in
          let band = if restarted || dot_exact g d then Q.zero else Q.mul (Q.mul (Q.of_float (8.0 *. nn)) u53) (qabsdot qg qd) in
          count "descent_checked";
          if Q.sign gd >= 0 then begin
            if Q.gt gd band || Q.sign band = 0 then
              report "PROPFAIL" "descent" id k (Printf.sprintf "solver=%s restarted=%b g.d=%s is not negative" !cur_solver restarted (qstr gd))
            else count "descent_within_rounding"
          end
        end;
        (* -- the model's whole step (model beta) against the recorded direction -- *)
        (if not zero_den then begin
            let st = { cs_pg = epg; cs_pd = epd; cs_cd = epd } in
            let (md, mr) = cg_choose eO (inj ot) mbeta epg epd eg in           (* same values as cg_step, widened bound of beta *)
            let (_, sd) = cg_step eO kind (inj !cur_eta) (inj ot) pd2 pg2 st eg in
            if List.exists2 (fun x y -> not (Q.equal (q_of_qc x.v) (q_of_qc y.v))) md sd then
              report "MISMATCH" "driver" id k "cg_step and cg_choose disagree";
            if mr = restarted then begin
              match first_bad_v d md with
              | Some (i, x, e) -> report "MISMATCH" "step-direction" id k (Printf.sprintf "d[%d] %s restarted=%b" i (describe x e) restarted)
              | None -> count "step_direction_checked"
            end else count "step_other_branch"
          end);
        (* -- clamps and identities on the recorded beta -- *)
        let rel = Q.of_float (1e-9) in
        let slack x = Q.mul rel x in
        let inv x = Q.inv x in
        (match kind with
         | CK_FRPR when Q.sign pgpg > 0 ->
           let fr = Q.mul gg (inv pgpg) in
           count "frpr_clamp_checked";
           let pr = Q.mul gy (inv pgpg) in
           count (if Q.lt pr (Q.neg fr) then "frpr_branch_low" else if Q.leq (Q.abs pr) fr then "frpr_branch_mid" else "frpr_branch_high");
           if Q.equal (Q.abs pr) fr then count "frpr_boundary_exact";
           if Q.gt (Q.abs qbeta) (Q.add fr (slack fr)) then
             report "PROPFAIL" "frpr-clamp" id k (Printf.sprintf "|beta|=%s exceeds FR=%s" (qstr (Q.abs qbeta)) (qstr fr))
         | CK_DYHS ->
           count "dyhs_clamp_checked";
           if Q.sign qbeta < 0 then report "PROPFAIL" "dyhs-clamp" id k (Printf.sprintf "beta=%s is negative" (qstr qbeta))
           else if Q.sign pdy <> 0 then begin
             let dy = Q.mul gg (inv pdy) in
             let top = Q.max Q.zero dy in
             if Q.gt qbeta (Q.add top (slack (Q.abs dy))) then
               report "PROPFAIL" "dyhs-clamp" id k (Printf.sprintf "beta=%s exceeds max(0, DY)=%s" (qstr qbeta) (qstr top))
           end
         | CK_DYCD when Q.sign pdpg < 0 ->
           count "dycd_bounds_checked";
           let cd = Q.mul (Q.neg gg) (inv pdpg) in
           if Q.sign qbeta < 0 || Q.gt qbeta (Q.add cd (slack cd)) then
             report "PROPFAIL" "dycd-bounds" id k (Printf.sprintf "pd.pg=%s < 0 but beta=%s is outside [0, CD=%s]" (qstr pdpg) (qstr qbeta) (qstr cd))
         | CK_HS | CK_PR | CK_LS ->
           count "plus_clamp_checked";
           if Q.sign qbeta < 0 then report "PROPFAIL" "plus-clamp" id k (Printf.sprintf "solver=%s beta=%s is negative" !cur_solver (qstr qbeta))
         | CK_N ->
           let npd = sqrt (Q.to_float (qdot qpd qpd)) and npg = sqrt (Q.to_float pgpg) in
           let den = npd *. Float.min !cur_eta npg in
           if den > 0.0 && Float.is_finite den then begin
             count "n_clamp_checked";
             let etap = -1.0 /. den in
             if beta < etap *. (1.0 +. 1e-9) then
               report "PROPFAIL" "n-clamp" id k (Printf.sprintf "beta=%s is below the clamp -1/(|pd| min(eta,|pg|))=%s" (hex beta) (hex etap));
             (* Hager-Zhang sufficient descent when the clamp is inactive *)
             if beta > etap *. (1.0 -. 1e-9) +. 0.0 && Q.sign pdy <> 0 && Float.abs (beta -. etap) > 1e-6 *. Float.abs etap then begin
               count "n_sufficient_checked";
               let gdc = Q.add (Q.neg gg) (Q.mul qbeta gpd) in
               let lim = Q.neg (Q.mul (Q.of_ints 7 8) gg) in
               let sl = slack (Q.add gg (Q.abs (Q.mul qbeta gpd))) in
               let sl = Q.add sl (Q.mul (Q.of_float 1e-6) (Q.abs (Q.mul (q_of_qc mbeta.v) gpd))) in
               (* the recorded beta carries the rounding of its ill-conditioned formula: relative to the model's bound *)
               let sl = Q.add sl (Q.mul (Q.abs gpd) (bound_q mbeta)) in
               if Q.gt gdc (Q.add lim sl) then
                 report "PROPFAIL" "n-sufficient" id k (Printf.sprintf "g.(-g + beta pd)=%s exceeds -(7/8) g.g=%s" (qstr gdc) (qstr lim))
             end
           end
         | CK_DY when Q.sign pdy <> 0 ->
           count "dy_identity_checked";
           let lhs = Q.add (Q.neg gg) (Q.mul qbeta gpd) and rhs = Q.mul qbeta pdpg in
           let sl = Q.add (slack (Q.add gg (Q.mul (Q.abs qbeta) (Q.add (Q.abs gpd) (Q.abs pdpg))))) (Q.mul (Q.add (Q.abs gpd) (Q.abs pdpg)) (bound_q mbeta)) in
           if Q.gt (Q.abs (Q.sub lhs rhs)) sl then
             report "PROPFAIL" "dy-identity" id k (Printf.sprintf "g.(-g + beta pd)=%s but beta*(pd.pg)=%s" (qstr lhs) (qstr rhs))
         | _ -> ());
        (match kind with
         | CK_HS when Q.sign qbeta > 0 && Q.sign pdy <> 0 ->
           count "hs_conjugacy_checked";
           let dy = Q.add (Q.neg gy) (Q.mul qbeta pdy) in
           let sl = Q.add (slack (Q.add (Q.abs gy) (Q.add gg (Q.abs gpg)))) (Q.mul (Q.abs pdy) (bound_q mbeta)) in
           if Q.gt (Q.abs dy) sl then
             report "PROPFAIL" "hs-conjugacy" id k (Printf.sprintf "(-g + beta pd).(g - pg)=%s is not 0 (beta=%s > 0)" (qstr dy) (qstr qbeta))
         | _ -> ())
      end
    end
  | _ -> report "MISMATCH" "event-syntax" id k "CD"

let () =
  (try
     while true do
       let line = input_line stdin in
       match String.split_on_char ' ' line with
       | "CRUN" :: id :: _ ->
         let fs = fields line in
         cur_solver := fld fs "solver";
         cur_ot := parse_float (fld fs "orthotest");
         cur_eta := (match fld fs "eta" with "-" -> 0.0 | s -> parse_float s);
         cur_kind := fld fs "kind";
         prev := None;
         count "runs"
       | "CD" :: id :: k :: n :: beta :: restarted :: ot :: _ ->
         let pre = String.concat " " ["CD"; id; k; n; beta; restarted; ot] in
         let rest = String.sub line (String.length pre + 3) (String.length line - String.length pre - 3) in
         (try handle_cd id k (int_of_string n) (parse_float beta) (restarted = "1") (parse_float ot) rest
          with Failure m | Invalid_argument m -> report "MISMATCH" "driver" id k m)
       | _ -> ()
     done
   with End_of_file -> ());
  let cs = Hashtbl.fold (fun k v acc -> (k, v) :: acc) counters [] in
  let cs = List.sort compare cs in
  Printf.printf "MODEL-DONE checked=%d mismatches=%d propfails=%d %s\n" !checked !mism !pfail
    (String.concat " " (List.map (fun (k, v) -> Printf.sprintf "%s=%d" k v) cs))
