(* C03 driver: reads the lines of harness/c03_bundle.cpp on stdin and replays every bundle operation, stopping test,
   status decision and 1-D ellipsoid step with the extracted exact-rational model (C03_model, Z mapped to Zarith).
   Discrete data (sizes, copied rows, decisions away from their threshold) must agree exactly, computed doubles within
   1e-9 * (sum of the magnitudes of the terms).  Prints `MISMATCH <what> <id> ...` and a final
   `MODEL-DONE checked=<n> mismatches=<m> ...`.
   NB: compiled by tools/checks/c03.py after `open C03_model` (no zutil.ml.inc: Z is not an inductive here). *)
module B = Big_int_Z

let mism = ref 0
let total = ref 0
let printed = ref 0
let ambiguous = ref 0
let amb_solve = ref 0
let amb_conv = ref 0
let amb_ell = ref 0
let simplex_worst = ref 0.0
let sigma_worst = ref 0.0
let multi_checked = ref 0
let last_conv : (string * bool * bool) option ref = ref None
let report what id detail =
  incr mism;
  incr printed;
  if !printed <= 100 then Printf.printf "MISMATCH %s %s %s\n" what id detail

(* ---- exact conversion of doubles ---------------------------------------------------------------- *)
let qz = { qnum = B.zero_big_int; qden = B.unit_big_int }
let q1 = { qnum = B.unit_big_int; qden = B.unit_big_int }
let q_of_int n = { qnum = B.big_int_of_int n; qden = B.unit_big_int }
let q_of_float (x : float) : q =
  if x = 0.0 then qz
  else begin
    let (m, e) = Float.frexp x in
    let mi = Int64.of_float (Float.ldexp m 53) in
    let rec strip mi e = if Int64.rem mi 2L = 0L then strip (Int64.div mi 2L) (e + 1) else (mi, e) in
    let (mi, e) = strip mi (e - 53) in
    let n = B.big_int_of_int64 mi in
    if e >= 0 then { qnum = B.shift_left_big_int n e; qden = B.unit_big_int }
    else { qnum = n; qden = B.shift_left_big_int B.unit_big_int (- e) }
  end
let float_of_q (x : q) : float = Q.to_float (Q.make x.qnum x.qden)
let parse_float s = let s = String.trim s in
  if s = "nan" then Float.nan else if s = "inf" then Float.infinity else if s = "-inf" then Float.neg_infinity
  else float_of_string s
let split c s = if String.trim s = "" || String.trim s = "-" then [] else String.split_on_char c (String.trim s)
let floats_of s = List.map parse_float (split ',' s)
let qs_of s = List.map q_of_float (floats_of s)
let ( +/ ) = qplus and ( -/ ) = qminus and ( */ ) = qmult
let qabs x = if qle_bool qz x then x else qopp x
let qle = qle_bool
let qlt a b = not (qle_bool b a)
let rel9 = { qnum = B.unit_big_int; qden = B.big_int_of_string "1000000000" }
let rel6 = { qnum = B.unit_big_int; qden = B.big_int_of_string "1000000" }
let tiny = { qnum = B.unit_big_int; qden = B.shift_left_big_int B.unit_big_int 900 }
let close a b tol = qle (qabs (a -/ b)) (tol +/ tiny)
let rec nat_of_int n = if n <= 0 then O else S (nat_of_int (n - 1))
let rec int_of_nat = function O -> 0 | S m -> 1 + int_of_nat m
let sumabs l = List.fold_left (fun a x -> a +/ qabs x) qz l
let qred_cut c = { cs = List.map qred c.cs; ce = qred c.ce }

let kv tok = match String.index_opt tok '=' with
  | Some i -> (String.sub tok 0 i, String.sub tok (i + 1) (String.length tok - i - 1))
  | None -> (tok, "")
let kvs s = List.map kv (List.filter (fun t -> t <> "") (String.split_on_char ' ' (String.trim s)))
let get l k = try List.assoc k l with Not_found -> failwith ("missing key " ^ k)

(* ---- sessions ------------------------------------------------------------------------------------------------ *)
type session = {
  n : int; cap : int; eps0 : q;
  mutable cur : bundle;               (* the observed state (exact doubles) + the observed multipliers *)
  mutable pending : bundle option;    (* the model's prediction for the next STATE *)
  mutable pend_tol : (q list * q list) option;   (* per-row tolerances of E, per-column tolerances of the aggregate row *)
  mutable multi : bundle option;      (* the model run on its own state from NEW on (bounded number of steps) *)
  mutable steps : int;
}
let sessions : (string, session) Hashtbl.t = Hashtbl.create 64

let parse_rows s = List.map qs_of (split ';' s)

let cmp_state id (pred : bundle) (tols : (q list * q list) option) (size : int) (x : q list) (fx : q) (es : q list) (rows : q list list) what strict =
  incr total;
  let m = List.length pred.bcuts in
  if m <> size then report (what ^ "-size") id (Printf.sprintf "model=%d impl=%d" m size)
  else begin
    if strict && not (List.for_all2 (fun a b -> qeq_bool a b) pred.bx x && qeq_bool pred.bfx fx) then
      report (what ^ "-centre") id (Printf.sprintf "model fx=%h impl fx=%h" (float_of_q pred.bfx) (float_of_q fx));
    let etol, stol = match tols with Some (a, b) -> (a, b) | None -> (List.map (fun _ -> qz) es, List.map (fun _ -> qz) x) in
    let i = ref 0 in
    List.iter2 (fun (c, t) (e, row) ->
      if not (close c.ce e t) then
        report (what ^ "-error") id (Printf.sprintf "row=%d of %d model=%h impl=%h tol=%h" !i m (float_of_q c.ce) (float_of_q e) (float_of_q t));
      (* rows are copied / are the new sub-gradient (exact) or the aggregate (tolerance per column) *)
      let j = ref 0 in
      List.iter2 (fun a b ->
        let t = (try List.nth stol !j with _ -> qz) in
        if not (if strict then (qeq_bool a b || close a b t) else close a b (t +/ rel6 */ (qabs a +/ q1))) then
          report (what ^ "-row") id (Printf.sprintf "row=%d col=%d model=%h impl=%h" !i !j (float_of_q a) (float_of_q b));
        incr j) c.cs row;
      incr i) (List.combine pred.bcuts etol) (List.combine es rows)
  end

let handle_bundle id rest =
  let parts = List.map String.trim (String.split_on_char '|' rest) in
  let head = List.hd parts in
  let cmd, args = match String.index_opt head ' ' with
    | Some i -> (String.sub head 0 i, String.sub head (i + 1) (String.length head - i - 1))
    | None -> (head, "") in
  match cmd with
  | "NEW" ->
      let a = kvs args in
      let n = int_of_string (get a "n") and mx = int_of_string (get a "max") and cap = int_of_string (get a "cap") in
      let eps0 = q_of_float (parse_float (get a "eps0")) in
      incr total;
      let kcap = B.int_of_big_int (src_c03_capacity (B.big_int_of_int mx)) in
      if kcap <> cap || B.int_of_big_int (src_c03_capacity_e (B.big_int_of_int mx)) <> int_of_string (get a "cape")
         || B.int_of_big_int (src_c03_capacity_a (B.big_int_of_int mx)) <> cap
         || kcap <> int_of_string (get a "caps") then
        report "capacity" id (Printf.sprintf "max=%d model=%d impl=%d" mx kcap cap);
      let x = qs_of (List.nth parts 1) and gx = qs_of (List.nth parts 2) and fx = q_of_float (parse_float (List.nth parts 3)) in
      let b = init (nat_of_int n) (B.big_int_of_int mx) x gx fx in
      Hashtbl.replace sessions id { n; cap; eps0; cur = b; pending = Some b; pend_tol = None; multi = Some b; steps = 0 }
  | "STATE" ->
      let s = Hashtbl.find sessions id in
      let a = kvs args in
      let size = int_of_string (get a "size") in
      let x = qs_of (List.nth parts 1) and fx = q_of_float (parse_float (List.nth parts 2)) in
      let es = qs_of (List.nth parts 3) and rows = parse_rows (List.nth parts 4) in
      (match s.pending with
       | Some pred -> cmp_state id pred s.pend_tol size x fx es rows "state" true
       | None -> ());
      (match s.multi with
       | Some mb when List.length mb.bcuts = size ->
           incr multi_checked;
           let scale = sumabs es +/ qabs fx +/ q1 in
           let tl = (List.map (fun _ -> rel6 */ scale) es, List.map (fun _ -> rel6 */ scale) x) in
           cmp_state id mb (Some tl) size x fx es rows "multistep" false
       | Some _ -> s.multi <- None
       | None -> ());
      s.pending <- None;
      s.cur <- { bn = nat_of_int s.n; bcap = B.big_int_of_int s.cap; bx = x; bfx = fx;
                 bcuts = List.map2 (fun e r -> { cs = r; ce = e }) es rows; balpha = [] }
  | "SOLVE" ->
      let s = Hashtbl.find sessions id in
      let a = kvs args in
      let miuf = parse_float (get a "miu") in
      let miu_known = Float.is_finite miuf in
      let miu = if miu_known then q_of_float miuf else q1 in
      let alpha = qs_of (List.nth parts 1) in
      let m = List.length s.cur.bcuts in
      incr total;
      if List.length alpha <> m then report "solve-size" id (Printf.sprintf "alphas=%d rows=%d" (List.length alpha) m)
      else begin
        (match step s.eps0 { s.cur with balpha = [] } (OSolve (miu, alpha)) with
         | None -> report "solve-rejected" id ""
         | Some b' ->
             if m <= 2 && not miu_known && m = 2 then (incr ambiguous; incr amb_solve)
             else if m <= 2 then begin
               (* the closed forms: compare the model's multipliers with the observed ones *)
               let tol =
                 if m = 1 then qz
                 else begin
                   let c0 = List.nth s.cur.bcuts 0 and c1 = List.nth s.cur.bcuts 1 in
                   let q00 = dot c0.cs c0.cs and q11 = dot c1.cs c1.cs and q01 = dot c0.cs c1.cs in
                   let q = q00 +/ q11 -/ q01 -/ q01 in
                   let mag = q00 +/ q11 +/ qabs q01 +/ qabs q01 +/ qabs (miu */ c0.ce) +/ qabs (miu */ c1.ce) in
                   if qle (qabs q) (rel6 */ mag) then q_of_int 2 (* nearly parallel rows: the quotient is ill-conditioned *)
                   else rel9 */ (q1 +/ qdiv (mag +/ mag) (qabs q))
                 end in
               if qle q1 tol then (incr ambiguous; incr amb_solve)
               else List.iter2 (fun am ao ->
                 if not (close am ao tol) then
                   report "solve-alpha" id (Printf.sprintf "rows=%d model=%h impl=%h" m (float_of_q am) (float_of_q ao))) b'.balpha alpha
             end else begin
               (* the oracle hypothesis of the theorems: the QP answer is a point of the simplex *)
               let sum = List.fold_left ( +/ ) qz alpha in
               let mn = List.fold_left (fun a x -> if qlt x a then x else a) q1 alpha in
               let dev = Float.max (Float.abs (float_of_q (sum -/ q1))) (Float.max 0.0 (-. float_of_q mn)) in
               if dev > !simplex_worst then simplex_worst := dev;
               if dev > 1e-6 then report "solve-simplex" id (Printf.sprintf "rows=%d sum-1=%h min=%h" m (float_of_q (sum -/ q1)) (float_of_q mn))
             end);
        s.cur <- { s.cur with balpha = alpha };
        (match s.multi with
         | Some mb -> s.multi <- step s.eps0 { mb with balpha = [] } (OSolve (miu, alpha))
         | None -> ())
      end
  | "CONV" ->
      let s = Hashtbl.find sessions id in
      let a = kvs args in
      let tol = q_of_float (parse_float (get a "tol")) in
      let ec = get a "econv" = "1" and sc = get a "sconv" = "1" in
      let se = q_of_float (parse_float (get a "se")) and ss = q_of_float (parse_float (get a "ss")) in
      incr total;
      let b = s.cur in
      let mse = smeared_e b.bcuts b.balpha in
      let ms = smeared_s b.bn b.bcuts b.balpha in
      let mss2 = norm2 ms in
      (* values *)
      let emag = List.fold_left2 (fun acc c al -> acc +/ qabs (c.ce */ al)) qz b.bcuts b.balpha in
      if not (close mse se (rel9 */ emag)) then
        report "smeared-e" id (Printf.sprintf "model=%h impl=%h" (float_of_q mse) (float_of_q se));
      let smag = List.fold_left2 (fun acc c al -> acc +/ qabs al */ sumabs c.cs) qz b.bcuts b.balpha in
      if not (close mss2 (ss */ ss) (rel9 */ (smag */ smag))) then
        report "smeared-s" id (Printf.sprintf "model |s|^2=%h impl |s|=%h" (float_of_q mss2) (float_of_q ss));
      (* decisions, unless the two sides are closer than the rounding of the implementation *)
      let amb_e = close mse tol (rel9 */ (emag +/ tol)) in
      let amb_s = close mss2 (tol */ tol) (rel9 */ (smag */ smag +/ tol */ tol)) in
      if amb_e || amb_s then (incr ambiguous; incr amb_conv);
      if (not amb_e) && econv tol b <> ec then report "econverged" id (Printf.sprintf "model=%b impl=%b se=%h tol=%h" (econv tol b) ec (float_of_q mse) (float_of_q tol));
      if (not amb_s) && sconv tol b <> sc then report "sconverged" id (Printf.sprintf "model=%b impl=%b |s|^2=%h tol=%h" (sconv tol b) sc (float_of_q mss2) (float_of_q tol));
      if (not amb_e) && (not amb_s) && cs_converged tol b <> (ec && sc) then report "cs-converged" id "";
      last_conv := Some (id, ec && sc, amb_e || amb_s)
  | "APP" ->
      let s = Hashtbl.find sessions id in
      let a = kvs args in
      let serious = get a "serious" = "1" in
      let keeps = get a "keep" in
      let keep = if keeps = "-" then [] else List.map (fun t -> nat_of_int (int_of_string t)) (String.split_on_char ',' keeps) in
      let y = qs_of (List.nth parts 1) and gy = qs_of (List.nth parts 2) and fy = q_of_float (parse_float (List.nth parts 3)) in
      let b = s.cur in
      incr total;
      if String.contains keeps '?' then report "keep-unmatched" id "rows after delete_largest are not a subsequence of the rows before";
      (* sum of the multipliers that enter the aggregate (the theorems need exactly 1) *)
      let r = del_inactive s.eps0 b.bcuts b.balpha in
      let fired = src_c03_full (B.big_int_of_int (List.length (fst r))) b.bcap in
      if fired then begin
        let sg = List.fold_left ( +/ ) qz (snd r) in
        let dev = Float.abs (float_of_q (sg -/ q1)) in
        if dev > !sigma_worst then sigma_worst := dev
      end;
      (match step s.eps0 b (OAppend (serious, keep, y, gy, fy)) with
       | None -> report "append-rejected" id (Printf.sprintf "alphas=%d rows=%d" (List.length b.balpha) (List.length b.bcuts))
       | Some b' ->
           s.pending <- Some b';
           (* tolerances: e_i' = e_i + fy - fx - s_i.(y - x) ; aggregate = sum alpha_i (s_i, e_i) ; null: fx - fy - gy.(x-y) *)
           let dmag v = List.fold_left2 (fun acc sj (yj, xj) -> acc +/ qabs sj */ (qabs yj +/ qabs xj)) qz v (List.combine y b.bx) in
           let aggmag = List.fold_left2 (fun acc c al -> acc +/ qabs (c.ce */ al)) qz (fst r) (snd r) in
           let base c = qabs c.ce +/ (if fired then aggmag else qz) in
           let m' = List.length b'.bcuts in
           let etol = List.mapi (fun i c ->
             if i = m' - 1 then (if serious then qz else rel9 */ (qabs b.bfx +/ qabs fy +/ dmag gy))
             else if serious then rel9 */ (base c +/ qabs fy +/ qabs b.bfx +/ dmag c.cs)
             else (if fired && i = m' - 2 then rel9 */ aggmag else qz)) b'.bcuts in
           let stol = List.mapi (fun j _ -> rel9 */ (List.fold_left2 (fun acc c al -> acc +/ qabs (al */ (List.nth c.cs j))) qz (fst r) (snd r))) y in
           s.pend_tol <- Some (etol, if fired then stol else List.map (fun _ -> qz) y));
      s.steps <- s.steps + 1;
      (match s.multi with
       | Some mb when s.steps <= 40 ->
           (match step s.eps0 mb (OAppend (serious, keep, y, gy, fy)) with
            | Some mb' -> s.multi <- Some { mb' with bcuts = List.map qred_cut mb'.bcuts }
            | None -> s.multi <- None)
       | _ -> s.multi <- None)
  | "GUARD" -> ()
  | "END" -> Hashtbl.remove sessions id
  | _ -> ()

(* ---- 1-D ellipsoid ---------------------------------------------------------------------------------------------- *)
let handle_e1 id rest =
  let parts = List.map String.trim (String.split_on_char '|' rest) in
  let a = kvs (List.nth parts 0) in
  let rr = q_of_float (parse_float (get a "R")) and eps = q_of_float (parse_float (get a "eps")) in
  let macheps = q_of_float (parse_float (get a "macheps")) and maxev = int_of_string (get a "maxev") in
  let evs = Array.of_list (List.map (fun t -> match String.split_on_char ':' t with
    | [c; f; g] -> (parse_float c, parse_float f, parse_float g) | _ -> failwith "bad eval") (split ' ' (List.nth parts 1))) in
  let fin = List.filter (fun t -> t <> "") (String.split_on_char ' ' (List.nth parts 2)) in
  let status = int_of_string (List.nth fin 0) and fxret = parse_float (List.nth fin 1) in
  incr total;
  let nev = Array.length evs in
  (* replay: evaluation k is the centre c_k with half... quarter width H_k = R / 2^k *)
  let rec go k h best =
    (* returns (predicted status, predicted number of evaluations, best) ; status 1 = converged, 0 = max_iters *)
    if k >= nev then (-1, k, best) (* the implementation stopped evaluating earlier than the model expects *)
    else begin
      let (c, _, g) = evs.(k) in
      if not (2 * (k + 1) < maxev) then (0, k + 1, best)
      else begin
        let qc = q_of_float c and qg = q_of_float g in
        let ghg = ell1_gHg h qg in
        let amb t = close ghg t (rel9 */ t) in
        if amb macheps || amb (eps */ eps) then (incr ambiguous; incr amb_ell; (-2, k + 1, best))
        else if ell1_stop0 macheps h qg then (1, k + 1, best)
        else begin
          let (c', h') = ell1_next qc h qg in
          if k + 1 >= nev then (-1, k + 1, best)
          else begin
            let (c1, f1, _) = evs.(k + 1) in
            if not (close c' (q_of_float c1) (rel9 */ rel6 */ (qabs qc +/ h))) then
              report "ell1-next" id (Printf.sprintf "k=%d c=%h H=%h g=%h model=%h impl=%h" k c (float_of_q h) g (float_of_q c') c1);
            let best' = if f1 < best then f1 else best in
            if ell1_conv eps h qg then (1, k + 2, best') else go (k + 1) h' best'
          end
        end
      end
    end in
  let (_, f0, _) = evs.(0) in
  let (pst, pn, pbest) = go 0 rr f0 in
  if pst = -2 then ()
  else begin
    if pst <> status then report "ell1-status" id (Printf.sprintf "model=%d impl=%d evals model=%d impl=%d" pst status pn nev);
    if pst >= 0 && pn <> nev then report "ell1-evals" id (Printf.sprintf "model=%d impl=%d" pn nev);
    if pst >= 0 && pbest <> fxret then report "ell1-best" id (Printf.sprintf "model=%h impl=%h" pbest fxret)
  end


(* ---- n-D ellipsoid: ev_ellipsoid_update events of the real solver ---------------------------------------------------- *)
(* (a) the extracted deep-cut step (C03e_model, canonical rationals) from the recorded (x, H, g, f, best, s) against the
       recorded (x', H');  (b) independently of the model: the known minimiser is inside the recorded ellipsoid after
       the step -- (x* - x')' H'^-1 (x* - x') <= 1 -- by exact Gaussian elimination over Q (Zarith) *)
module E = C03e_model
let ell_steps = ref 0
let ell_member = ref 0
let amb_elln = ref 0
let ell_worst = ref 0.0
let ell_worst_dev = ref 0.0
let propfails = ref 0
let propfail what id detail =
  incr propfails;
  incr printed;
  if !printed <= 100 then Printf.printf "PROPFAIL %s %s %s\n" what id detail
let eq_of (x : q) : E.q = { E.qnum = x.qnum; E.qden = x.qden }
let q_of_e (x : E.q) : q = { qnum = x.E.qnum; qden = x.E.qden }
let zq (x : q) : Q.t = Q.make x.qnum x.qden
let rel12 = { qnum = B.unit_big_int; qden = B.big_int_of_string "1000000000000" }

(* w' S^-1 w for the symmetric part S of the recorded matrix, exactly; None when a pivot is not positive (S not
   positive definite: elimination without pivoting is the LDL' factorisation) *)
let exact_form (h : Q.t array array) (w : Q.t array) : Q.t option =
  let n = Array.length w in
  let a = Array.init n (fun i -> Array.init n (fun j -> Q.div (Q.add h.(i).(j) h.(j).(i)) (Q.of_int 2))) in
  let b = Array.copy w in
  let ok = ref true in
  (try
    for c = 0 to n - 1 do
      if Q.sign a.(c).(c) <= 0 then (ok := false; raise Exit);
      for r = c + 1 to n - 1 do
        let m = Q.div a.(r).(c) a.(c).(c) in
        if Q.sign m <> 0 then begin
          for j = c to n - 1 do a.(r).(j) <- Q.sub a.(r).(j) (Q.mul m a.(c).(j)) done;
          b.(r) <- Q.sub b.(r) (Q.mul m b.(c))
        end
      done
    done
  with Exit -> ());
  if not !ok then None
  else begin
    let z = Array.make n Q.zero in
    for i = n - 1 downto 0 do
      let s = ref b.(i) in
      for j = i + 1 to n - 1 do s := Q.sub !s (Q.mul a.(i).(j) z.(j)) done;
      z.(i) <- Q.div !s a.(i).(i)
    done;
    let m = ref Q.zero in
    Array.iteri (fun i wi -> m := Q.add !m (Q.mul wi z.(i))) w;
    Some !m
  end

let ell_tol = 1e-6   (* slack of the membership test: rounding of the implementation accumulated over a run *)

let handle_ell id rest =
  let parts = List.map String.trim (String.split_on_char '|' rest) in
  let a = kvs (List.nth parts 0) in
  let n = int_of_string (get a "n") and k = get a "k" in
  let idk = id ^ " k=" ^ k in
  let ff = parse_float (List.nth parts 1) and fb = parse_float (List.nth parts 2) and fg = parse_float (List.nth parts 3) in
  let x = qs_of (List.nth parts 4) and g = qs_of (List.nth parts 5) and h = parse_rows (List.nth parts 6) in
  let x' = qs_of (List.nth parts 7) and h' = parse_rows (List.nth parts 8) and xs = qs_of (List.nth parts 9) in
  incr total; incr ell_steps;
  if List.length x <> n || List.length g <> n || List.length h <> n || List.length x' <> n || List.length h' <> n || List.length xs <> n then
    report "ell-shape" idk "wrong number of values"
  else begin
    let f = q_of_float ff and best = q_of_float fb and ghg = q_of_float fg in
    if ff < fb then report "ell-best" idk (Printf.sprintf "best=%h > f=%h: state.fx() is not the best value seen" fb ff);
    (* ---- (a) model against the recorded update ---- *)
    if n = 1 then begin
      let c = List.hd x and hh = List.hd (List.hd h) and gg = List.hd g in
      let (c1, h1) = ell1_next c hh gg in
      if not (close c1 (List.hd x') (rel9 */ (qabs c +/ qabs hh))) || not (close h1 (List.hd (List.hd h')) (rel9 */ qabs hh)) then
        report "ell-update-1d" idk (Printf.sprintf "model x'=%h H'=%h impl x'=%h H'=%h" (float_of_q c1) (float_of_q h1)
                                     (float_of_q (List.hd x')) (float_of_q (List.hd (List.hd h'))));
      if not (close (ell1_gHg hh gg) ghg (rel9 */ qabs ghg)) then
        report "ell-gHg" idk (Printf.sprintf "model=%h impl=%h" (float_of_q (ell1_gHg hh gg)) fg)
    end else begin
      let s = q_of_float (Float.sqrt fg) in
      if not (close (s */ s) ghg (rel12 */ qabs ghg)) || not (qlt qz s) then
        report "ell-sqrt" idk (Printf.sprintf "s=%h gHg=%h" (float_of_q s) fg)
      else begin
        (* magnitudes: hgabs_i = sum_j |H_ij g_j|, ghabs_j = sum_i |g_i H_ij|, mg = sum_ij |g_i H_ij g_j| *)
        let hgabs = List.map (fun row -> List.fold_left2 (fun acc hij gj -> acc +/ qabs (hij */ gj)) qz row g) h in
        let ghabs = List.mapi (fun j _ -> List.fold_left2 (fun acc row gi -> acc +/ qabs (gi */ List.nth row j)) qz h g) g in
        let mg = List.fold_left2 (fun acc hg gi -> acc +/ qabs gi */ hg) qz hgabs g in
        let ghg_exact = q_of_e (E.en_gHg E.qcO (List.map (List.map eq_of) h) (List.map eq_of g)) in
        if not (close ghg_exact ghg (rel9 */ mg)) then
          report "ell-gHg" idk (Printf.sprintf "model=%h impl=%h terms=%h" (float_of_q ghg_exact) fg (float_of_q mg));
        let amp = qdiv mg ghg in
        if qlt (q_of_int 10000) amp then (incr ambiguous; incr amb_elln)
        else begin
          let nf = q_of_int n in
          let st = { E.ex = List.map eq_of x; E.eH = List.map (List.map eq_of) h; E.ebest = eq_of best } in
          let o = { E.ef = eq_of f; E.eg = List.map eq_of g; E.es = eq_of s } in
          let r = E.en_step_qc (eq_of nf) st o in
          let alpha = qdiv (f -/ best) s in
          let tau = qdiv (q1 +/ nf */ qabs alpha) (nf +/ q1) in
          let cc = qdiv (nf */ nf) (nf */ nf -/ q1) */ (q1 +/ alpha */ alpha) in
          let sigma = qdiv (q_of_int 2 */ (q1 +/ nf */ qabs alpha)) ((nf +/ q1) */ (q1 +/ alpha)) in
          (* centre *)
          let i = ref 0 in
          List.iter2 (fun (xm, xi) (xo, hg) ->
            let tol = rel9 */ (qabs xi +/ amp */ (tau +/ qabs alpha) */ qdiv hg s) in
            let xm = q_of_e xm in
            if not (close xm xo tol) then
              report "ell-centre" idk (Printf.sprintf "i=%d model=%h impl=%h tol=%h alpha=%h" !i (float_of_q xm) (float_of_q xo) (float_of_q tol) (float_of_q alpha));
            incr i) (List.combine r.E.ex x) (List.combine x' hgabs);
          (* shape matrix *)
          let bad = ref false in
          List.iteri (fun i (rm, (ro, rh)) ->
            List.iteri (fun j (hm, (ho, hij)) ->
              let hm = q_of_e hm in
              let tol = rel9 */ amp */ cc */ (qabs hij +/ (sigma +/ q1) */ qdiv (List.nth hgabs i */ List.nth ghabs j) ghg) in
              if (not !bad) && not (close hm ho tol) then begin
                bad := true;
                report "ell-shape-matrix" idk (Printf.sprintf "i=%d j=%d model=%h impl=%h tol=%h alpha=%h n=%d" i j (float_of_q hm) (float_of_q ho) (float_of_q tol) (float_of_q alpha) n)
              end) (List.combine rm (List.combine ro rh))) (List.combine r.E.eH (List.combine h' h))
        end
      end
    end;
    (* ---- (b) the minimiser stays inside (model independent) ---- *)
    let w = Array.of_list (List.map2 (fun a b -> Q.sub (zq a) (zq b)) xs x') in
    incr ell_member;
    if Array.for_all (fun wi -> Q.sign wi = 0) w then ()   (* the centre is the minimiser *)
    else begin
      let hm = Array.of_list (List.map (fun row -> Array.of_list (List.map zq row)) h') in
      (* n = 1: the bisection branch keeps |x* - x| <= 2 H *)
      let hm = if n = 1 then [| [| Q.mul (Q.of_int 4) (Q.mul hm.(0).(0) hm.(0).(0)) |] |] else hm in
      match exact_form hm w with
      | None -> propfail "ellipsoid-shape-not-positive-definite" idk (Printf.sprintf "n=%d after the update of iteration %s" n k)
      | Some m ->
          let mf = Q.to_float m in
          if mf > !ell_worst then ell_worst := mf;
          if Q.gt m (Q.of_float (1.0 +. ell_tol)) then
            propfail "ellipsoid-minimiser-outside" idk
              (Printf.sprintf "n=%d (x*-x')'H'^-1(x*-x') = %.17g > 1 after the update of iteration %s: x*=%s x'=%s" n mf k
                 (List.nth parts 9) (List.nth parts 7))
    end
  end

let () =
  let nlines = ref 0 in
  (try
    while true do
      let line = input_line stdin in
      incr nlines;
      (try
        if String.length line > 2 && String.sub line 0 2 = "B " then begin
          let rest = String.sub line 2 (String.length line - 2) in
          let i = String.index rest ' ' in
          handle_bundle (String.sub rest 0 i) (String.sub rest (i + 1) (String.length rest - i - 1))
        end
        else if String.length line > 3 && String.sub line 0 3 = "E1 " then begin
          let rest = String.sub line 3 (String.length line - 3) in
          let i = String.index rest ' ' in
          handle_e1 (String.sub rest 0 i) (String.sub rest (i + 1) (String.length rest - i - 1))
        end
        else if String.length line > 4 && String.sub line 0 4 = "ELL " then begin
          let rest = String.sub line 4 (String.length line - 4) in
          let i = String.index rest ' ' in
          handle_ell (String.sub rest 0 i) (String.sub rest (i + 1) (String.length rest - i - 1))
        end
        else if String.length line > 2 && String.sub line 0 2 = "D " then begin
          match List.map int_of_string (List.filter (fun t -> t <> "") (String.split_on_char ' ' (String.sub line 2 (String.length line - 2)))) with
          | [iter_ok; conv; valid; ret; st] ->
              incr total;
              let m = done_status (iter_ok = 1) (valid = 1) (conv = 1) in
              let ok = match m with Some z -> ret = 1 && B.int_of_big_int z = st | None -> ret = 0 in
              if not ok then report "done" line ""
          | _ -> ()
        end
        else if String.length line > 3 && String.sub line 0 3 = "CS " then begin
          match List.filter (fun t -> t <> "") (String.split_on_char ' ' line) with
          | [_; which; st; iok; cv] ->
              incr total;
              let z = B.big_int_of_int (int_of_string st) in
              let mi, mc = if which = "rqb" then (src_c03_rqb_iter_ok z, src_c03_rqb_converged z) else (src_c03_fpba_iter_ok z, src_c03_fpba_converged z) in
              if mi <> (iok = "1") || mc <> (cv = "1") then report "csearch-status" line "";
              (* the curve search may hand `converged` to the solver only when the bundle's own two tests hold on the final
                 multipliers (the CONV line printed right before): that is the premise of the certificate theorems *)
              (match !last_conv with
               | Some (cid, both, amb) when mc && (not both) && (not amb) ->
                   report "csearch-converged-without-certificate" cid line
               | _ -> ())
          | _ -> ()
        end
      with
      | End_of_file -> raise End_of_file
      | ex -> report "driver-exception" (Printf.sprintf "line %d" !nlines) (Printexc.to_string ex ^ " :: " ^ (if String.length line > 160 then String.sub line 0 160 else line)))
    done
  with End_of_file -> ());
  Printf.printf "MODEL-DONE checked=%d mismatches=%d ambiguous_skipped=%d amb_solve2=%d amb_conv=%d amb_ell1=%d multistep_states=%d simplex_worst=%h sigma_worst=%h ellipsoid_steps_checked=%d ellipsoid_membership_checked=%d amb_elln=%d ellipsoid_membership_worst=%.17g propfails=%d\n"
    !total !mism !ambiguous !amb_solve !amb_conv !amb_ell !multi_checked !simplex_worst !sigma_worst !ell_steps !ell_member !amb_elln !ell_worst !propfails
