(* C03 driver: reads the lines of harness/c03_bundle.cpp on stdin and replays every bundle operation, stopping test,
   status decision and 1-D ellipsoid step with the extracted exact-rational model (C03_model, Z mapped to Zarith).
   Discrete data (sizes, copied rows, decisions away from their threshold) must agree exactly, computed doubles within
   1e-9 * (sum of the magnitudes of the terms).  Prints `MISMATCH <what> <id> ...` and a final
   `MODEL-DONE checked=<n> mismatches=<m> ...`.
   NB: compiled by tools/checks/c03.py after `open C03_model` (no zutil.ml.inc: Z is not an inductive here). *)
module B = Big_int_Z

let mism = ref 0
let total = ref 0
let printed = ref 0
let ambiguous = ref 0
let amb_solve = ref 0
let amb_conv = ref 0
let amb_ell = ref 0
let simplex_worst = ref 0.0
let sigma_worst = ref 0.0
let multi_checked = ref 0
let last_conv : (string * bool * bool) option ref = ref None
let report what id detail =
  incr mism;
  incr printed;
  if !printed <= 100 then Printf.printf "MISMATCH %s %s %s\n" what id detail

(* ---- exact conversion of doubles ---------------------------------------------------------------- *)
let qz = { qnum = B.zero_big_int; qden = B.unit_big_int }
let q1 = { qnum = B.unit_big_int; qden = B.unit_big_int }
let q_of_int n = { qnum = B.big_int_of_int n; qden = B.unit_big_int }
let q_of_float (x : float) : q =
  if x = 0.0 then qz
  else begin
    let (m, e) = Float.frexp x in
    let mi = Int64.of_float (Float.ldexp m 53) in
    let rec strip mi e = if Int64.rem mi 2L = 0L then strip (Int64.div mi 2L) (e + 1) else (mi, e) in
    let (mi, e) = strip mi (e - 53) in
    let n = B.big_int_of_int64 mi in
    if e >= 0 then { qnum = B.shift_left_big_int n e; qden = B.unit_big_int }
    else { qnum = n; qden = B.shift_left_big_int B.unit_big_int (- e) }
  end
let float_of_q (x : q) : float = Q.to_float (Q.make x.qnum x.qden)
let parse_float s = let s = String.trim s in
  if s = "nan" then Float.nan else if s = "inf" then Float.infinity else if s = "-inf" then Float.neg_infinity
  else float_of_string s
let split c s = if String.trim s = "" || String.trim s = "-" then [] else String.split_on_char c (String.trim s)
let floats_of s = List.map parse_float (split ',' s)
let qs_of s = List.map q_of_float (floats_of s)
let ( +/ ) = qplus and ( -/ ) = qminus and ( */ ) = qmult
let qabs x = if qle_bool qz x then x else qopp x
let qle = qle_bool
let qlt a b = not (qle_bool b a)
let rel9 = { qnum = B.unit_big_int; qden = B.big_int_of_string "1000000000" }
let rel6 = { qnum = B.unit_big_int; qden = B.big_int_of_string "1000000" }
let tiny = { qnum = B.unit_big_int; qden = B.shift_left_big_int B.unit_big_int 900 }
let close a b tol = qle (qabs (a -/ b)) (tol +/ tiny)
let rec nat_of_int n = if n <= 0 then O else S (nat_of_int (n - 1))
let rec int_of_nat = function O -> 0 | S m -> 1 + int_of_nat m
let sumabs l = List.fold_left (fun a x -> a +/ qabs x) qz l
let qred_cut c = { cs = List.map qred c.cs; ce = qred c.ce }

let kv tok = match String.index_opt tok '=' with
  | Some i -> (String.sub tok 0 i, String.sub tok (i + 1) (String.length tok - i - 1))
  | None -> (tok, "")
let kvs s = List.map kv (List.filter (fun t -> t <> "") (String.split_on_char ' ' (String.trim s)))
let get l k = try List.assoc k l with Not_found -> failwith ("missing key " ^ k)

(* ---- sessions ------------------------------------------------------------------------------------------------ *)
type session = {
  n : int; cap : int; eps0 : q;
  mutable cur : bundle;               (* the observed state (exact doubles) + the observed multipliers *)
  mutable pending : bundle option;    (* the model's prediction for the next STATE *)
  mutable pend_tol : (q list * q list) option;   (* per-row tolerances of E, per-column tolerances of the aggregate row *)
  mutable multi : bundle option;      (* the model run on its own state from NEW on (bounded number of steps) *)
  mutable steps : int;
  mutable hist : q;                   (* largest |f| the session went through (magnitude history of the linearisation errors) *)
}
(* multistep: the model's OWN state meets the branches of the two-row closed form of bundle_t::solve (q == 0: b not finite, 0 <= b <= 1,
   0.5 q + p > 0).  A branch is ambiguous when its two sides are within 1e-9 of the summed magnitudes of their terms; the terms of the
   linearisation errors e0, e1 (differences of function values and linearisations over the history of the session) enter with 1e-12 of the
   largest |f| of the session, times miu as they do in p = q01 - q11 + miu (e0 - e1) *)
let multi_stopped = ref 0
let rel12s = { qnum = B.unit_big_int; qden = B.big_int_of_string "1000000000000" }
let solve2_ambiguous (b : bundle) (miu : q) (hist : q) : bool =
  match b.bcuts with
  | [c0; c1] ->
      let q00 = dot c0.cs c0.cs and q11 = dot c1.cs c1.cs and q01 = dot c0.cs c1.cs in
      let qq = q00 +/ q11 -/ q01 -/ q01 in
      let pp = q01 -/ q11 +/ miu */ c0.ce -/ miu */ c1.ce in
      let magq = q00 +/ q11 +/ qabs q01 +/ qabs q01 in
      let magp = qabs q01 +/ q11 +/ qabs (miu */ c0.ce) +/ qabs (miu */ c1.ce) in
      let noise = rel12s */ qabs miu */ hist in
      let nr lhs mag extra = qle (qabs lhs) (rel9 */ mag +/ extra +/ tiny) in
      let half = { qnum = B.unit_big_int; qden = B.big_int_of_int 2 } in
      nr qq magq qz || nr pp magp noise || nr (pp +/ qq) (magp +/ magq) noise || nr (half */ qq +/ pp) (magp +/ magq) noise
  | _ -> false
let sessions : (string, session) Hashtbl.t = Hashtbl.create 64

let parse_rows s = List.map qs_of (split ';' s)
let qmax0 a b = if qlt a b then b else a

let cmp_state id (pred : bundle) (tols : (q list * q list) option) (size : int) (x : q list) (fx : q) (es : q list) (rows : q list list) what strict =
  incr total;
  let m = List.length pred.bcuts in
  if m <> size then report (what ^ "-size") id (Printf.sprintf "model=%d impl=%d" m size)
  else begin
    if strict && not (List.for_all2 (fun a b -> qeq_bool a b) pred.bx x && qeq_bool pred.bfx fx) then
      report (what ^ "-centre") id (Printf.sprintf "model fx=%h impl fx=%h" (float_of_q pred.bfx) (float_of_q fx));
    let etol, stol = match tols with Some (a, b) -> (a, b) | None -> (List.map (fun _ -> qz) es, List.map (fun _ -> qz) x) in
    let i = ref 0 in
    List.iter2 (fun (c, t) (e, row) ->
      if not (close c.ce e t) then
        report (what ^ "-error") id (Printf.sprintf "row=%d of %d model=%h impl=%h tol=%h" !i m (float_of_q c.ce) (float_of_q e) (float_of_q t));
      (* rows are copied / are the new sub-gradient (exact) or the aggregate (tolerance per column) *)
      let j = ref 0 in
      List.iter2 (fun a b ->
        let t = (try List.nth stol !j with _ -> qz) in
        if not (if strict then (qeq_bool a b || close a b t) else close a b (t +/ rel6 */ (qabs a +/ q1))) then
          report (what ^ "-row") id (Printf.sprintf "row=%d col=%d model=%h impl=%h" !i !j (float_of_q a) (float_of_q b));
        incr j) c.cs row;
      incr i) (List.combine pred.bcuts etol) (List.combine es rows)
  end

let handle_bundle id rest =
  let parts = List.map String.trim (String.split_on_char '|' rest) in
  let head = List.hd parts in
  let cmd, args = match String.index_opt head ' ' with
    | Some i -> (String.sub head 0 i, String.sub head (i + 1) (String.length head - i - 1))
    | None -> (head, "") in
  match cmd with
  | "NEW" ->
      let a = kvs args in
      let n = int_of_string (get a "n") and mx = int_of_string (get a "max") and cap = int_of_string (get a "cap") in
      let eps0 = q_of_float (parse_float (get a "eps0")) in
      incr total;
      let kcap = B.int_of_big_int (src_c03_capacity (B.big_int_of_int mx)) in
      if kcap <> cap || B.int_of_big_int (src_c03_capacity_e (B.big_int_of_int mx)) <> int_of_string (get a "cape")
         || B.int_of_big_int (src_c03_capacity_a (B.big_int_of_int mx)) <> cap
         || kcap <> int_of_string (get a "caps") then
        report "capacity" id (Printf.sprintf "max=%d model=%d impl=%d" mx kcap cap);
      let x = qs_of (List.nth parts 1) and gx = qs_of (List.nth parts 2) and fx = q_of_float (parse_float (List.nth parts 3)) in
      let b = init (nat_of_int n) (B.big_int_of_int mx) x gx fx in
      Hashtbl.replace sessions id { n; cap; eps0; cur = b; pending = Some b; pend_tol = None; multi = Some b; steps = 0; hist = qabs fx }
  | "STATE" ->
      let s = Hashtbl.find sessions id in
      let a = kvs args in
      let size = int_of_string (get a "size") in
      let x = qs_of (List.nth parts 1) and fx = q_of_float (parse_float (List.nth parts 2)) in
      let es = qs_of (List.nth parts 3) and rows = parse_rows (List.nth parts 4) in
      (match s.pending with
       | Some pred -> cmp_state id pred s.pend_tol size x fx es rows "state" true
       | None -> ());
      (match s.multi with
       | Some mb when List.length mb.bcuts = size ->
           incr multi_checked;
           let scale = sumabs es +/ qabs fx +/ q1 in
           let tl = (List.map (fun _ -> rel6 */ scale) es, List.map (fun _ -> rel6 */ scale) x) in
           cmp_state id mb (Some tl) size x fx es rows "multistep" false
       | Some _ -> s.multi <- None
       | None -> ());
      s.pending <- None;
      s.cur <- { bn = nat_of_int s.n; bcap = B.big_int_of_int s.cap; bx = x; bfx = fx;
                 bcuts = List.map2 (fun e r -> { cs = r; ce = e }) es rows; balpha = [] }
  | "SOLVE" ->
      let s = Hashtbl.find sessions id in
      let a = kvs args in
      let miuf = parse_float (get a "miu") in
      let miu_known = Float.is_finite miuf in
      let miu = if miu_known then q_of_float miuf else q1 in
      let alpha = qs_of (List.nth parts 1) in
      let m = List.length s.cur.bcuts in
      incr total;
      if List.length alpha <> m then report "solve-size" id (Printf.sprintf "alphas=%d rows=%d" (List.length alpha) m)
      else begin
        (match step s.eps0 { s.cur with balpha = [] } (OSolve (miu, alpha)) with
         | None -> report "solve-rejected" id ""
         | Some b' ->
             if m <= 2 && not miu_known && m = 2 then (incr ambiguous; incr amb_solve)
             else if m <= 2 then begin
               (* the closed forms: compare the model's multipliers with the observed ones *)
               let tol =
                 if m = 1 then qz
                 else begin
                   let c0 = List.nth s.cur.bcuts 0 and c1 = List.nth s.cur.bcuts 1 in
                   let q00 = dot c0.cs c0.cs and q11 = dot c1.cs c1.cs and q01 = dot c0.cs c1.cs in
                   let q = q00 +/ q11 -/ q01 -/ q01 in
                   let mag = q00 +/ q11 +/ qabs q01 +/ qabs q01 +/ qabs (miu */ c0.ce) +/ qabs (miu */ c1.ce) in
                   if qle (qabs q) (rel6 */ mag) then q_of_int 2 (* nearly parallel rows: the quotient is ill-conditioned *)
                   else rel9 */ (q1 +/ qdiv (mag +/ mag) (qabs q))
                 end in
               if qle q1 tol then (incr ambiguous; incr amb_solve)
               else List.iter2 (fun am ao ->
                 if not (close am ao tol) then
                   report "solve-alpha" id (Printf.sprintf "rows=%d model=%h impl=%h" m (float_of_q am) (float_of_q ao))) b'.balpha alpha
             end else begin
               (* the oracle hypothesis of the theorems: the QP answer is a point of the simplex *)
               let sum = List.fold_left ( +/ ) qz alpha in
               let mn = List.fold_left (fun a x -> if qlt x a then x else a) q1 alpha in
               let dev = Float.max (Float.abs (float_of_q (sum -/ q1))) (Float.max 0.0 (-. float_of_q mn)) in
               if dev > !simplex_worst then simplex_worst := dev;
               if dev > 1e-6 then report "solve-simplex" id (Printf.sprintf "rows=%d sum-1=%h min=%h" m (float_of_q (sum -/ q1)) (float_of_q mn))
             end);
        s.cur <- { s.cur with balpha = alpha };
        (match s.multi with
         | Some mb ->
             (match step s.eps0 { mb with balpha = [] } (OSolve (miu, alpha)) with
              | Some nb when List.length nb.bcuts = 2 && List.length alpha = 2
                             && not (List.for_all2 (fun am ao -> close am ao rel6) nb.balpha alpha) ->
                  (* the model on its own state and the library chose different multipliers for two rows: when a branch of the closed form
                     is ambiguous on the model's own state (or miu is unknown) the two states legitimately diverge from here on -- the
                     multistep comparison of this session stops (counted); otherwise it goes on and the next STATE is compared *)
                  if (not miu_known) || solve2_ambiguous nb miu s.hist then begin incr multi_stopped; s.multi <- None end
                  else s.multi <- Some nb
              | r -> s.multi <- r)
         | None -> ())
      end
  | "CONV" ->
      let s = Hashtbl.find sessions id in
      let a = kvs args in
      let tol = q_of_float (parse_float (get a "tol")) in
      let ec = get a "econv" = "1" and sc = get a "sconv" = "1" in
      let se = q_of_float (parse_float (get a "se")) and ss = q_of_float (parse_float (get a "ss")) in
      incr total;
      let b = s.cur in
      let mse = smeared_e b.bcuts b.balpha in
      let ms = smeared_s b.bn b.bcuts b.balpha in
      let mss2 = norm2 ms in
      (* values *)
      let emag = List.fold_left2 (fun acc c al -> acc +/ qabs (c.ce */ al)) qz b.bcuts b.balpha in
      if not (close mse se (rel9 */ emag)) then
        report "smeared-e" id (Printf.sprintf "model=%h impl=%h" (float_of_q mse) (float_of_q se));
      let smag = List.fold_left2 (fun acc c al -> acc +/ qabs al */ sumabs c.cs) qz b.bcuts b.balpha in
      if not (close mss2 (ss */ ss) (rel9 */ (smag */ smag))) then
        report "smeared-s" id (Printf.sprintf "model |s|^2=%h impl |s|=%h" (float_of_q mss2) (float_of_q ss));
      (* decisions, unless the two sides are closer than the rounding of the implementation *)
      let amb_e = close mse tol (rel9 */ (emag +/ tol)) in
      let amb_s = close mss2 (tol */ tol) (rel9 */ (smag */ smag +/ tol */ tol)) in
      if amb_e || amb_s then (incr ambiguous; incr amb_conv);
      if (not amb_e) && econv tol b <> ec then report "econverged" id (Printf.sprintf "model=%b impl=%b se=%h tol=%h" (econv tol b) ec (float_of_q mse) (float_of_q tol));
      if (not amb_s) && sconv tol b <> sc then report "sconverged" id (Printf.sprintf "model=%b impl=%b |s|^2=%h tol=%h" (sconv tol b) sc (float_of_q mss2) (float_of_q tol));
      if (not amb_e) && (not amb_s) && cs_converged tol b <> (ec && sc) then report "cs-converged" id "";
      last_conv := Some (id, ec && sc, amb_e || amb_s)
  | "APP" ->
      let s = Hashtbl.find sessions id in
      let a = kvs args in
      let serious = get a "serious" = "1" in
      let keeps = get a "keep" in
      let keep = if keeps = "-" then [] else List.map (fun t -> nat_of_int (int_of_string t)) (String.split_on_char ',' keeps) in
      let y = qs_of (List.nth parts 1) and gy = qs_of (List.nth parts 2) and fy = q_of_float (parse_float (List.nth parts 3)) in
      let b = s.cur in
      incr total;
      if String.contains keeps '?' then report "keep-unmatched" id "rows after delete_largest are not a subsequence of the rows before";
      (* sum of the multipliers that enter the aggregate (the theorems need exactly 1) *)
      let r = del_inactive s.eps0 b.bcuts b.balpha in
      let fired = src_c03_full (B.big_int_of_int (List.length (fst r))) b.bcap in
      if fired then begin
        let sg = List.fold_left ( +/ ) qz (snd r) in
        let dev = Float.abs (float_of_q (sg -/ q1)) in
        if dev > !sigma_worst then sigma_worst := dev
      end;
      (match step s.eps0 b (OAppend (serious, keep, y, gy, fy)) with
       | None -> report "append-rejected" id (Printf.sprintf "alphas=%d rows=%d" (List.length b.balpha) (List.length b.bcuts))
       | Some b' ->
           s.pending <- Some b';
           (* tolerances: e_i' = e_i + fy - fx - s_i.(y - x) ; aggregate = sum alpha_i (s_i, e_i) ; null: fx - fy - gy.(x-y) *)
           let dmag v = List.fold_left2 (fun acc sj (yj, xj) -> acc +/ qabs sj */ (qabs yj +/ qabs xj)) qz v (List.combine y b.bx) in
           let aggmag = List.fold_left2 (fun acc c al -> acc +/ qabs (c.ce */ al)) qz (fst r) (snd r) in
           let base c = qabs c.ce +/ (if fired then aggmag else qz) in
           let m' = List.length b'.bcuts in
           let etol = List.mapi (fun i c ->
             if i = m' - 1 then (if serious then qz else rel9 */ (qabs b.bfx +/ qabs fy +/ dmag gy))
             else if serious then rel9 */ (base c +/ qabs fy +/ qabs b.bfx +/ dmag c.cs)
             else (if fired && i = m' - 2 then rel9 */ aggmag else qz)) b'.bcuts in
           let stol = List.mapi (fun j _ -> rel9 */ (List.fold_left2 (fun acc c al -> acc +/ qabs (al */ (List.nth c.cs j))) qz (fst r) (snd r))) y in
           s.pend_tol <- Some (etol, if fired then stol else List.map (fun _ -> qz) y));
      s.steps <- s.steps + 1;
      if Float.is_finite (float_of_q fy) then s.hist <- qmax0 s.hist (qabs fy);
      (* delete_inactive on the model's own multipliers vs the library's: a differing `alpha_i < eps0` within 1e-9 stops the multistep comparison *)
      (match s.multi with
       | Some mb when List.length mb.balpha = List.length b.balpha
                      && List.exists2 (fun m l -> qlt m s.eps0 <> qlt l s.eps0) mb.balpha b.balpha
                      && List.for_all2 (fun m l -> qlt m s.eps0 = qlt l s.eps0 || close m s.eps0 rel9) mb.balpha b.balpha ->
           incr multi_stopped; s.multi <- None
       | _ -> ());
      (match s.multi with
       | Some mb when s.steps <= 40 ->
           (match step s.eps0 mb (OAppend (serious, keep, y, gy, fy)) with
            | Some mb' -> s.multi <- Some { mb' with bcuts = List.map qred_cut mb'.bcuts }
            | None -> s.multi <- None)
       | _ -> s.multi <- None)
  | "GUARD" -> ()
  | "END" -> Hashtbl.remove sessions id
  | _ -> ()

(* ---- 1-D ellipsoid ---------------------------------------------------------------------------------------------- *)
let handle_e1 id rest =
  let parts = List.map String.trim (String.split_on_char '|' rest) in
  let a = kvs (List.nth parts 0) in
  let rr = q_of_float (parse_float (get a "R")) and eps = q_of_float (parse_float (get a "eps")) in
  let macheps = q_of_float (parse_float (get a "macheps")) and maxev = int_of_string (get a "maxev") in
  let evs = Array.of_list (List.map (fun t -> match String.split_on_char ':' t with
    | [c; f; g] -> (parse_float c, parse_float f, parse_float g) | _ -> failwith "bad eval") (split ' ' (List.nth parts 1))) in
  let fin = List.filter (fun t -> t <> "") (String.split_on_char ' ' (List.nth parts 2)) in
  let status = int_of_string (List.nth fin 0) and fxret = parse_float (List.nth fin 1) in
  incr total;
  let nev = Array.length evs in
  (* replay: evaluation k is the centre c_k with half... quarter width H_k = R / 2^k *)
  let rec go k h best =
    (* returns (predicted status, predicted number of evaluations, best) ; status 1 = converged, 0 = max_iters *)
    if k >= nev then (-1, k, best) (* the implementation stopped evaluating earlier than the model expects *)
    else begin
      let (c, _, g) = evs.(k) in
      if not (2 * (k + 1) < maxev) then (0, k + 1, best)
      else begin
        let qc = q_of_float c and qg = q_of_float g in
        let ghg = ell1_gHg h qg in
        let amb t = close ghg t (rel9 */ t) in
        if amb macheps || amb (eps */ eps) then (incr ambiguous; incr amb_ell; (-2, k + 1, best))
        else if ell1_stop0 macheps h qg then (1, k + 1, best)
        else begin
          let (c', h') = ell1_next qc h qg in
          if k + 1 >= nev then (-1, k + 1, best)
          else begin
            let (c1, f1, _) = evs.(k + 1) in
            if not (close c' (q_of_float c1) (rel9 */ rel6 */ (qabs qc +/ h))) then
              report "ell1-next" id (Printf.sprintf "k=%d c=%h H=%h g=%h model=%h impl=%h" k c (float_of_q h) g (float_of_q c') c1);
            let best' = if f1 < best then f1 else best in
            if ell1_conv eps h qg then (1, k + 2, best') else go (k + 1) h' best'
          end
        end
      end
    end in
  let (_, f0, _) = evs.(0) in
  let (pst, pn, pbest) = go 0 rr f0 in
  if pst = -2 then ()
  else begin
    if pst <> status then report "ell1-status" id (Printf.sprintf "model=%d impl=%d evals model=%d impl=%d" pst status pn nev);
    if pst >= 0 && pn <> nev then report "ell1-evals" id (Printf.sprintf "model=%d impl=%d" pn nev);
    if pst >= 0 && pbest <> fxret then report "ell1-best" id (Printf.sprintf "model=%h impl=%h" pbest fxret)
  end


(* ---- n-D ellipsoid: ev_ellipsoid_update events of the real solver ---------------------------------------------------- *)
(* (a) the extracted deep-cut step (C03e_model, canonical rationals) from the recorded (x, H, g, f, best, s) against the
       recorded (x', H');  (b) independently of the model: the known minimiser is inside the recorded ellipsoid after
       the step -- (x* - x')' H'^-1 (x* - x') <= 1 -- by exact Gaussian elimination over Q (Zarith) *)
module E = C03e_model
let ell_steps = ref 0
let ell_member = ref 0
let amb_elln = ref 0
let ell_worst = ref 0.0
let ell_worst_dev = ref 0.0
let propfails = ref 0
let propfail what id detail =
  incr propfails;
  incr printed;
  if !printed <= 100 then Printf.printf "PROPFAIL %s %s %s\n" what id detail
let eq_of (x : q) : E.q = { E.qnum = x.qnum; E.qden = x.qden }
let q_of_e (x : E.q) : q = { qnum = x.E.qnum; qden = x.E.qden }
let zq (x : q) : Q.t = Q.make x.qnum x.qden
let rel12 = { qnum = B.unit_big_int; qden = B.big_int_of_string "1000000000000" }

(* w' S^-1 w for the symmetric part S of the recorded matrix, exactly; None when a pivot is not positive (S not
   positive definite: elimination without pivoting is the LDL' factorisation) *)
let exact_form (h : Q.t array array) (w : Q.t array) : Q.t option =
  let n = Array.length w in
  let a = Array.init n (fun i -> Array.init n (fun j -> Q.div (Q.add h.(i).(j) h.(j).(i)) (Q.of_int 2))) in
  let b = Array.copy w in
  let ok = ref true in
  (try
    for c = 0 to n - 1 do
      if Q.sign a.(c).(c) <= 0 then (ok := false; raise Exit);
      for r = c + 1 to n - 1 do
        let m = Q.div a.(r).(c) a.(c).(c) in
        if Q.sign m <> 0 then begin
          for j = c to n - 1 do a.(r).(j) <- Q.sub a.(r).(j) (Q.mul m a.(c).(j)) done;
          b.(r) <- Q.sub b.(r) (Q.mul m b.(c))
        end
      done
    done
  with Exit -> ());
  if not !ok then None
  else begin
    let z = Array.make n Q.zero in
    for i = n - 1 downto 0 do
      let s = ref b.(i) in
      for j = i + 1 to n - 1 do s := Q.sub !s (Q.mul a.(i).(j) z.(j)) done;
      z.(i) <- Q.div !s a.(i).(i)
    done;
    let m = ref Q.zero in
    Array.iteri (fun i wi -> m := Q.add !m (Q.mul wi z.(i))) w;
    Some !m
  end

let ell_tol = 1e-6   (* slack of the membership test: rounding of the implementation accumulated over a run *)

let handle_ell id rest =
  let parts = List.map String.trim (String.split_on_char '|' rest) in
  let a = kvs (List.nth parts 0) in
  let n = int_of_string (get a "n") and k = get a "k" in
  let idk = id ^ " k=" ^ k in
  let ff = parse_float (List.nth parts 1) and fb = parse_float (List.nth parts 2) and fg = parse_float (List.nth parts 3) in
  let x = qs_of (List.nth parts 4) and g = qs_of (List.nth parts 5) and h = parse_rows (List.nth parts 6) in
  let x' = qs_of (List.nth parts 7) and h' = parse_rows (List.nth parts 8) and xs = qs_of (List.nth parts 9) in
  incr total; incr ell_steps;
  if List.length x <> n || List.length g <> n || List.length h <> n || List.length x' <> n || List.length h' <> n || List.length xs <> n then
    report "ell-shape" idk "wrong number of values"
  else begin
    let f = q_of_float ff and best = q_of_float fb and ghg = q_of_float fg in
    if ff < fb then report "ell-best" idk (Printf.sprintf "best=%h > f=%h: state.fx() is not the best value seen" fb ff);
    (* ---- (a) model against the recorded update ---- *)
    if n = 1 then begin
      let c = List.hd x and hh = List.hd (List.hd h) and gg = List.hd g in
      let (c1, h1) = ell1_next c hh gg in
      if not (close c1 (List.hd x') (rel9 */ (qabs c +/ qabs hh))) || not (close h1 (List.hd (List.hd h')) (rel9 */ qabs hh)) then
        report "ell-update-1d" idk (Printf.sprintf "model x'=%h H'=%h impl x'=%h H'=%h" (float_of_q c1) (float_of_q h1)
                                     (float_of_q (List.hd x')) (float_of_q (List.hd (List.hd h'))));
      if not (close (ell1_gHg hh gg) ghg (rel9 */ qabs ghg)) then
        report "ell-gHg" idk (Printf.sprintf "model=%h impl=%h" (float_of_q (ell1_gHg hh gg)) fg)
    end else begin
      let s = q_of_float (Float.sqrt fg) in
      if not (close (s */ s) ghg (rel12 */ qabs ghg)) || not (qlt qz s) then
        report "ell-sqrt" idk (Printf.sprintf "s=%h gHg=%h" (float_of_q s) fg)
      else begin
        (* magnitudes: hgabs_i = sum_j |H_ij g_j|, ghabs_j = sum_i |g_i H_ij|, mg = sum_ij |g_i H_ij g_j| *)
        let hgabs = List.map (fun row -> List.fold_left2 (fun acc hij gj -> acc +/ qabs (hij */ gj)) qz row g) h in
        let ghabs = List.mapi (fun j _ -> List.fold_left2 (fun acc row gi -> acc +/ qabs (gi */ List.nth row j)) qz h g) g in
        let mg = List.fold_left2 (fun acc hg gi -> acc +/ qabs gi */ hg) qz hgabs g in
        let ghg_exact = q_of_e (E.en_gHg E.qcO (List.map (List.map eq_of) h) (List.map eq_of g)) in
        if not (close ghg_exact ghg (rel9 */ mg)) then
          report "ell-gHg" idk (Printf.sprintf "model=%h impl=%h terms=%h" (float_of_q ghg_exact) fg (float_of_q mg));
        let amp = qdiv mg ghg in
        if qlt (q_of_int 10000) amp then (incr ambiguous; incr amb_elln)
        else begin
          let nf = q_of_int n in
          let st = { E.ex = List.map eq_of x; E.eH = List.map (List.map eq_of) h; E.ebest = eq_of best } in
          let o = { E.ef = eq_of f; E.eg = List.map eq_of g; E.es = eq_of s } in
          let r = E.en_step_qc (eq_of nf) st o in
          let alpha = qdiv (f -/ best) s in
          let tau = qdiv (q1 +/ nf */ qabs alpha) (nf +/ q1) in
          let cc = qdiv (nf */ nf) (nf */ nf -/ q1) */ (q1 +/ alpha */ alpha) in
          let sigma = qdiv (q_of_int 2 */ (q1 +/ nf */ qabs alpha)) ((nf +/ q1) */ (q1 +/ alpha)) in
          (* centre *)
          let i = ref 0 in
          List.iter2 (fun (xm, xi) (xo, hg) ->
            let tol = rel9 */ (qabs xi +/ amp */ (tau +/ qabs alpha) */ qdiv hg s) in
            let xm = q_of_e xm in
            if not (close xm xo tol) then
              report "ell-centre" idk (Printf.sprintf "i=%d model=%h impl=%h tol=%h alpha=%h" !i (float_of_q xm) (float_of_q xo) (float_of_q tol) (float_of_q alpha));
            incr i) (List.combine r.E.ex x) (List.combine x' hgabs);
          (* shape matrix *)
          let bad = ref false in
          List.iteri (fun i (rm, (ro, rh)) ->
            List.iteri (fun j (hm, (ho, hij)) ->
              let hm = q_of_e hm in
              let tol = rel9 */ amp */ cc */ (qabs hij +/ (sigma +/ q1) */ qdiv (List.nth hgabs i */ List.nth ghabs j) ghg) in
              if (not !bad) && not (close hm ho tol) then begin
                bad := true;
                report "ell-shape-matrix" idk (Printf.sprintf "i=%d j=%d model=%h impl=%h tol=%h alpha=%h n=%d" i j (float_of_q hm) (float_of_q ho) (float_of_q tol) (float_of_q alpha) n)
              end) (List.combine rm (List.combine ro rh))) (List.combine r.E.eH (List.combine h' h))
        end
      end
    end;
    (* ---- (b) the minimiser stays inside (model independent) ---- *)
    let w = Array.of_list (List.map2 (fun a b -> Q.sub (zq a) (zq b)) xs x') in
    incr ell_member;
    if Array.for_all (fun wi -> Q.sign wi = 0) w then ()   (* the centre is the minimiser *)
    else begin
      let hm = Array.of_list (List.map (fun row -> Array.of_list (List.map zq row)) h') in
      (* n = 1: the bisection branch keeps |x* - x| <= 2 H *)
      let hm = if n = 1 then [| [| Q.mul (Q.of_int 4) (Q.mul hm.(0).(0) hm.(0).(0)) |] |] else hm in
      match exact_form hm w with
      | None -> propfail "ellipsoid-shape-not-positive-definite" idk (Printf.sprintf "n=%d after the update of iteration %s" n k)
      | Some m ->
          let mf = Q.to_float m in
          if mf > !ell_worst then ell_worst := mf;
          if Q.gt m (Q.of_float (1.0 +. ell_tol)) then
            propfail "ellipsoid-minimiser-outside" idk
              (Printf.sprintf "n=%d (x*-x')'H'^-1(x*-x') = %.17g > 1 after the update of iteration %s: x*=%s x'=%s" n mf k
                 (List.nth parts 9) (List.nth parts 7))
    end
  end

(* ---- stage LOOP: the real csearch_t / proximity_t / nesterov objects of the mirrored RQB / FPBA loops -------------------------- *)
(* LI: one outer iteration.  (a) every pass of the curve search through the extracted [cs_pass] (bracket carried by the model, the
   trial t of the next pass predicted), (b) the whole call through [tape_search] (budget guard, assigned / stale status, calls),
   (c) the iteration through [tape_rqb_iter] / [tape_fpba_iter] (hand-over to done(), which value the state takes).
   A pass whose decisive comparison is within the rounding of its threshold makes the call ambiguous: counted, not compared. *)
let loop_calls = ref 0
let loop_passes = ref 0
let loop_iters = ref 0
let loop_amb = ref 0
let loop_stale = ref 0
let loop_long = ref 0
let loop_budget_exits = ref 0
let px_checked = ref 0
let px_amb = ref 0
let ns_checked = ref 0
let status_hist = Hashtbl.create 8
let zi n = B.big_int_of_int n
let iz z = B.int_of_big_int z
let rel15 = { qnum = B.unit_big_int; qden = B.big_int_of_string "1000000000000000" }
let rel12q = { qnum = B.unit_big_int; qden = B.big_int_of_string "1000000000000" }
let qf s = q_of_float (parse_float s)
let qmax a b = if qlt a b then b else a

type rpass = { rt : float; ans : cs_ans; fin : bool }
let parse_pass s =
  match String.split_on_char ',' s with
  | [t; fin; fx; fy; e; d; ec; sc; gd; sd] ->
      let fin = fin = "1" in
      let fyq = if fin then qf fy else qz in
      let g x = let v = parse_float x in if Float.is_finite v then q_of_float v else qz in
      { rt = parse_float t; fin;
        ans = { a_finite = fin; a_fx = qf fx; a_fy = fyq; a_e = g e; a_delta = g d; a_econv = (ec = "1"); a_sconv = (sc = "1");
                a_gdot = g gd; a_sdot = g sd } }
  | _ -> failwith "bad pass"

(* is the comparison  lhs >= rhs  (as exact rationals) within the rounding of the doubles that the code compares? *)
let near lhs rhs mag = qle (qabs (lhs -/ rhs)) (rel12q */ mag +/ tiny)

(* path-sensitive ambiguity of one pass *)
let pass_ambiguous (p : cs_params) (tl : q) (tr : q option) (a : cs_ans) : bool =
  if not a.a_finite then false
  else if a.a_econv && a.a_sconv then false
  else begin
    let d = a.a_delta in
    let amb1 = near (a.a_fx -/ a.a_fy) (p.p_m1 */ d) (qabs a.a_fx +/ qabs a.a_fy +/ qabs (p.p_m1 */ d)) in
    if amb1 then true
    else if cs_m1_test p a then begin
      let amb2 = near a.a_gdot (qopp p.p_m2 */ d) (qabs a.a_gdot +/ qabs (p.p_m2 */ d)) in
      if amb2 then true
      else if cs_m2_test p a then false
      else if tr <> None then false
      else if a.a_sconv then false
      else near a.a_sdot (qopp p.p_m4 */ d) (qabs a.a_sdot +/ qabs (p.p_m4 */ d))
    end else begin
      if qlt tl p.p_eps0 then near a.a_e (p.p_m3 */ d) (qabs a.a_e +/ qabs (p.p_m3 */ d)) else false
    end
  end

let handle_li id rest =
  let parts = List.map String.trim (String.split_on_char '|' rest) in
  let a = kvs (List.nth parts 0) in
  let solver = get a "solver" in
  let maxev = int_of_string (get a "maxev") and calls0 = int_of_string (get a "calls0") and cost = int_of_string (get a "cost") in
  let miu = qf (get a "miu") and stale = int_of_string (get a "stale") and sfx0 = qf (get a "sfx") in
  let p = { p_m1 = qf (get a "m1"); p_m2 = qf (get a "m2"); p_m3 = qf (get a "m3"); p_m4 = qf (get a "m4"); p_interpol = qf (get a "ip");
            p_extrapol = qf (get a "ep"); p_eps0 = qf (get a "eps0"); p_cost = zi cost } in
  let passes = List.map parse_pass (split ';' (List.nth parts 1)) in
  let b = kvs (List.nth parts 2) in
  let status = int_of_string (get b "status") and tret = parse_float (get b "t") and calls1 = int_of_string (get b "calls") in
  let valid = get b "valid" = "1" and ret = get b "ret" = "1" and sstatus = int_of_string (get b "sstatus") and just = get b "just" = "1" in
  let c = kvs (List.nth parts 3) in
  let calls2 = int_of_string (get c "calls") and sfx2 = qf (get c "sfx") and miu2 = qf (get c "miu") and moms = get c "mom" in
  let idk = id ^ " k=" ^ get a "k" in
  incr total; incr loop_calls;
  loop_passes := !loop_passes + List.length passes;
  (* ---- (a) pass by pass ---- *)
  let amb = ref false and bad = ref false in
  let tl = ref qz and tr = ref None and tpred = ref (Some q1) in
  let n = List.length passes in
  let assigned = ref None in
  List.iteri (fun i rp ->
    if (not !amb) && (not !bad) then begin
      let tq = q_of_float rp.rt in
      (match !tpred with
       | Some tm when not (close tm tq (rel12q */ qabs tm)) ->
           bad := true; report "loop-trial-t" idk (Printf.sprintf "pass=%d model t=%h impl t=%h tL=%h tR=%s" i (float_of_q tm) rp.rt (float_of_q !tl)
                                                     (match !tr with Some r -> Printf.sprintf "%h" (float_of_q r) | None -> "inf"))
       | _ -> ());
      if not !bad then begin
        if pass_ambiguous p !tl !tr rp.ans then amb := true
        else match cs_pass p tq !tl !tr rp.ans with
          | PRet (s, tl', tr') ->
              tl := tl'; tr := tr';
              if i <> n - 1 then (bad := true; report "loop-early-exit" idk (Printf.sprintf "pass=%d of %d: the model leaves the loop with status %d, the implementation evaluated again" i n (iz s)))
              else assigned := Some (iz s)
          | PCont (t', tl', tr') -> tl := tl'; tr := tr'; tpred := Some t'
      end
    end) passes;
  if !amb then (incr ambiguous; incr loop_amb)
  else if not !bad then begin
    (match !assigned with
     | Some s ->
         if s <> status then report "loop-status" idk (Printf.sprintf "model assigns %d, implementation returned %d" s status);
         if not just then report "loop-justified" idk "the harness' oracle says the status is not justified by the last pass, the model assigns it"
     | None ->
         (* no status assigned by the last pass: the loop guard must have ended the call, the status is the previous call's *)
         incr loop_budget_exits;
         if calls1 < maxev then report "loop-continues" idk (Printf.sprintf "the model goes on after pass %d (calls=%d < max_evals=%d), the implementation returned status %d" n calls1 maxev status)
         else begin
           if status <> iz src_c03_cs_st_init then
             report "loop-budget-exit-status" idk (Printf.sprintf "budget exit: returned %d, the reset value is %d (previous call's m_status %d)" status (iz src_c03_cs_st_init) stale);
           if just && n > 0 then report "loop-justified" idk "budget exit without assignment in the model, justified for the harness' oracle";
           (match !tpred with
            | Some tm when n > 0 && not (close tm (q_of_float tret) (rel12q */ qabs tm)) ->
                report "loop-trial-t" idk (Printf.sprintf "budget exit: model next t=%h impl m_t=%h" (float_of_q tm) tret)
            | _ -> ())
         end);
    (* ---- (b) the whole call on the tape of its answers (calls of more than 400 passes: pass by pass only -- the exact trial
       points of thousands of interpolations have numerators of 10^5 bits) ---- *)
    if n > 400 then incr loop_long else begin
    let tape0 = { tp_ans = List.map (fun rp -> rp.ans) passes; tp_mom = []; tp_miu = []; tp_short = false } in
    let r = tape_search p miu (zi maxev) (zi calls0) tape0 in
    let np = int_of_nat r.r_passes in
    if r.r_fuel_out then report "loop-fuel" idk "";
    if r.r_or.tp_short then report "loop-more-passes" idk (Printf.sprintf "the model evaluates more than the %d recorded passes" n)
    else begin
      if np <> n then report "loop-passes" idk (Printf.sprintf "model=%d impl=%d" np n);
      if iz r.r_calls <> calls1 then report "loop-calls" idk (Printf.sprintf "model=%d impl=%d" (iz r.r_calls) calls1);
      (match r.r_assigned with
       | Some s -> if iz s <> status then report "loop-search-status" idk (Printf.sprintf "model=%d impl=%d" (iz s) status)
       | None -> incr loop_stale; if status <> iz src_c03_cs_st_init then report "loop-search-unassigned" idk (Printf.sprintf "impl=%d reset value=%d previous=%d" status (iz src_c03_cs_st_init) stale))
    end;
    Hashtbl.replace status_hist status (1 + (try Hashtbl.find status_hist status with Not_found -> 0));
    (* ---- (c) the outer iteration ---- *)
    if valid then begin
      incr loop_iters;
      let mom = if moms = "-" then [] else (let v = parse_float moms in [if Float.is_finite v then Some (q_of_float v) else None]) in
      let tape1 = { tape0 with tp_mom = mom; tp_miu = [miu2] } in
      let s0 = { s_or = tape1; s_calls = zi calls0; s_fx = sfx0; s_miu = miu; s_mstatus = zi stale; s_mt = q1; s_mfy = Some qz } in
      let out = if solver = "rqb" then tape_rqb_iter p (zi maxev) s0 else tape_fpba_iter p (zi maxev) s0 in
      (match out with
       | IDone (s1, z) ->
           if not ret then report "iter-done" idk (Printf.sprintf "model: done() stops with %d, implementation goes on" (iz z))
           else if iz z <> sstatus then report "iter-solver-status" idk (Printf.sprintf "model=%d impl=%d" (iz z) sstatus);
           if not (qeq_bool s1.s_fx sfx2) then report "iter-state-value" idk "done() changed the state value"
       | INext (s', u) ->
           if ret then report "iter-done" idk (Printf.sprintf "model goes on, implementation: done() returned true (status %d)" sstatus)
           else begin
             if s'.s_or.tp_short then report "iter-tape" idk "the model reads a momentum value the implementation did not produce";
             if iz s'.s_calls <> calls2 then report "iter-calls" idk (Printf.sprintf "model=%d impl=%d" (iz s'.s_calls) calls2);
             if not (qeq_bool s'.s_fx sfx2) then
               report "iter-state-value" idk (Printf.sprintf "status=%d model=%h impl=%h (before %h)" status (float_of_q s'.s_fx) (float_of_q sfx2) (float_of_q sfx0));
             if not (qeq_bool s'.s_miu miu2) then report "iter-miu" idk (Printf.sprintf "status=%d: miu changed outside a descent step: %h -> %h" status (float_of_q miu) (float_of_q miu2));
             if u && just then report "iter-unvetted" idk "the model moves on a status not assigned in this call, the harness' oracle finds it justified"
           end)
    end
    end
  end

let vabs_sum l = List.fold_left (fun acc x -> acc +/ qabs x) qz l
let handle_px0 id rest =
  let parts = List.map String.trim (String.split_on_char '|' rest) in
  let a = kvs (List.nth parts 0) in
  let lo = qf (get a "lo") and hi = qf (get a "hi") and eps0 = qf (get a "eps0") in
  let gx = qs_of (List.nth parts 1) and fx = qf (List.nth parts 2) and m0 = qf (List.nth parts 3) in
  incr total; incr px_checked;
  let m = prox_miu0 eps0 lo hi gx fx in
  if not (close m m0 (rel9 */ qabs m)) then report "prox-miu0" id (Printf.sprintf "model=%h impl=%h" (float_of_q m) (float_of_q m0));
  if qlt m0 lo || qlt hi m0 then propfail "proximity-miu0-outside-range" id (Printf.sprintf "miu0=%h" (float_of_q m0))

let handle_px id rest =
  let parts = List.map String.trim (String.split_on_char '|' rest) in
  let a = kvs (List.nth parts 0) in
  let kind = int_of_string (get a "kind") and t = qf (get a "t") and miu = qf (get a "miu") and mdn = qf (get a "mdn") in
  let v i = qs_of (List.nth parts i) in
  let xn = v 1 and xn1 = v 2 and gn = v 3 and gn1 = v 4 and gN = v 5 and gN1 = v 6 in
  let m1 = qf (List.nth parts 7) in
  incr total;
  if not (qlt qz m1) then propfail "proximity-miu-not-positive" id (Printf.sprintf "miu'=%h" (float_of_q m1));
  let xi = vsub xn1 xn in
  (* conditioning of one candidate: cancellation in nu and in nu.u *)
  let cand nu numag =
    let u = vadd xi (vscale (qdiv t miu) nu) in
    let nuu = dot nu u in
    let mag = List.fold_left2 (fun acc (a, am) b -> acc +/ (qabs a +/ am) */ qabs b +/ am */ qabs (qdiv t miu) */ (qabs a +/ am)) qz (List.combine nu numag) u in
    (nuu, mag) in
  let nus =
    if kind = 1 then [ (vsub gn1 gn, List.map2 (fun a b -> qabs a +/ qabs b) gn1 gn) ]
    else List.concat_map (fun a1 -> List.map (fun a2 ->
           (prox_nu a1 a2 gn gn1 gN gN1,
            List.map2 (fun (a, b) (c, d) -> qabs a +/ qabs b +/ qabs c +/ qabs d) (List.combine gn1 gN1) (List.combine gn gN))) [qz; qdiv q1 (q_of_int 2); q1]) [qz; qdiv q1 (q_of_int 2); q1] in
  let ill = List.exists (fun (nu, numag) ->
    let (nuu, mag) = cand nu numag in
    (* the acceptance test nu.u > mdn within rounding, or a quotient that amplifies the rounding beyond 1e-6 *)
    near nuu mdn (mag */ q_of_int 1000) || (qlt mdn nuu && qlt (nuu */ q_of_int 1000000) (rel9 */ mag */ q_of_int 1000000000))) nus in
  if ill then (incr ambiguous; incr px_amb)
  else begin
    incr px_checked;
    let m = if kind = 1 then prox_update1 miu mdn t xn xn1 gn gn1 else prox_update2 miu mdn t xn xn1 gn gn1 gN gN1 in
    if not (close m m1 (rel6 */ qabs m)) then
      report "prox-update" id (Printf.sprintf "kind=%d model=%h impl=%h (before %h)" kind (float_of_q m) (float_of_q m1) (float_of_q miu))
  end

let handle_ns id rest =
  let parts = List.map String.trim (String.split_on_char '|' rest) in
  let a = kvs (List.nth parts 0) in
  let two = get a "seq" = "2" and lam = qf (get a "lambda") and r = qf (get a "r") and reset = get a "reset" = "1" in
  let z = qs_of (List.nth parts 1) and mx = qs_of (List.nth parts 2) and my = qs_of (List.nth parts 3) in
  let lam1 = qf (List.nth parts 4) and mx1 = qs_of (List.nth parts 5) and lam2 = qf (List.nth parts 6) in
  incr total; incr ns_checked;
  (* the witness: what the theorems assume of r (2 lambda <= r), and that it is the square root it stands for *)
  if not (qle (q_of_int 2 */ lam) r) then propfail "nesterov-witness" id (Printf.sprintf "2*lambda=%h > r=%h" (float_of_q (q_of_int 2 */ lam)) (float_of_q r));
  let rr = q1 +/ q_of_int 4 */ lam */ lam in
  if not (close (r */ r) rr (rel15 */ q_of_int 8 */ rr)) then report "nesterov-sqrt" id (Printf.sprintf "r=%h lambda=%h" (float_of_q r) (float_of_q lam));
  (* direct (model independent): lambda' >= 1, momentum coefficients in [0, 1) *)
  let al = qdiv (lam -/ q1) lam1 and be = if two then qdiv lam lam1 else qz in
  if qlt lam1 q1 || qlt al qz || qle q1 al || qlt be qz || qle q1 be then
    propfail "nesterov-coefficients" id (Printf.sprintf "lambda=%h lambda'=%h alpha=%h beta=%h" (float_of_q lam) (float_of_q lam1) (float_of_q al) (float_of_q be));
  let s1 = nest_update two r { n_lambda = lam; n_x = mx; n_y = my } z in
  if not (close s1.n_lambda lam1 (rel15 */ q_of_int 2 */ qabs lam1)) then report "nesterov-lambda" id (Printf.sprintf "model=%h impl=%h" (float_of_q s1.n_lambda) (float_of_q lam1));
  let i = ref 0 in
  List.iter2 (fun (xm, xo) (zj, (mxj, myj)) ->
    let tol = rel12q */ (qabs zj +/ qabs al */ (qabs zj +/ qabs myj) +/ qabs be */ (qabs zj +/ qabs mxj)) in
    if not (close xm xo tol) then report "nesterov-point" id (Printf.sprintf "i=%d model=%h impl=%h" !i (float_of_q xm) (float_of_q xo));
    incr i) (List.combine s1.n_x mx1) (List.combine z (List.combine mx my));
  if not (List.for_all2 qeq_bool s1.n_y z) then report "nesterov-y" id "";
  let s2 = if reset then nest_reset s1 else s1 in
  let want = if reset then s2.n_lambda else lam1 in
  if not (qeq_bool want lam2) then report "nesterov-reset" id (Printf.sprintf "reset=%b model=%h impl=%h" reset (float_of_q want) (float_of_q lam2))

(* ---- stage WHOLE: the composed model (C03_Whole_Defs.v) replays a complete mirrored RQB / FPBA run from the recorded oracle
   answers (QP multipliers of every solve, surviving rows of every append, every evaluation, the square-root witnesses).
   (a) ONE call of the extracted replay_rqb / replay_fpba must end with the same exit / solver status, number of outer iterations,
       evaluation count, state value, bundle size, the same centre, returned point and sequence of serious-step centres (rationals
       compared by Qeq = cross-multiplication), no rejected operation, capacity not reached.
   (b) the same run driven pass by pass with the extracted pieces (w_ask, cs_pass, w_serious, w_null, w_prox*, w_momentum, *_done): at every
       pass the model's decision is compared with the library's recorded one (cs_pass on the recorded operands).  A decision (econv,
       sconv, the m1..m4 tests, delete_inactive's alpha_i < eps0) is AMBIGUOUS only when its two sides differ by less than 1e-9 of the
       summed magnitudes of its terms; at an ambiguous decision the library's branch is followed (counted), a differing non-ambiguous
       decision is a MISMATCH.  (b) runs on every line: when (a) agrees it must agree too with no decision followed (self-check). *)
let whole_recorded = ref 0
let whole_runs = ref 0
let whole_followed = ref 0
let whole_forced = ref 0
let whole_miu_followed = ref 0
let whole_passes = ref 0
let whole_conv = ref 0
let whole_budget = ref 0
let whole_appends = ref 0
let whole_aggr = ref 0
let whole_cap = ref 100000
let parse_ev s = match String.split_on_char ':' s with
  | [y; g; f] -> { e_y = qs_of y; e_g = qs_of g; e_f = qf f }
  | _ -> failwith "bad evaluation"
let vec_eq a b = List.length a = List.length b && List.for_all2 (fun x y -> qeq_bool x y) a b
let near9 lhs rhs mag = qle (qabs (lhs -/ rhs)) (rel9 */ mag +/ tiny)
exception Div of string
let fq x = Printf.sprintf "%h" (float_of_q x)
let absdot a b = List.fold_left2 (fun acc x y -> acc +/ qabs (x */ y)) qz a b

type wend = { x_exit : string; x_iters : int; x_calls : int; x_sfx : q; x_w : wst }

exception W_timeout
let whole_expensive = ref 0
let whole_seconds = ref 8.0
let handle_w id rest =
  match String.split_on_char '|' rest with
  | [hd; x0; evs; qps; kps; sqs; fin; cen; sx; log; its] ->
      incr whole_recorded;
      if !whole_recorded <= !whole_cap then begin
      let h = kvs hd and f = kvs fin in
      let g k = get h k in
      let n = int_of_string (g "n") in
      let p = { p_m1 = qf (g "m1"); p_m2 = qf (g "m2"); p_m3 = qf (g "m3"); p_m4 = qf (g "m4"); p_interpol = qf (g "ip");
                p_extrapol = qf (g "ep"); p_eps0 = qf (g "eps0"); p_cost = zi (int_of_string (g "cost")) } in
      let evl = List.map parse_ev (split ';' evs) in
      (* e, delta and fx - fy are differences of function values and linearisations: their terms have the magnitude of the largest |f| evaluated in
         the run (magnitude history, as in the row oracle of the harness); the binary64 rounding of those terms enters every decision on them *)
      let scale = List.fold_left (fun acc (e : evald) -> qmax acc (qabs e.e_f)) qz evl in
      let near9 lhs rhs mag = qle (qabs (lhs -/ rhs)) (rel9 */ mag +/ rel12q */ scale +/ tiny) in
      let solve2_amb (b : bundle) (mt : q) : (bool * q * q) =
        match b.bcuts with
        | [c0; c1] ->
            let q00 = dot c0.cs c0.cs and q11 = dot c1.cs c1.cs and q01 = dot c0.cs c1.cs in
            let qq = q00 +/ q11 -/ q01 -/ q01 in
            let pp = q01 -/ q11 +/ mt */ c0.ce -/ mt */ c1.ce in
            let magq = q00 +/ q11 +/ qabs q01 +/ qabs q01 in
            let magp = qabs q01 +/ q11 +/ qabs (mt */ c0.ce) +/ qabs (mt */ c1.ce) +/ rel6 */ rel6 */ (q_of_int 1000000000) */ mt */ scale in
            let half = { qnum = B.unit_big_int; qden = B.big_int_of_int 2 } in
            (near9 qq qz magq || near9 pp qz magp || near9 (pp +/ qq) qz (magp +/ magq) || near9 (half */ qq +/ pp) qz (magp +/ magq), qq, pp)
        | _ -> (false, qz, qz) in
      let qpl = List.map qs_of (split ';' qps) in
      let kp_of s = let s = String.trim s in
        if s = "-" || s = "e" then [] else List.map (fun i -> nat_of_int (int_of_string i)) (String.split_on_char ',' s) in
      let kpl = List.map kp_of (split ';' kps) in
      let sql = List.map qf (split ',' sqs) in
      let solver = g "solver" in
      let is_rqb = solver = "rqb" in
      let eps0 = qf (g "eps0") and tol = qf (g "tol") and mdn = qf (g "mdn") and miu0 = qf (g "miu0") in
      let args_n = nat_of_int n and mx = zi (int_of_string (g "max")) and c0i = int_of_string (g "calls0") and mi = int_of_string (g "maxev") in
      let x0q = qs_of x0 in
      let fexit = get f "exit" and sst = int_of_string (get f "sstatus") in
      let want_exit = Printf.sprintf "%s/%d" fexit (if fexit = "done" then sst else 0) in
      let logl = List.map qs_of (split ';' log) in
      let compare_end (e : wend) =
        let w = e.x_w in
        let bad = ref [] in
        let chk what ok detail = if not ok then bad := (what, detail) :: !bad in
        chk "exit" (e.x_exit = want_exit) (Printf.sprintf "model %s implementation %s" e.x_exit want_exit);
        chk "iterations" (e.x_iters = int_of_string (get f "iters")) (Printf.sprintf "model %d implementation %s" e.x_iters (get f "iters"));
        chk "calls" (e.x_calls = int_of_string (get f "calls")) (Printf.sprintf "model %d implementation %s" e.x_calls (get f "calls"));
        chk "state-value" (qeq_bool e.x_sfx (qf (get f "sfx"))) (Printf.sprintf "model %s implementation %s" (fq e.x_sfx) (get f "sfx"));
        chk "bundle-size" (List.length w.w_b.bcuts = int_of_string (get f "size")) (Printf.sprintf "model %d implementation %s" (List.length w.w_b.bcuts) (get f "size"));
        chk "centre" (vec_eq w.w_b.bx (qs_of cen)) (Printf.sprintf "model %s implementation %s" (String.concat "," (List.map fq w.w_b.bx)) (String.trim cen));
        chk "returned-point" (vec_eq w.w_sx (qs_of sx)) (Printf.sprintf "model %s implementation %s" (String.concat "," (List.map fq w.w_sx)) (String.trim sx));
        chk "serious-centres" (List.length logl = List.length w.w_log && List.for_all2 vec_eq w.w_log logl)
          (Printf.sprintf "model %d serious steps, implementation %d (or a centre differs)" (List.length w.w_log) (List.length logl));
        chk "operation-rejected" (not w.w_rej) "the model rejected a bundle operation (append on multipliers not recomputed / QP answer of the wrong length)";
        chk "capacity-reached" (not w.w_over) "size() >= capacity() after an append";
        List.rev !bad in
      (* (a) one call of the composed model *)
      let r =
        if is_rqb then replay_rqb eps0 tol mdn qpl kpl evl args_n mx x0q miu0 (zi c0i) p (zi mi)
        else replay_fpba eps0 tol mdn (solver = "fpba2") qpl kpl evl sql args_n mx x0q miu0 (zi c0i) p (zi mi) in
      let mexit = match r.o_exit with EDone z -> Printf.sprintf "done/%d" (iz z) | EBudget -> "budget/0" | EFuel -> "fuel" in
      let bad1 = compare_end { x_exit = mexit; x_iters = int_of_nat r.o_iters; x_calls = iz r.o_final.s_calls; x_sfx = r.o_final.s_fx; x_w = r.o_final.s_or } in
      (* (b) pass by pass, following the library at ambiguous decisions *)
      let nth_or l k d = match List.nth_opt l (int_of_nat k) with Some x -> x | None -> d in
      let qpf k _ _ = nth_or qpl k [] and kpf k _ = nth_or kpl k [] and evf k _ = nth_or evl k { e_y = []; e_g = []; e_f = qz }
      and sqf k = nth_or sql k qz in
      let parse_it s = match String.split_on_char '@' s with
        | [st; miu; ps] -> (int_of_string (String.trim st), qf miu, if String.trim ps = "-" then [] else List.map parse_pass (String.split_on_char '/' (String.trim ps)))
        | _ -> failwith "bad iteration record" in
      let itl = List.map parse_it (split ';' its) in
      let cost = iz p.p_cost in
      let forced = ref 0 and miuf = ref 0 in
      let kind t o = match o with
        | PRet (s, _, _) -> Printf.sprintf "ret%d" (iz s)
        | PCont (_, tl', _) -> if qeq_bool tl' t then "cont-tL" else "cont-tR" in
      let follow () : wend =
        let rec outer w calls sfx miu itl iters =
          if calls >= mi then { x_exit = "budget/0"; x_iters = iters; x_calls = calls; x_sfx = sfx; x_w = w }
          else begin
            let (rst, rmiu, rpasses) = match itl with x :: _ -> x | [] -> raise (Div (Printf.sprintf "outer iteration %d: the implementation stopped before" iters)) in
            let last_mt = ref q1 in
            let rec search w calls t tl tr rp npass =
              if calls >= mi then begin
                if rp <> [] then raise (Div (Printf.sprintf "outer iteration %d: the budget ends the model's search after %d passes, the implementation made more" iters npass));
                (w, calls, t, None)
              end else begin
                let (w', a) = w_ask eps0 tol qpf evf w (qdiv miu t) in
                last_mt := qdiv miu t;
                incr whole_passes;
                let ra = match rp with r :: _ -> r.ans | [] -> raise (Div (Printf.sprintf "outer iteration %d: the model makes pass %d, the implementation returned after %d" iters (npass + 1) npass)) in
                let out_m = cs_pass p t tl tr a in
                let out_r = cs_pass p t tl tr ra in
                let out =
                  if kind t out_m = kind t out_r then out_m
                  else begin
                    (* which tests differ, and is each of them within 1e-9 of the summed magnitudes of its terms? *)
                    let b = w'.w_b in
                    let sv = smeared_s b.bn b.bcuts b.balpha in
                    let d = vsub w'.w_pt.e_y b.bx in
                    let dl = a.a_delta in
                    (* one or two rows: the multipliers are COMPUTED (closed form), in binary64 by the library and exactly by the model; when they differ by
                       at most 1e-6 (an ill-conditioned quotient -p/q: p = .. + miu/t (e0 - e1) with miu/t up to 1e10 near the minimiser) a stopping test that
                       gives the library's verdict on the model's rows with the LIBRARY's multipliers is ambiguous *)
                    let ral = match List.nth_opt qpl (int_of_nat w'.w_nqp - 1) with Some l -> l | None -> [] in
                    let al_close = List.length ral = List.length b.balpha && List.length ral <= 2 &&
                                   (List.for_all2 (fun m l -> close m l rel6) b.balpha ral ||
                                    (let (amb2, _, _) = solve2_amb b (qdiv miu t) in amb2)) in
                    let e_lib = if al_close then qle_bool (smeared_e b.bcuts ral) tol = ra.a_econv else false in
                    let s_lib = if al_close then (let sl = smeared_s b.bn b.bcuts ral in qle_bool (norm2 sl) (tol */ tol)) = ra.a_sconv else false in
                    let tests = [
                      ("econverged", a.a_econv, ra.a_econv, near9 a.a_e tol (qabs a.a_e +/ tol) || e_lib, Printf.sprintf "smeared_e %s vs tol %s" (fq a.a_e) (fq tol));
                      ("sconverged", a.a_sconv, ra.a_sconv, qle (qabs (norm2 sv -/ tol */ tol)) (rel9 */ (norm2 sv +/ tol */ tol) +/ tiny) || s_lib, Printf.sprintf "|s|^2 %s vs tol^2 %s" (fq (norm2 sv)) (fq (tol */ tol)));
                      ("m1", cs_m1_test p a, cs_m1_test p ra, near9 (a.a_fx -/ a.a_fy) (p.p_m1 */ dl) (qabs a.a_fx +/ qabs a.a_fy +/ qabs (p.p_m1 */ dl)),
                         Printf.sprintf "fx - fy %s vs m1 delta %s" (fq (a.a_fx -/ a.a_fy)) (fq (p.p_m1 */ dl)));
                      ("m2", cs_m2_test p a, cs_m2_test p ra, near9 a.a_gdot (qopp p.p_m2 */ dl) (absdot w'.w_pt.e_g d +/ qabs (p.p_m2 */ dl)),
                         Printf.sprintf "gy.(y-x) %s vs -m2 delta %s" (fq a.a_gdot) (fq (qopp p.p_m2 */ dl)));
                      ("m3", cs_m3_test p a, cs_m3_test p ra, near9 a.a_e (p.p_m3 */ dl) (qabs a.a_e +/ qabs (p.p_m3 */ dl)),
                         Printf.sprintf "e %s vs m3 delta %s" (fq a.a_e) (fq (p.p_m3 */ dl)));
                      ("m4", cs_m4_test p a, cs_m4_test p ra, near9 a.a_sdot (qopp p.p_m4 */ dl) (absdot sv d +/ qabs (p.p_m4 */ dl)),
                         Printf.sprintf "s.(y-x) %s vs -m4 delta %s" (fq a.a_sdot) (fq (qopp p.p_m4 */ dl))) ] in
                    (* the model's answer with the AMBIGUOUS differing tests set to the library's verdict *)
                    let pa = List.fold_left (fun (acc : cs_ans) (nm, m, l, nr, _) ->
                      if m = l || not nr then acc
                      else match nm with
                        | "econverged" -> { acc with a_econv = l }
                        | "sconverged" -> { acc with a_sconv = l }
                        | "m1" -> { acc with a_fy = (if l then acc.a_fx -/ p.p_m1 */ dl else acc.a_fx -/ p.p_m1 */ dl +/ q1) }
                        | "m2" -> { acc with a_gdot = (if l then qopp p.p_m2 */ dl else qopp p.p_m2 */ dl -/ q1) }
                        | "m3" -> { acc with a_e = (if l then p.p_m3 */ dl else p.p_m3 */ dl +/ q1) }
                        | _ -> { acc with a_sdot = (if l then qopp p.p_m4 */ dl else qopp p.p_m4 */ dl -/ q1) }) a tests in
                    let out_p = cs_pass p t tl tr pa in
                    if kind t out_p = kind t out_r then begin
                      forced := !forced + List.length (List.filter (fun (_, m, l, nr, _) -> m <> l && nr) tests); out_p
                    end else begin
                      let diff = List.filter (fun (_, m, l, nr, _) -> m <> l && not nr) tests in
                      let desc = match diff with
                        | (nm, m, l, _, dsc) :: _ -> Printf.sprintf "test %s: model %b, library %b (%s: not within 1e-9 of the summed magnitudes)" nm m l dsc
                        | [] -> "no single test differs" in
                      raise (Div (Printf.sprintf "outer iteration %d pass %d at t=%s: model %s, library %s; %s" iters (npass + 1) (fq t) (kind t out_m) (kind t out_r) desc))
                    end
                  end in
                match out with
                | PRet (st, _, _) ->
                    if List.length rp <> 1 then raise (Div (Printf.sprintf "outer iteration %d: the model returns after pass %d, the implementation made %d" iters (npass + 1) (npass + List.length rp)));
                    (w', calls + cost, t, Some (iz st))
                | PCont (t', tl', tr') -> search w' (calls + cost) t' tl' tr' (List.tl rp) (npass + 1)
              end in
            let (w1, calls1, t, asg) = search w calls q1 qz None rpasses 0 in
            let st = match asg with Some z -> z | None -> iz src_c03_cs_st_init in
            if st <> rst then raise (Div (Printf.sprintf "outer iteration %d: search returns status %d in the model, %d in the implementation" iters st rst));
            let fy = w1.w_pt.e_f in
            let stz = zi st in
            (* delete_inactive before the append: alpha_i < eps0 on the model's multipliers vs the library's *)
            let patch_alpha (w : wst) : wst =
              let ra = match List.nth_opt qpl (int_of_nat w.w_nqp - 1) with Some l -> l | None -> [] in
              let ma = w.w_b.balpha in
              if List.length ra <> List.length ma then w
              else if List.length ma = 2 && not (List.for_all2 (fun m l -> close m l rel9) ma ra) then begin
                (* bundle_t::solve, two rows: the closed form branches on q == 0 (b not finite), 0 <= b <= 1 and 0.5 q + p > 0 *)
                let (amb2, qq, pp) = solve2_amb w.w_b !last_mt in
                if amb2 then begin
                  incr forced; { w with w_b = { w.w_b with balpha = ra } }
                end else raise (Div (Printf.sprintf "outer iteration %d: the two-row closed form of solve() gives %s in the model, %s in the library (q = %s, p = %s: no branch of it is within 1e-9)"
                                       iters (String.concat "," (List.map fq ma)) (String.concat "," (List.map fq ra)) (fq qq) (fq pp)))
              end
              else begin
                let differs = List.exists2 (fun m l -> qlt m eps0 <> qlt l eps0) ma ra in
                if not differs then w
                else if List.for_all2 (fun m l -> qlt m eps0 = qlt l eps0 || near9 m eps0 q1) ma ra then begin
                  incr forced; { w with w_b = { w.w_b with balpha = ra } }
                end else raise (Div (Printf.sprintf "outer iteration %d: delete_inactive removes different rows (model multipliers %s, library %s)" iters
                                       (String.concat "," (List.map fq ma)) (String.concat "," (List.map fq ra))))
              end in
            let follow_miu m' =
              if close m' rmiu (rel6 */ qabs rmiu) then m' else begin incr miuf; rmiu end in
            let fin z = { x_exit = Printf.sprintf "done/%d" (iz z); x_iters = iters + 1; x_calls = calls1; x_sfx = sfx; x_w = w1 } in
            if is_rqb then begin
              match rqb_done stz true with
              | Some z -> fin z
              | None ->
                  if src_c03_rqb_is_descent stz then begin
                    let w1 = patch_alpha w1 in
                    let miu' = follow_miu (w_prox2 mdn w1 t miu) in
                    outer (w_serious eps0 kpf w1 fy) calls1 fy miu' (List.tl itl) (iters + 1)
                  end else if src_c03_rqb_is_cutting stz then
                    outer (w_serious eps0 kpf (patch_alpha w1) fy) calls1 fy miu (List.tl itl) (iters + 1)
                  else if src_c03_rqb_is_null stz then outer (w_null eps0 kpf (patch_alpha w1)) calls1 sfx miu (List.tl itl) (iters + 1)
                  else outer w1 calls1 sfx miu (List.tl itl) (iters + 1)
            end else begin
              match fpba_done stz true with
              | Some z -> fin z
              | None ->
                  if src_c03_fpba_is_descent stz || src_c03_fpba_is_cutting stz then begin
                    let w1 = patch_alpha w1 in
                    let miu' = if src_c03_fpba_is_descent stz then follow_miu (w_prox1 mdn w1 t miu) else miu in
                    let best1 = better sfx (Some fy) in
                    let (w2, mv) = w_momentum eps0 (solver = "fpba2") kpf evf sqf w1 best1 in
                    outer w2 (calls1 + cost) (better best1 mv) miu' (List.tl itl) (iters + 1)
                  end else if src_c03_fpba_is_null stz then outer (w_null eps0 kpf (patch_alpha w1)) calls1 sfx miu (List.tl itl) (iters + 1)
                  else outer w1 calls1 sfx miu (List.tl itl) (iters + 1)
            end
          end in
        let w0 = w_init evf args_n mx x0q in
        outer w0 c0i w0.w_pt.e_f miu0 itl 0 in
      incr total;
      let ctx = Printf.sprintf "solver=%s n=%d max=%s maxev=%s" solver n (g "max") (g "maxev") in
      let account (e : wend) =
        (match e.x_exit with "done/1" -> incr whole_conv | "budget/0" -> incr whole_budget | _ -> ());
        whole_appends := !whole_appends + int_of_nat e.x_w.w_nkp;
        whole_aggr := !whole_aggr + List.length (List.filter (fun k -> String.trim k <> "-") (split ';' kps)) in
      (match (try Ok (follow ()) with Div m -> Error m) with
       | Error m ->
           report "whole-decision" id (Printf.sprintf "%s :: %s%s" ctx m
             (match bad1 with (w, d) :: _ -> Printf.sprintf " :: one-call replay: %s (%s)" w d | [] -> " :: (the one-call replay agrees with the recorded end)"))
       | Ok e ->
           let bad2 = compare_end e in
           (match bad1, bad2 with
            | [], [] -> incr whole_runs; whole_forced := !whole_forced + !forced; whole_miu_followed := !whole_miu_followed + !miuf; account e
            | [], _ -> report "whole-follow-selfcheck" id (Printf.sprintf "%s :: the one-call replay agrees, the pass-by-pass replay does not (%d decisions followed): %s" ctx !forced
                                                            (String.concat "," (List.map fst bad2)))
            | _ :: _, [] when !forced > 0 || !miuf > 0 ->
                incr whole_followed; whole_forced := !whole_forced + !forced; whole_miu_followed := !whole_miu_followed + !miuf; account e
            | (w, d) :: _, _ ->
                let (w2, d2) = match bad2 with x :: _ -> x | [] -> (w, d) in
                report ("whole-" ^ w2) id (Printf.sprintf "%s :: %s (all: %s; every decision of the curve search agrees with the library or was followed at an ambiguous one: %d followed)" ctx d2
                                             (String.concat "," (List.map fst (if bad2 = [] then bad1 else bad2))) !forced)))
      end
  | _ -> failwith "bad W line"

let () =
  let nlines = ref 0 in
  (try
    while true do
      let line = input_line stdin in
      incr nlines;
      (try
        if String.length line > 2 && String.sub line 0 2 = "B " then begin
          let rest = String.sub line 2 (String.length line - 2) in
          let i = String.index rest ' ' in
          handle_bundle (String.sub rest 0 i) (String.sub rest (i + 1) (String.length rest - i - 1))
        end
        else if String.length line > 3 && String.sub line 0 3 = "E1 " then begin
          let rest = String.sub line 3 (String.length line - 3) in
          let i = String.index rest ' ' in
          handle_e1 (String.sub rest 0 i) (String.sub rest (i + 1) (String.length rest - i - 1))
        end
        else if String.length line > 4 && String.sub line 0 4 = "ELL " then begin
          let rest = String.sub line 4 (String.length line - 4) in
          let i = String.index rest ' ' in
          handle_ell (String.sub rest 0 i) (String.sub rest (i + 1) (String.length rest - i - 1))
        end
        else if String.length line > 3 && (String.sub line 0 3 = "LI " || String.sub line 0 3 = "PX " || String.sub line 0 3 = "NS ") then begin
          let rest = String.sub line 3 (String.length line - 3) in
          let i = String.index rest ' ' in
          let id = String.sub rest 0 i and r = String.sub rest (i + 1) (String.length rest - i - 1) in
          (match String.sub line 0 2 with "LI" -> handle_li id r | "PX" -> handle_px id r | _ -> handle_ns id r)
        end
        else if String.length line > 4 && String.sub line 0 4 = "PX0 " then begin
          let rest = String.sub line 4 (String.length line - 4) in
          let i = String.index rest ' ' in
          handle_px0 (String.sub rest 0 i) (String.sub rest (i + 1) (String.length rest - i - 1))
        end
        else if String.length line > 2 && String.sub line 0 2 = "W " then begin
          let rest = String.sub line 2 (String.length line - 2) in
          let i = String.index rest ' ' in
          (* exact rationals of a whole run with a large bundle can grow to millions of digits (one run of seed 3 took > 45
             minutes): every whole run gets a CPU budget; a run that exceeds it is counted (whole_skipped_expensive), not
             compared -- the per-pass LOOP stage and the per-operation session stage still cover its operations *)
          let wid = String.sub rest 0 i and wrest = String.sub rest (i + 1) (String.length rest - i - 1) in
          let old = Sys.signal Sys.sigalrm (Sys.Signal_handle (fun _ -> raise W_timeout)) in
          let stop () = ignore (Unix.setitimer Unix.ITIMER_REAL { Unix.it_interval = 0.0; it_value = 0.0 }); Sys.set_signal Sys.sigalrm old in
          ignore (Unix.setitimer Unix.ITIMER_REAL { Unix.it_interval = 0.0; it_value = !whole_seconds });
          (try handle_w wid wrest; stop () with W_timeout -> stop (); incr whole_expensive | e -> stop (); raise e)
        end
        else if String.length line > 2 && String.sub line 0 2 = "D " then begin
          match List.map int_of_string (List.filter (fun t -> t <> "") (String.split_on_char ' ' (String.sub line 2 (String.length line - 2)))) with
          | [iter_ok; conv; valid; ret; st] ->
              incr total;
              let m = done_status (iter_ok = 1) (valid = 1) (conv = 1) in
              let ok = match m with Some z -> ret = 1 && B.int_of_big_int z = st | None -> ret = 0 in
              if not ok then report "done" line ""
          | _ -> ()
        end
        else if String.length line > 3 && String.sub line 0 3 = "CS " then begin
          match List.filter (fun t -> t <> "") (String.split_on_char ' ' line) with
          | [_; which; st; iok; cv] ->
              incr total;
              let z = B.big_int_of_int (int_of_string st) in
              let mi, mc = if which = "rqb" then (src_c03_rqb_iter_ok z, src_c03_rqb_converged z) else (src_c03_fpba_iter_ok z, src_c03_fpba_converged z) in
              if mi <> (iok = "1") || mc <> (cv = "1") then report "csearch-status" line "";
              (* the curve search may hand `converged` to the solver only when the bundle's own two tests hold on the final
                 multipliers (the CONV line printed right before): that is the premise of the certificate theorems *)
              (match !last_conv with
               | Some (cid, both, amb) when mc && (not both) && (not amb) ->
                   report "csearch-converged-without-certificate" cid line
               | _ -> ())
          | _ -> ()
        end
      with
      | End_of_file -> raise End_of_file
      | ex -> report "driver-exception" (Printf.sprintf "line %d" !nlines) (Printexc.to_string ex ^ " :: " ^ (if String.length line > 160 then String.sub line 0 160 else line)))
    done
  with End_of_file -> ());
  Printf.printf "MODEL-DONE checked=%d mismatches=%d ambiguous_skipped=%d amb_solve2=%d amb_conv=%d amb_ell1=%d multistep_states=%d simplex_worst=%h sigma_worst=%h ellipsoid_steps_checked=%d ellipsoid_membership_checked=%d amb_elln=%d ellipsoid_membership_worst=%.17g propfails=%d loop_calls=%d loop_passes=%d loop_iters=%d loop_amb=%d loop_stale=%d loop_budget_exits=%d px_checked=%d px_amb=%d ns_checked=%d loop_long_calls_pass_only=%d whole_recorded=%d whole_runs=%d whole_followed=%d whole_decisions_followed=%d whole_miu_followed=%d whole_passes=%d whole_converged=%d whole_budget_exits=%d whole_appends=%d whole_aggregations=%d whole_skipped_expensive=%d multistep_stopped_at_ambiguous_decision=%d loop_status_hist=%s\n"
    !total !mism !ambiguous !amb_solve !amb_conv !amb_ell !multi_checked !simplex_worst !sigma_worst !ell_steps !ell_member !amb_elln !ell_worst !propfails
    !loop_calls !loop_passes !loop_iters !loop_amb !loop_stale !loop_budget_exits !px_checked !px_amb !ns_checked !loop_long !whole_recorded !whole_runs !whole_followed !whole_forced !whole_miu_followed !whole_passes !whole_conv !whole_budget !whole_appends !whole_aggr !whole_expensive !multi_stopped
    (String.concat "," (List.sort compare (Hashtbl.fold (fun k v acc -> Printf.sprintf "%d:%d" k v :: acc) status_hist [])))
