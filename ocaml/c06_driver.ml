(* C06 driver: recomputes the algebraic objects with the exact rational instance of the Coq model.

   stdin lines (from harness/c06_objects.cpp):
     SIZE kind req = size
     LV loss alpha | t,.. | o,.. = value | g,.. | error
     FN name n | x,.. = f | g,..
     CN kind n | params | x,.. = f | g,..
   Doubles arrive as C hex floats and are converted to Q exactly (a double is a dyadic rational); the model value is
   exact, the implementation's value must agree within 1e-9 * (magnitude of the terms).  0-1 errors are compared
   exactly.  Transcendental objects are not recomputed here (they go through the per-run interval lemmas); their
   0-1 error is, since the decision rule is algebraic. *)
let mism = ref 0
let total = ref 0
let skipped = ref 0
let report line what = incr mism; Printf.printf "MISMATCH %s // model: %s\n" line what

(* ---- exact conversion double -> Q ---- *)
let rec pow2 (k : int) : positive = if k <= 0 then XH else XO (pow2 (k - 1))
let q_of_float (f : float) : q =
  if f = 0.0 then { qnum = Z0; qden = XH }
  else begin
    let (m, e) = Float.frexp f in                       (* f = m * 2^e, 0.5 <= |m| < 1 *)
    let mi = Int64.to_int (Int64.of_float (Float.ldexp m 53)) in   (* exact: 53-bit integer *)
    let e = e - 53 in
    let zm = z_of_int mi in
    if e >= 0 then { qnum = (match zm with Z0 -> Z0 | Zpos p -> Zpos (Coq_Pos.mul p (pow2 e)) | Zneg p -> Zneg (Coq_Pos.mul p (pow2 e))); qden = XH }
    else qred { qnum = zm; qden = pow2 (- e) }
  end
let pf (s : string) : float = match trim s with "nan" -> Float.nan | "inf" -> Float.infinity | "-inf" -> Float.neg_infinity | t -> float_of_string t
let flist (s : string) : float list = List.map pf (List.filter (fun t -> trim t <> "") (split_on ',' s))
let qlist (s : string) : q list = List.map q_of_float (flist s)

(* approximate Q -> float, for the tolerance test and for messages *)
let rec nbits_pos (p : positive) : int = match p with XH -> 1 | XO q -> 1 + nbits_pos q | XI q -> 1 + nbits_pos q
let rec float_of_pos (p : positive) : float = match p with XH -> 1.0 | XO q -> 2.0 *. float_of_pos q | XI q -> 2.0 *. float_of_pos q +. 1.0
let float_of_zz (x : z) : float = match x with Z0 -> 0.0 | Zpos p -> float_of_pos p | Zneg p -> -. (float_of_pos p)
let float_of_q (x : q) : float =
  let x = qred x in
  let nb = (match x.qnum with Z0 -> 0 | Zpos p -> nbits_pos p | Zneg p -> nbits_pos p) and db = nbits_pos x.qden in
  if nb < 1000 && db < 1000 then float_of_zz x.qnum /. float_of_pos x.qden
  else begin
    (* drop low bits of both *)
    let rec shr p k = if k <= 0 then p else (match p with XH -> XH | XO q -> shr q (k - 1) | XI q -> shr q (k - 1)) in
    let k = (max nb db) - 900 in
    let n' = (match x.qnum with Z0 -> 0.0 | Zpos p -> float_of_pos (shr p k) | Zneg p -> -. float_of_pos (shr p k)) in
    n' /. float_of_pos (shr x.qden k)
  end
let hx (f : float) = Printf.sprintf "%h" f

let close (model : q) (impl : float) (scale : float) : bool =
  let m = float_of_q model in
  Float.is_finite impl && Float.abs (m -. impl) <= 1e-9 *. scale

let sum_abs l = List.fold_left (fun a v -> a +. Float.abs v) 0.0 l
let max_abs l = List.fold_left (fun a v -> Float.max a (Float.abs v)) 0.0 l

let check_vg line (mv : q) (mg : q list) (fv : float) (fg : float list) (xs : float list) =
  incr total;
  let gx = (try List.fold_left2 (fun a g x -> a +. Float.abs (g *. x)) 0.0 fg xs with _ -> 0.0) in
  let scale = 1.0 +. Float.abs fv +. gx +. sum_abs xs in
  if not (close mv fv scale) then report line ("value " ^ hx (float_of_q mv))
  else if List.length mg <> List.length fg then report line (Printf.sprintf "gradient has %d coefficients in the model" (List.length mg))
  else begin
    let gscale = 1.0 +. sum_abs fg +. Float.abs fv in
    let bad = ref (-1) in
    List.iteri (fun i (m, g) -> if !bad < 0 && not (close m g gscale) then bad := i) (List.combine mg fg);
    if !bad >= 0 then report line (Printf.sprintf "gradient[%d] %s" !bad (hx (float_of_q (List.nth mg !bad))))
  end

let eps_q = q_of_float epsilon_float
let one_q = q_of_float 1.0
let starts s p = String.length s >= String.length p && String.sub s 0 (String.length p) = p

let loss_kernel (base : string) (alpha : q) =
  match base with
  | "mse" -> Some (k_mse_v qops, k_mse_g qops)
  | "mae" -> Some (k_mae_v qops, k_mae_g qops)
  | "hinge" -> Some (k_hinge_v qops, k_hinge_g qops)
  | "squared-hinge" -> Some (k_sqhinge_v qops, k_sqhinge_g qops)
  | "pinball" -> Some (k_pinball_v qops alpha, k_pinball_g qops alpha)
  | _ -> None

let do_lv line rest =
  match split_str " = " rest with
  | [lhs; rhs] ->
    (match split_str " | " lhs, split_str " | " rhs with
     | [head; ts; os], [vs; gs; es] ->
       (match split_on ' ' (trim head) with
        | [id; alpha] ->
          let t = qlist ts and o = qlist os in
          let ft = flist ts and fo = flist os in
          let fv = pf vs and fg = flist gs and fe = pf es in
          let (prefix, base) = if starts id "s-" then ("s", String.sub id 2 (String.length id - 2))
                               else if starts id "m-" then ("m", String.sub id 2 (String.length id - 2)) else ("", id) in
          (* value and gradient *)
          (match loss_kernel base (q_of_float (pf alpha)) with
           | Some (kv, kg) ->
             let mv = loss_v qops kv t o and mg = loss_g kg t o in
             check_vg line mv mg fv fg (List.map2 (fun a b -> Float.abs a +. Float.abs b +. 1.0) ft fo);
             if base = "pinball" then (incr total; if not (close mv fe (1.0 +. Float.abs fe +. sum_abs ft +. sum_abs fo)) then report line "pinball error is its value")
           | None -> incr skipped);
          (* error *)
          if base <> "pinball" then begin
            incr total;
            match prefix with
            | "" -> let me = err_absdiff qops t o in
              if not (close me fe (1.0 +. sum_abs ft +. sum_abs fo)) then report line ("error " ^ hx (float_of_q me))
            | "m" -> let me = int_of_nat (err_count qops eps_q t o) in
              if float_of_int me <> fe then report line (Printf.sprintf "error %d" me)
            | _ -> let me = int_of_nat (err_sclass qops eps_q t o) in
              if float_of_int me <> fe then report line (Printf.sprintf "error %d" me)
          end
        | _ -> report line "bad LV head")
     | _ -> report line "bad LV line")
  | _ -> report line "bad LV line"

let fn_model (name : string) =
  match name with
  | "sphere" -> Some (sphere_v qops, sphere_g qops)
  | "axis-ellipsoid" -> Some (axis_v qops, axis_g qops)
  | "schumer-steiglitz" -> Some (schumer_v qops, schumer_g qops)
  | "chung-reynolds" -> Some (chung_v qops, chung_g qops)
  | "sargan" -> Some (sargan_v qops, sargan_g qops)
  | "zakharov" -> Some (zakharov_v qops, zakharov_g qops)
  | "qing" -> Some (qing_v qops, qing_g qops)
  | "styblinski-tang" -> Some (styblinski_v qops, styblinski_g qops)
  | "trid" -> Some (trid_v qops, trid_g qops)
  | "rosenbrock" -> Some (rosenbrock_v qops, rosenbrock_g qops)
  | "dixon-price" -> Some (dixon_v qops, dixon_g qops)
  | "chained_lq" -> Some (chained_lq_v qops, chained_lq_g qops)
  | "rotated-ellipsoid" -> Some (rotated_v qops, rotated_g qops)
  | "maxq" -> Some (maxq_v qops, maxq_g qops)
  | _ -> None

let do_fn line rest =
  match split_str " = " rest with
  | [lhs; rhs] ->
    (match split_str " | " lhs, split_str " | " rhs with
     | [head; xs], [vs; gs] ->
       (match split_on ' ' (trim head) with
        | [name; _n] ->
          (match fn_model name with
           | Some (fv, fg) -> let x = qlist xs in check_vg line (fv x) (fg x) (pf vs) (flist gs) (flist xs)
           | None -> incr skipped)
        | _ -> report line "bad FN head")
     | _ -> report line "bad FN line")
  | _ -> report line "bad FN line"

let do_cn line rest =
  match split_str " = " rest with
  | [lhs; rhs] ->
    (match split_str " | " lhs, split_str " | " rhs with
     | [head; params; xs], [vs; gs] ->
       (match split_on ' ' (trim head), split_on ';' (trim params) with
        | [kind; _n], [p1; p2] ->
          let x = qlist xs in
          let fvv = pf vs and fg = flist gs and fx = flist xs in
          let neg1 = q_of_float (-1.0) in
          (match kind with
           | "constant" | "maximum" ->
             let d = nat_of_int (int_of_string (trim p2)) in
             check_vg line (cons_coord_v qops one_q (q_of_float (pf p1)) d x) (cons_coord_g qops one_q d x) fvv fg (Float.abs (pf p1) :: fx)
           | "minimum" ->
             let d = nat_of_int (int_of_string (trim p2)) in
             check_vg line (cons_coord_v qops neg1 (q_of_float (pf p1)) d x) (cons_coord_g qops neg1 d x) fvv fg (Float.abs (pf p1) :: fx)
           | "ball-eq" | "ball-ineq" ->
             let o = qlist p1 and r = q_of_float (pf p2) in
             check_vg line (cons_ball_v qops o r x) (cons_ball_g qops o x) fvv fg (pf p2 *. pf p2 :: (flist p1 @ fx))
           | "linear-eq" | "linear-ineq" ->
             let q' = qlist p1 and r = q_of_float (pf p2) in
             check_vg line (cons_linear_v qops q' r x) (cons_linear_g q' x) fvv fg (pf p2 :: (flist p1 @ fx))
           | _ -> incr skipped)
        | _ -> incr skipped)
     | _ -> report line "bad CN line")
  | _ -> report line "bad CN line"

let do_size line rest =
  match split_str " = " rest with
  | [lhs; rhs] ->
    (match split_on ' ' (trim lhs) with
     | [kind; req] ->
       let got = int_of_string (trim rhs) in
       let chk m = incr total; if int_of_z m <> got then report line (string_of_int (int_of_z m)) in
       let has_plus = String.contains kind '+' in
       if kind = "fn:rosenbrock" then chk (size_rosenbrock (z_of_int (int_of_string req)))
       else if kind = "fn:powell" then chk (size_powell (z_of_int (int_of_string req)))
       else if starts kind "fn:" && has_plus then chk (size_enet (z_of_int (int_of_string req)))
       else if kind = "ml:linear" then (match split_on ',' req with [a; b] -> chk (size_linear (z_of_int (int_of_string a)) (z_of_int (int_of_string b))) | _ -> ())
       else if kind = "ml:surrogate-fit" then chk (size_surrogate_fit (z_of_int (int_of_string req)))
       else if kind = "prototypes" then (incr total; if got <> 48 then report line "48 registered prototypes")
       else if kind = "losses" then (incr total; if got <> 17 then report line "17 registered losses")
       else if starts kind "fn:" then (incr total; if got <> int_of_string req then report line req)
       else incr skipped
     | _ -> ())
  | _ -> ()

let () =
  (try
    while true do
      let line = input_line stdin in
      match String.index_opt line ' ' with
      | None -> ()
      | Some sp ->
        let op = String.sub line 0 sp in
        let rest = String.sub line (sp + 1) (String.length line - sp - 1) in
        (try
          (match op with
           | "LV" -> do_lv line rest
           | "FN" -> do_fn line rest
           | "CN" -> do_cn line rest
           | "SIZE" -> do_size line rest
           | _ -> ())
        with e -> report line ("driver exception " ^ Printexc.to_string e))
    done
  with End_of_file -> ());
  Printf.printf "MODEL-DONE checked=%d mismatches=%d skipped=%d\n" !total !mism !skipped
