(* C06 driver: recomputes the algebraic objects with the exact rational instance of the Coq model.

   stdin lines (from harness/c06_objects.cpp):
     SIZE kind req = size
     LV loss alpha | t,.. | o,.. = value | g,.. | error
     FN name n | x,.. = f | g,..
     CN kind n | params | x,.. = f | g,..
   Doubles arrive as C hex floats and are converted to Q exactly (a double is a dyadic rational); the model value is
   exact, the implementation's value must agree within 1e-9 * (magnitude of the terms).  0-1 errors are compared
   exactly.  Transcendental objects are not recomputed here (they go through the per-run interval lemmas); their
   0-1 error is, since the decision rule is algebraic. *)
let mism = ref 0
let total = ref 0
let skipped = ref 0
let report line what = incr mism; Printf.printf "MISMATCH %s // model: %s\n" line what

(* ---- exact conversion double -> Q ---- *)
let rec pow2 (k : int) : positive = if k <= 0 then XH else XO (pow2 (k - 1))
let q_of_float (f : float) : q =
  if f = 0.0 then { qnum = Z0; qden = XH }
  else begin
    let (m, e) = Float.frexp f in                       (* f = m * 2^e, 0.5 <= |m| < 1 *)
    let mi = Int64.to_int (Int64.of_float (Float.ldexp m 53)) in   (* exact: 53-bit integer *)
    let e = e - 53 in
    let zm = z_of_int mi in
    if e >= 0 then { qnum = (match zm with Z0 -> Z0 | Zpos p -> Zpos (Coq_Pos.mul p (pow2 e)) | Zneg p -> Zneg (Coq_Pos.mul p (pow2 e))); qden = XH }
    else qred { qnum = zm; qden = pow2 (- e) }
  end
let pf (s : string) : float = match trim s with "nan" -> Float.nan | "inf" -> Float.infinity | "-inf" -> Float.neg_infinity | t -> float_of_string t
let flist (s : string) : float list = List.map pf (List.filter (fun t -> trim t <> "") (split_on ',' s))
let qlist (s : string) : q list = List.map q_of_float (flist s)

(* approximate Q -> float, for the tolerance test and for messages *)
let rec nbits_pos (p : positive) : int = match p with XH -> 1 | XO q -> 1 + nbits_pos q | XI q -> 1 + nbits_pos q
let rec float_of_pos (p : positive) : float = match p with XH -> 1.0 | XO q -> 2.0 *. float_of_pos q | XI q -> 2.0 *. float_of_pos q +. 1.0
let float_of_zz (x : z) : float = match x with Z0 -> 0.0 | Zpos p -> float_of_pos p | Zneg p -> -. (float_of_pos p)
let float_of_q (x : q) : float =
  let x = qred x in
  let nb = (match x.qnum with Z0 -> 0 | Zpos p -> nbits_pos p | Zneg p -> nbits_pos p) and db = nbits_pos x.qden in
  if nb < 1000 && db < 1000 then float_of_zz x.qnum /. float_of_pos x.qden
  else begin
    (* drop low bits of both *)
    let rec shr p k = if k <= 0 then p else (match p with XH -> XH | XO q -> shr q (k - 1) | XI q -> shr q (k - 1)) in
    let k = (max nb db) - 900 in
    let n' = (match x.qnum with Z0 -> 0.0 | Zpos p -> float_of_pos (shr p k) | Zneg p -> -. float_of_pos (shr p k)) in
    n' /. float_of_pos (shr x.qden k)
  end
let hx (f : float) = Printf.sprintf "%h" f

let close (model : q) (impl : float) (scale : float) : bool =
  let m = float_of_q model in
  Float.is_finite impl && Float.abs (m -. impl) <= 1e-9 *. scale

let sum_abs l = List.fold_left (fun a v -> a +. Float.abs v) 0.0 l
let max_abs l = List.fold_left (fun a v -> Float.max a (Float.abs v)) 0.0 l

let check_vg line (mv : q) (mg : q list) (fv : float) (fg : float list) (xs : float list) =
  incr total;
  let gx = (try List.fold_left2 (fun a g x -> a +. Float.abs (g *. x)) 0.0 fg xs with _ -> 0.0) in
  let scale = 1.0 +. Float.abs fv +. gx +. sum_abs xs in
  if not (close mv fv scale) then report line ("value " ^ hx (float_of_q mv))
  else if List.length mg <> List.length fg then report line (Printf.sprintf "gradient has %d coefficients in the model" (List.length mg))
  else begin
    let gscale = 1.0 +. sum_abs fg +. Float.abs fv in
    let bad = ref (-1) in
    List.iteri (fun i (m, g) -> if !bad < 0 && not (close m g gscale) then bad := i) (List.combine mg fg);
    if !bad >= 0 then report line (Printf.sprintf "gradient[%d] %s" !bad (hx (float_of_q (List.nth mg !bad))))
  end

let eps_q = q_of_float epsilon_float
let one_q = q_of_float 1.0
let starts s p = String.length s >= String.length p && String.sub s 0 (String.length p) = p

let loss_kernel (base : string) (alpha : q) =
  match base with
  | "mse" -> Some (k_mse_v qops, k_mse_g qops)
  | "mae" -> Some (k_mae_v qops, k_mae_g qops)
  | "hinge" -> Some (k_hinge_v qops, k_hinge_g qops)
  | "squared-hinge" -> Some (k_sqhinge_v qops, k_sqhinge_g qops)
  | "pinball" -> Some (k_pinball_v qops alpha, k_pinball_g qops alpha)
  | _ -> None

let do_lv line rest =
  match split_str " = " rest with
  | [lhs; rhs] ->
    (match split_str " | " lhs, split_str " | " rhs with
     | [head; ts; os], [vs; gs; es] ->
       (match split_on ' ' (trim head) with
        | [id; alpha] ->
          let t = qlist ts and o = qlist os in
          let ft = flist ts and fo = flist os in
          let fv = pf vs and fg = flist gs and fe = pf es in
          let (prefix, base) = if starts id "s-" then ("s", String.sub id 2 (String.length id - 2))
                               else if starts id "m-" then ("m", String.sub id 2 (String.length id - 2)) else ("", id) in
          (* value and gradient *)
          (match loss_kernel base (q_of_float (pf alpha)) with
           | Some (kv, kg) ->
             let mv = loss_v qops kv t o and mg = loss_g kg t o in
             check_vg line mv mg fv fg (List.map2 (fun a b -> Float.abs a +. Float.abs b +. 1.0) ft fo);
             if base = "pinball" then (incr total; if not (close mv fe (1.0 +. Float.abs fe +. sum_abs ft +. sum_abs fo)) then report line "pinball error is its value")
           | None -> incr skipped);
          (* error *)
          if base <> "pinball" then begin
            incr total;
            match prefix with
            | "" -> let me = err_absdiff qops t o in
              if not (close me fe (1.0 +. sum_abs ft +. sum_abs fo)) then report line ("error " ^ hx (float_of_q me))
            | "m" -> let me = int_of_nat (err_count qops eps_q t o) in
              if float_of_int me <> fe then report line (Printf.sprintf "error %d" me)
            | _ -> let me = int_of_nat (err_sclass qops eps_q t o) in
              if float_of_int me <> fe then report line (Printf.sprintf "error %d" me)
          end
        | _ -> report line "bad LV head")
     | _ -> report line "bad LV line")
  | _ -> report line "bad LV line"

(* ------------------------------------------------------------------------------------------------------------------ *)
(* extension stage (C06_Convex2_Defs): QF CQ KK LM GB GS lines and FN trid / rotated / maxq / maxhilb                    *)
(* ------------------------------------------------------------------------------------------------------------------ *)
let ext_total = ref 0
let rows_f (s : string) : float list list = List.map flist (List.filter (fun t -> trim t <> "") (split_on ';' s))
let rows_q (s : string) : q list list = List.map (List.map q_of_float) (rows_f s)
let parts line rest k =
  match split_str " = " rest with
  | [lhs; rhs] -> (match split_str " | " lhs, split_str " | " rhs with
                   | l, [vs; gs] -> k l (pf vs) (flist gs)
                   | _ -> report line "bad line")
  | _ -> report line "bad line"
let all_abs (ll : float list list) = List.concat (List.map (List.map Float.abs) ll)
let check_ext line mv mg fv fg extra = incr ext_total; check_vg line mv mg fv fg extra

let q_sub a b = qminus a b
let q_abs_f (x : q) = Float.abs (float_of_q x)

let do_qf line rest =
  parts line rest (fun l fv fg ->
    match l with
    | [_n; a; b; aobs; xs] ->
      let a' = qlist a and bq = rows_q b and ao = rows_q aobs and x = qlist xs in
      let am = gram1 qops bq in
      (* the matrix the constructor built (read off the gradient of the library) is I + B B' *)
      incr ext_total;
      let worst = ref 0.0 in
      List.iter2 (fun r1 r2 -> List.iter2 (fun u v -> worst := Float.max !worst (q_abs_f (q_sub u v))) r1 r2) am ao;
      if !worst > 1e-9 *. (1.0 +. max_abs (List.concat (rows_f aobs))) then report line (Printf.sprintf "observed matrix differs from I + B B' by %h" !worst);
      (* symmetric up to rounding: hypothesis of the expansion theorem *)
      let n = List.length ao in
      let asym = ref 0.0 in
      List.iteri (fun i r -> List.iteri (fun j v -> if j < n then asym := Float.max !asym (q_abs_f (q_sub v (List.nth (List.nth ao j) i)))) r) ao;
      incr ext_total;
      if !asym > 1e-12 *. (1.0 +. max_abs (List.concat (rows_f aobs))) then report line (Printf.sprintf "observed matrix is not symmetric (%h)" !asym);
      check_ext line (quad_v qops a' am x) (quad_g qops a' am x) fv fg (flist xs @ flist a @ all_abs (rows_f aobs))
    | _ -> report line "bad QF line")

let do_cq line rest =
  parts line rest (fun l fv fg ->
    match l with
    | [_h; p; q'; r; xs] ->
      let pq = rows_q p and qq = qlist q' and x = qlist xs in
      check_ext line (cq_v qops pq qq (q_of_float (pf r)) x) (cq_g qops pq qq x) fv fg (flist xs @ flist q' @ [pf r] @ all_abs (rows_f p))
    | _ -> report line "bad CQ line")

let do_kk line rest =
  parts line rest (fun l fv fg ->
    match l with
    | [_n; k; off; xs] ->
      let kq = rows_q k and x = qlist xs in
      check_ext line (kinks_v qops kq (q_of_float (pf off)) x) (kinks_g qops kq x) fv fg (flist xs @ [pf off] @ all_abs (rows_f k))
    | _ -> report line "bad KK line")

let ext_kernel (id : string) =
  let base = if starts id "s-" || starts id "m-" then String.sub id 2 (String.length id - 2) else id in
  match base with
  | "pinball" -> Some (k_pinball_v qops (q_of_float 0.5), k_pinball_g qops (q_of_float 0.5))
  | _ -> loss_kernel base (q_of_float 0.5)

let lm_like line kv kg data l1 l2 cw x fv fg extra =
  let lf = loss_v qops kv and gf = loss_g kg in
  check_ext line (lin_v qops lf data l1 l2 cw x) (lin_g qops gf data l1 l2 cw x) fv fg extra

let zero_q = q_of_float 0.0
let do_lm line rest =
  parts line rest (fun l fv fg ->
    match l with
    | [head; ins; tgs; xs] ->
      (match split_on ' ' (trim head) with
       | [id; l1; l2; isz; tsz] ->
         (match ext_kernel id with
          | None -> incr skipped
          | Some (kv, kg) ->
            let isize = int_of_string isz and tsize = int_of_string tsz in
            let inputs = rows_q ins and targets = rows_q tgs and x = qlist xs in
            let data = List.map2 (fun u t -> ((t, design qops (nat_of_int isize) (nat_of_int tsize) u), List.map (fun _ -> zero_q) t)) inputs targets in
            let cw = lin_cw qops (nat_of_int isize) (nat_of_int tsize) in
            lm_like line kv kg data (q_of_float (pf l1)) (q_of_float (pf l2)) cw x fv fg
              (flist xs @ [Float.abs (pf l1); Float.abs (pf l2)] @ all_abs (rows_f ins) @ all_abs (rows_f tgs)))
       | _ -> report line "bad LM head")
    | _ -> report line "bad LM line")

let do_en line rest =
  parts line rest (fun l fv fg ->
    match l with
    | [head; ins; tgs; bias; xs] ->
      (match split_on ' ' (trim head) with
       | [id; a1; a2; _n] ->
         (match ext_kernel id with
          | None -> incr skipped
          | Some (kv, kg) ->
            let inputs = rows_q ins and targets = rows_q tgs and x = qlist xs and b = qlist bias in
            let data = List.map2 (fun u t -> ((t, [u]), b)) inputs targets in
            check_ext line (enet_v qops (loss_v qops kv) data (q_of_float (pf a1)) (q_of_float (pf a2)) x)
                           (enet_g qops (loss_g kg) data (q_of_float (pf a1)) (q_of_float (pf a2)) x) fv fg
              (flist xs @ List.map (fun v -> Float.abs (pf a1 *. v) +. Float.abs (pf a2 *. v *. v)) (flist xs) @ all_abs (rows_f tgs) @ flist bias))
       | _ -> report line "bad EN head")
    | _ -> report line "bad EN line")

let do_gb line rest =
  parts line rest (fun l fv fg ->
    match l with
    | [head; tgs; xs] ->
      (match split_on ' ' (trim head) with
       | [id; tsz] ->
         (match ext_kernel id with
          | None -> incr skipped
          | Some (kv, kg) ->
            let tsize = int_of_string tsz in
            let targets = rows_q tgs and x = qlist xs in
            let data = List.map (fun t -> ((t, identity qops (nat_of_int tsize)), List.map (fun _ -> zero_q) t)) targets in
            let cw = List.map (fun _ -> zero_q) x in
            lm_like line kv kg data zero_q zero_q cw x fv fg (flist xs @ all_abs (rows_f tgs)))
       | _ -> report line "bad GB head")
    | _ -> report line "bad GB line")

let do_gs line rest =
  parts line rest (fun l fv fg ->
    match l with
    | [head; grp; so; wo; tgs; xs] ->
      (match split_on ' ' (trim head) with
       | [id; _tsz; groups] ->
         (match ext_kernel id with
          | None -> incr skipped
          | Some (kv, kg) ->
            let ng = int_of_string groups in
            let targets = rows_q tgs and x = qlist xs and sos = rows_q so and wos = rows_q wo in
            let gl = List.map int_of_float (flist grp) in
            (* output_k = so_k + x[group] * wo_k: row k of M has wo_k in column `group` (no column when the sample is not clustered) *)
            let mk g w = List.map (fun wk -> List.init ng (fun j -> if j = g then wk else zero_q)) w in
            let rec zip4 a b c d = match a, b, c, d with
              | t :: a', g :: b', s0 :: c', w :: d' -> ((t, mk g w), s0) :: zip4 a' b' c' d'
              | _ -> [] in
            let data = zip4 targets gl sos wos in
            let cw = List.map (fun _ -> zero_q) x in
            lm_like line kv kg data zero_q zero_q cw x fv fg (flist xs @ all_abs (rows_f tgs) @ all_abs (rows_f so) @ all_abs (rows_f wo)))
       | _ -> report line "bad GS head")
    | _ -> report line "bad GS line")

(* maxhilb: exact rational weights 1/(i+j+1) against the rounded doubles of the library. On a (near) tie of two |rows . x| or when the
   selected row . x is 0 the library may legitimately return another active piece / the other sign: accept any row whose value is
   within 1e-9 of the maximum, with either sign when its dot product vanishes *)
let do_maxhilb line n xs fv fg =
  incr ext_total;
  let x = qlist xs in
  let h = hilbert qops (nat_of_int n) in
  let mv' = maxhilb_v qops x and mg = maxhilb_g qops x in
  let fx = flist xs in
  let scale = 1.0 +. Float.abs fv +. sum_abs fx in
  if not (close mv' fv scale) then report line ("value " ^ hx (float_of_q mv'))
  else begin
    let ok_vec (g : q list) = List.length g = List.length fg && List.for_all2 (fun m v -> close m v (1.0 +. sum_abs fg)) g fg in
    if not (ok_vec mg) then begin
      let alt = List.exists (fun row ->
        let d = dot qops row x in
        let near = Float.abs (Float.abs (float_of_q d) -. fv) <= 1e-9 *. scale in
        near && (ok_vec row || ok_vec (List.map (fun v -> qopp v) row)) &&
        (Float.abs (float_of_q d) <= 1e-9 *. scale || ok_vec (if float_of_q d < 0.0 then List.map (fun v -> qopp v) row else row))) h in
      if not alt then report line "gradient is not +-(an active row of the Hilbert matrix)"
    end
  end

(* ------------------------------------------------------------------------------------------------------------------ *)
(* second extension stage `rest` (C06_Rest_Defs): FX SG SF GG MQ lines                                                   *)
(* ------------------------------------------------------------------------------------------------------------------ *)
let rest_total = ref 0
let q_zero_fun (_ : q list) (_ : q list) : q = zero_q
let q_is_zero (x : q) = (match (qred x).qnum with Z0 -> true | _ -> false)
let q_sum l = List.fold_left qplus zero_q l
let fx_model (name : string) =
  match name with
  | "schumer-steiglitz" -> Some (schumer_v qops, schumer_g qops, schumer_r2 qops, schumer_r3 qops, schumer_r4 qops)
  | "styblinski-tang" -> Some (styblinski_v qops, styblinski_g qops, styblinski_r2 qops, schumer_r3 qops, schumer_r4 qops)
  | "qing" -> Some (qing_v qops, qing_g qops, qing_r2 qops, schumer_r3 qops, schumer_r4 qops)
  | "axis-ellipsoid" -> Some (axis_v qops, axis_g qops, axis_r2 qops, q_zero_fun, q_zero_fun)
  | "chung-reynolds" -> Some (chung_v qops, chung_g qops, chung_r2 qops, chung_r3 qops, chung_r4 qops)
  | "sargan" -> Some (sargan_v qops, sargan_g qops, sargan_r2 qops, sargan_r3 qops, sargan_r4 qops)
  | "zakharov" -> Some (zakharov_v qops, zakharov_g qops, zakharov_r2 qops, zakharov_r3 qops, zakharov_r4 qops)
  | "rosenbrock" -> Some (rosenbrock_v qops, rosenbrock_g qops, rosenbrock_r2 qops, rosenbrock_r3 qops, rosenbrock_r4 qops)
  | "dixon-price" -> Some (dixon_v qops, dixon_g qops, dixon_r2 qops, dixon_r3 qops, dixon_r4 qops)
  | "powell" -> Some (powell_v qops, powell_g qops, powell_r2 qops, powell_r3 qops, powell_r4 qops)
  | _ -> None

(* f(x), g(x) against the model; f(x + d) against the model; the remainder f(x+d) - f(x) - g.d of the IMPLEMENTATION (computed exactly from
   its doubles) against the remainder polynomial of the theorem; and the theorem's identity inside the exact model (Qeq) *)
let check_expansion line (fm : q list -> q) (gm : q list -> q list) (rem : q) xs ds fv fg fz =
  incr rest_total;
  let x = qlist xs and d = qlist ds in
  let z = along qops x one_q d in
  let fxs = flist xs and fds = flist ds in
  check_vg line (fm x) (gm x) fv fg (fxs @ fds);
  let gd = (try List.fold_left2 (fun a g e -> a +. Float.abs (g *. e)) 0.0 fg fds with _ -> 0.0) in
  let scale = 1.0 +. Float.abs fz +. Float.abs fv +. gd in
  if not (close (fm z) fz scale) then report line ("f(x+d) " ^ hx (float_of_q (fm z)))
  else if List.length fg = List.length d then begin
    let lhs = qminus (qminus (q_of_float fz) (q_of_float fv)) (q_sum (List.map2 (fun g e -> qmult (q_of_float g) e) fg d)) in
    if Float.abs (float_of_q (qminus lhs rem)) > 1e-9 *. scale then
      report line (Printf.sprintf "remainder f(x+d)-f(x)-g.d: implementation %s, polynomial of the theorem %s" (hx (float_of_q lhs)) (hx (float_of_q rem)));
    (* the theorem inside the model: exact *)
    let mlhs = qminus (qminus (fm z) (fm x)) (dot qops (gm x) d) in
    if not (q_is_zero (qminus mlhs rem)) then report line "PROPFAIL: the exact model violates its own Taylor identity"
  end

let parts3 line rest k =
  match split_str " = " rest with
  | [lhs; rhs] -> (match split_str " | " lhs, split_str " | " rhs with
                   | l, [vs; gs; fzs] -> k l (pf vs) (flist gs) (pf fzs)
                   | _ -> report line "bad line")
  | _ -> report line "bad line"

let do_fx line rest =
  parts3 line rest (fun l fv fg fz ->
    match l with
    | [head; xs; ds] ->
      (match split_on ' ' (trim head) with
       | [name; _n] ->
         (match fx_model name with
          | Some (fm, gm, r2, r3, r4) ->
            let x = qlist xs and d = qlist ds in
            check_expansion line fm gm (rem_poly qops one_q (r2 x d) (r3 x d) (r4 x d)) xs ds fv fg fz
          | None -> incr skipped)
       | _ -> report line "bad FX head")
    | _ -> report line "bad FX line")

let do_sg line rest =
  parts3 line rest (fun l fv fg fz ->
    match l with
    | [_n; ms; xs; ds] ->
      let m = qlist ms in
      check_expansion line (sur_v qops m) (sur_g qops m) (sur_q qops m (qlist ds)) xs ds fv fg fz
    | _ -> report line "bad SG line")

let do_sf line rest =
  parts line rest (fun l fv fg ->
    match l with
    | [head; ps; ys; xs] ->
      (match split_on ' ' (trim head) with
       | [id; _np] ->
         (match ext_kernel id with
          | None -> incr skipped
          | Some (kv, kg) ->
            incr rest_total;
            let data = fit_data qops (rows_q ps) (qlist ys) and x = qlist xs in
            check_vg line (fit_v qops (loss_v qops kv) data x) (fit_g qops (loss_g kg) data x) fv fg
              (flist xs @ flist ys @ all_abs (rows_f ps) @ List.map (fun _ -> 4.0) (flist ys)))
       | _ -> report line "bad SF head")
    | _ -> report line "bad SF line")

let do_gg line rest =
  parts line rest (fun l fv fg ->
    match l with
    | [head; tgs; xs] ->
      (match split_on ' ' (trim head) with
       | [id; tsz] ->
         (match ext_kernel id with
          | None -> incr skipped
          | Some (kv, kg) ->
            incr rest_total;
            let ts = rows_q tgs and x = qlist xs and k = nat_of_int (int_of_string tsz) in
            check_vg line (grads_v qops (loss_v qops kv) ts k x) (grads_g qops (loss_g kg) ts k x) fv fg (flist xs @ all_abs (rows_f tgs)))
       | _ -> report line "bad GG head")
    | _ -> report line "bad GG line")

(* maxquad: the model PLACES the entries (mirrored off-diagonal, diagonal = own term + sum of |off-diagonal| of the row); on a near tie of two
   pieces the library may legitimately select another piece: accept the gradient of any piece whose value is within 1e-9 of the maximum *)
let do_mq line rest =
  parts line rest (fun l fv fg ->
    match l with
    | [head; es; dgs; bs; xs] ->
      (match split_on ' ' (trim head) with
       | [ns; _kd] ->
         incr rest_total;
         let n = int_of_string ns in
         let x = qlist xs in
         let el = List.map rows_q (split_on '/' es) and dl = List.map qlist (split_on '/' dgs) and bl = List.map qlist (split_on '/' bs) in
         let rec zip3 a b c = match a, b, c with u :: a', v :: b', w :: c' -> (u, v, w) :: zip3 a' b' c' | _ -> [] in
         let pieces = List.map (fun (e, dg, b) ->
           (mqf_matrix qops (fun i j -> List.nth (List.nth e (int_of_nat i)) (int_of_nat j)) (fun i -> List.nth dg (int_of_nat i)) (nat_of_int n), b)) (zip3 el dl bl) in
         let mv' = maxquad_v qops pieces x and mg = maxquad_g qops pieces x in
         let fx = flist xs in
         let mags = List.concat (List.map (fun (a, b) -> List.map float_of_q b @ List.concat (List.map (List.map float_of_q) a)) pieces) in
         let scale = 1.0 +. Float.abs fv +. (sum_abs fx) *. (1.0 +. sum_abs fx) *. (1.0 +. max_abs mags) in
         if not (close mv' fv scale) then report line ("value " ^ hx (float_of_q mv'))
         else begin
           let gscale = 1.0 +. sum_abs fg +. (1.0 +. sum_abs fx) *. (1.0 +. max_abs mags) in
           let ok_vec (g : q list) = List.length g = List.length fg && List.for_all2 (fun m v -> close m v gscale) g fg in
           if not (ok_vec mg) then begin
             let alt = List.exists (fun p -> Float.abs (float_of_q (mq_piece qops p x) -. fv) <= 1e-9 *. scale && ok_vec (mq_grad qops p x)) pieces in
             if not alt then report line "gradient is not 2 A_k x - b_k of a (nearly) maximal piece"
           end
         end
       | _ -> report line "bad MQ head")
    | _ -> report line "bad MQ line")

let fn_ext (name : string) =
  match name with
  | "trid" -> Some (trid_v qops, trid_g qops)
  | "rotated-ellipsoid" -> Some (rotated_v qops, rotated_g qops)
  | "maxq" -> Some (maxq_v qops, maxq_g qops)
  | _ -> None

let fn_model (name : string) =
  match name with
  | "sphere" -> Some (sphere_v qops, sphere_g qops)
  | "axis-ellipsoid" -> Some (axis_v qops, axis_g qops)
  | "schumer-steiglitz" -> Some (schumer_v qops, schumer_g qops)
  | "chung-reynolds" -> Some (chung_v qops, chung_g qops)
  | "sargan" -> Some (sargan_v qops, sargan_g qops)
  | "zakharov" -> Some (zakharov_v qops, zakharov_g qops)
  | "qing" -> Some (qing_v qops, qing_g qops)
  | "styblinski-tang" -> Some (styblinski_v qops, styblinski_g qops)
  | "trid" -> Some (trid_v qops, trid_g qops)
  | "rosenbrock" -> Some (rosenbrock_v qops, rosenbrock_g qops)
  | "dixon-price" -> Some (dixon_v qops, dixon_g qops)
  | "chained_lq" -> Some (chained_lq_v qops, chained_lq_g qops)
  | "rotated-ellipsoid" -> Some (rotated_v qops, rotated_g qops)
  | "maxq" -> Some (maxq_v qops, maxq_g qops)
  | "powell" -> Some (powell_v qops, powell_g qops)
  | _ -> None

let do_fn line rest =
  match split_str " = " rest with
  | [lhs; rhs] ->
    (match split_str " | " lhs, split_str " | " rhs with
     | [head; xs], [vs; gs] ->
       (match split_on ' ' (trim head) with
        | ["maxhilb"; n] -> do_maxhilb line (int_of_string n) xs (pf vs) (flist gs)
        | [name; _n] ->
          (match fn_model name with
           | Some (fv, fg) -> let x = qlist xs in check_vg line (fv x) (fg x) (pf vs) (flist gs) (flist xs)
           | None -> incr skipped)
        | _ -> report line "bad FN head")
     | _ -> report line "bad FN line")
  | _ -> report line "bad FN line"

let do_cn line rest =
  match split_str " = " rest with
  | [lhs; rhs] ->
    (match split_str " | " lhs, split_str " | " rhs with
     | [head; params; xs], [vs; gs] ->
       (match split_on ' ' (trim head), split_on ';' (trim params) with
        | [kind; _n], [p1; p2] ->
          let x = qlist xs in
          let fvv = pf vs and fg = flist gs and fx = flist xs in
          let neg1 = q_of_float (-1.0) in
          (match kind with
           | "constant" | "maximum" ->
             let d = nat_of_int (int_of_string (trim p2)) in
             check_vg line (cons_coord_v qops one_q (q_of_float (pf p1)) d x) (cons_coord_g qops one_q d x) fvv fg (Float.abs (pf p1) :: fx)
           | "minimum" ->
             let d = nat_of_int (int_of_string (trim p2)) in
             check_vg line (cons_coord_v qops neg1 (q_of_float (pf p1)) d x) (cons_coord_g qops neg1 d x) fvv fg (Float.abs (pf p1) :: fx)
           | "ball-eq" | "ball-ineq" ->
             let o = qlist p1 and r = q_of_float (pf p2) in
             check_vg line (cons_ball_v qops o r x) (cons_ball_g qops o x) fvv fg (pf p2 *. pf p2 :: (flist p1 @ fx))
           | "linear-eq" | "linear-ineq" ->
             let q' = qlist p1 and r = q_of_float (pf p2) in
             check_vg line (cons_linear_v qops q' r x) (cons_linear_g q' x) fvv fg (pf p2 :: (flist p1 @ fx))
           | _ -> incr skipped)
        | _ -> incr skipped)
     | _ -> report line "bad CN line")
  | _ -> report line "bad CN line"


let do_size line rest =
  match split_str " = " rest with
  | [lhs; rhs] ->
    (match split_on ' ' (trim lhs) with
     | [kind; req] ->
       let got = int_of_string (trim rhs) in
       let chk m = incr total; if int_of_z m <> got then report line (string_of_int (int_of_z m)) in
       let has_plus = String.contains kind '+' in
       if kind = "fn:rosenbrock" then chk (size_rosenbrock (z_of_int (int_of_string req)))
       else if kind = "fn:powell" then chk (size_powell (z_of_int (int_of_string req)))
       else if starts kind "fn:" && has_plus then chk (size_enet (z_of_int (int_of_string req)))
       else if kind = "ml:linear" then (match split_on ',' req with [a; b] -> chk (size_linear (z_of_int (int_of_string a)) (z_of_int (int_of_string b))) | _ -> ())
       else if kind = "ml:surrogate-fit" then chk (size_surrogate_fit (z_of_int (int_of_string req)))
       else if kind = "prototypes" then (incr total; if got <> 48 then report line "48 registered prototypes")
       else if kind = "losses" then (incr total; if got <> 17 then report line "17 registered losses")
       else if starts kind "fn:" then (incr total; if got <> int_of_string req then report line req)
       else incr skipped
     | _ -> ())
  | _ -> ()

let () =
  (try
    while true do
      let line = input_line stdin in
      match String.index_opt line ' ' with
      | None -> ()
      | Some sp ->
        let op = String.sub line 0 sp in
        let rest = String.sub line (sp + 1) (String.length line - sp - 1) in
        (try
          (match op with
           | "LV" -> do_lv line rest
           | "FN" -> do_fn line rest
           | "CN" -> do_cn line rest
           | "SIZE" -> do_size line rest
           | "QF" -> do_qf line rest
           | "CQ" -> do_cq line rest
           | "KK" -> do_kk line rest
           | "LM" -> do_lm line rest
           | "GB" -> do_gb line rest
           | "GS" -> do_gs line rest
           | "EN" -> do_en line rest
           | "FX" -> do_fx line rest
           | "SG" -> do_sg line rest
           | "SF" -> do_sf line rest
           | "GG" -> do_gg line rest
           | "MQ" -> do_mq line rest
           | _ -> ())
        with e -> report line ("driver exception " ^ Printexc.to_string e))
    done
  with End_of_file -> ());
  Printf.printf "MODEL-DONE checked=%d mismatches=%d skipped=%d ext=%d rest=%d\n" !total !mism !skipped !ext_total !rest_total
