(* C09 driver: reads the lines of harness/c09_objectives.cpp on stdin, recomputes every objective with the extracted
   exact-rational model (C09_model, Z mapped to Zarith): the value / gradient the accumulators deliver under the
   schedule observed on the run (model of the code) AND the naive definition (mean of the per-sample losses + the
   regularisation terms), and compares both with what the library returned, within the tolerance carried by the line
   (1e-9 relative to the magnitude of the summed terms).
   Prints `MISMATCH <what> <line id> ...` / `PROPFAIL <what> <line id> ...` and a final `MODEL-DONE checked=<n> mismatches=<m>`.
   NB: compiled by tools/checks/c09.py after `open C09_model` (no zutil.ml.inc: Z is not an inductive here). *)
module B = Big_int_Z

let mism = ref 0
let total = ref 0
let printed = ref 0
let skipped_amb = ref 0
let coords = ref 0
let report kind what id detail =
  incr mism;
  incr printed;
  if !printed <= 100 then Printf.printf "%s %s %s %s\n" kind what id detail

(* ---- exact conversion of doubles ---------------------------------------------------------------- *)
let qz = { qnum = B.zero_big_int; qden = B.unit_big_int }
let q_of_float (x : float) : q =
  if x = 0.0 then qz
  else begin
    let (m, e) = Float.frexp x in
    let mi = Int64.of_float (Float.ldexp m 53) in
    let rec strip mi e = if Int64.rem mi 2L = 0L then strip (Int64.div mi 2L) (e + 1) else (mi, e) in
    let (mi, e) = strip mi (e - 53) in
    let n = B.big_int_of_int64 mi in
    if e >= 0 then { qnum = B.shift_left_big_int n e; qden = B.unit_big_int }
    else { qnum = n; qden = B.shift_left_big_int B.unit_big_int (- e) }
  end
let float_of_q (x : q) : float = Q.to_float (Q.make x.qnum x.qden)
let zi = B.big_int_of_int
let rec nat_of_int (n : int) : nat = if n <= 0 then O else S (nat_of_int (n - 1))

let parse_float s = let s = String.trim s in
  if s = "nan" then Float.nan else if s = "inf" then Float.infinity else if s = "-inf" then Float.neg_infinity
  else float_of_string s
let split c s = if String.trim s = "" then [] else String.split_on_char c s
let floats_of s = List.map parse_float (split ',' (String.trim s))
let qs_of s = List.map q_of_float (floats_of s)
let rows_of s = List.map qs_of (split ';' (String.trim s))
let frows_of s = List.map floats_of (split ';' (String.trim s))
let ints_of s = List.map (fun t -> zi (int_of_string (String.trim t))) (split ',' (String.trim s))

let split_str sep s =
  let n = String.length sep and m = String.length s in
  let rec go i start acc =
    if i + n > m then List.rev (String.sub s start (m - start) :: acc)
    else if String.sub s i n = sep then go (i + n) (i + n) (String.sub s start (i - start) :: acc)
    else go (i + 1) start acc in
  go 0 0 []

(* "k=v" fields of a header *)
let fields hd =
  List.filter_map (fun t -> match String.index_opt t '=' with
      | Some i -> Some (String.sub t 0 i, String.sub t (i + 1) (String.length t - i - 1))
      | None -> None) (split ' ' hd)
let fld fs k = try List.assoc k fs with Not_found -> failwith ("missing field " ^ k)
let strip_key k s = (* "x=..." -> "..." *)
  let s = String.trim s in
  let p = k ^ "=" in
  let n = String.length p in
  if String.length s >= n && String.sub s 0 n = p then String.sub s n (String.length s - n) else failwith ("expected " ^ p)

let sched_of s =
  List.map (fun t -> match String.split_on_char ':' (String.trim t) with
      | [b; e; w] -> ((zi (int_of_string b), zi (int_of_string e)), nat_of_int (int_of_string w))
      | _ -> failwith ("bad schedule entry " ^ t)) (split ',' s)

let close impl (model : q) tol =
  Float.is_finite impl && Float.abs (impl -. float_of_q model) <= tol
  || (* the float image of the exact value may itself be rounded: compare exactly when the cheap test fails *)
  (Float.is_finite impl &&
   let d = qminus (q_of_float impl) model in
   let d = if qle_bool qz d then d else qopp d in
   qle_bool d (q_of_float tol))

let avals : (string, (string * q list) list) Hashtbl.t = Hashtbl.create 64
let assoc_first : (string, string * q * int) Hashtbl.t = Hashtbl.create 64
let assoc_total = ref 0
let assoc_pairs = ref 0
let cur_T : q list list ref = ref []
let cur_X : q list list ref = ref []
let cur_id = ref ""

let check_sched what id workers n batch sched =
  if not (schedule_okb (nat_of_int workers) (zi n) (zi batch) sched) then
    report "PROPFAIL" (what ^ "-schedule") id
      (Printf.sprintf "the observed (chunk, worker) list is not a valid schedule of chunks %d %d on %d workers" n batch workers)

let check_value what id impl model tol =
  if not (close impl model tol) then
    report "MISMATCH" what id (Printf.sprintf "impl=%h model=%h tol=%h" impl (float_of_q model) tol)

let check_grad what id amb (impl : float list) (model : q list) (tols : float list) =
  if amb then incr skipped_amb
  else if List.length impl <> List.length model || List.length impl <> List.length tols then
    report "MISMATCH" what id (Printf.sprintf "gradient sizes differ: impl=%d model=%d" (List.length impl) (List.length model))
  else begin
    let rec go k impl model tols =
      match impl, model, tols with
      | a :: impl', m :: model', t :: tols' ->
        incr coords;
        if not (close a m t) then
          report "MISMATCH" what id (Printf.sprintf "coordinate=%d impl=%h model=%h tol=%h" k a (float_of_q m) t)
        else go (k + 1) impl' model' tols'
      | _ -> () in
    go 0 impl model tols
  end

let data_for id =
  let case = match String.index_opt id '.' with Some i -> String.sub id 0 i | None -> id in
  if case <> !cur_id then failwith ("no DATA line for case " ^ case);
  (!cur_T, !cur_X)

let process op rest =
  match op with
  | "DATA" ->
    (match split_str " | " rest with
     | [hd; t; x] ->
       (match split ' ' (String.trim hd) with
        | id :: _ -> cur_id := id; cur_T := rows_of (strip_key "T" t); cur_X := rows_of (strip_key "X" x)
        | [] -> failwith "bad DATA header")
     | _ -> failwith "bad DATA line")
  | "LIN" ->
    (match split_str " = " rest with
     | [l; r] ->
       (match split_str " | " l, split_str " | " r with
        | [hd; x; gtol; sched], [fx; gx] ->
          let id = List.hd (split ' ' (String.trim hd)) in
          let fs = fields hd in
          let (tT, tX) = data_for id in
          let loss = loss_of_Z (zi (int_of_string (fld fs "loss"))) in
          let lv = loss_value loss and lg = loss_vgrad loss in
          let isize = zi (int_of_string (fld fs "isize")) and tsize = zi (int_of_string (fld fs "tsize")) in
          let l1 = q_of_float (parse_float (fld fs "l1")) and l2 = q_of_float (parse_float (fld fs "l2")) in
          let r2 = q_of_float (parse_float (fld fs "r2")) in
          let workers = int_of_string (fld fs "workers") and batch = int_of_string (fld fs "batch") in
          let vtol = parse_float (fld fs "vtol") and amb = fld fs "amb" = "1" in
          let x = qs_of (strip_key "x" x) and gtol = floats_of (strip_key "gtol" gtol) in
          let sched = sched_of (strip_key "sched" sched) in
          let n = List.length tX in
          incr total;
          check_sched "lin" id workers n batch sched;
          let fx = parse_float fx and gx = floats_of gx in
          check_value "lin-value" id fx (lin_value lv lg isize tsize l1 l2 r2 x tT tX (nat_of_int workers) sched) vtol;
          check_value "lin-definition" id fx (lin_naive_value lv isize tsize l1 l2 x tT tX) vtol;
          check_grad "lin-grad" id amb gx (lin_grad lv lg isize tsize l1 l2 x tT tX (nat_of_int workers) sched) gtol
        | _ -> failwith "bad LIN line")
     | _ -> failwith "bad LIN line")
  | "BIAS" ->
    (match split_str " = " rest with
     | [l; r] ->
       (match split_str " | " l, split_str " | " r with
        | [hd; x; gtol; sched], [fx; gx] ->
          let id = List.hd (split ' ' (String.trim hd)) in
          let fs = fields hd in
          let (tT, _) = data_for id in
          let loss = loss_of_Z (zi (int_of_string (fld fs "loss"))) in
          let lv = loss_value loss and lg = loss_vgrad loss in
          let workers = int_of_string (fld fs "workers") and batch = int_of_string (fld fs "batch") in
          let vtol = parse_float (fld fs "vtol") and amb = fld fs "amb" = "1" in
          let x = qs_of (strip_key "x" x) and gtol = floats_of (strip_key "gtol" gtol) in
          let sched = sched_of (strip_key "sched" sched) in
          incr total;
          check_sched "bias" id workers (List.length tT) batch sched;
          let fx = parse_float fx and gx = floats_of gx in
          check_value "bias-value" id fx (bias_value lv lg x tT (nat_of_int workers) sched) vtol;
          check_value "bias-definition" id fx (bias_naive_value lv x tT) vtol;
          check_grad "bias-grad" id amb gx (bias_grad lv lg x tT (nat_of_int workers) sched) gtol
        | _ -> failwith "bad BIAS line")
     | _ -> failwith "bad BIAS line")
  | "SCALE" ->
    (match split_str " = " rest with
     | [l; r] ->
       (match split_str " | " l, split_str " | " r with
        | [hd; x; groups; s; w; smp; gtol; sched], [fx; gx] ->
          let id = List.hd (split ' ' (String.trim hd)) in
          let fs = fields hd in
          let (tT, _) = data_for id in
          let loss = loss_of_Z (zi (int_of_string (fld fs "loss"))) in
          let lv = loss_value loss and lg = loss_vgrad loss in
          let workers = int_of_string (fld fs "workers") and batch = int_of_string (fld fs "batch") in
          let vtol = parse_float (fld fs "vtol") and amb = fld fs "amb" = "1" in
          let x = qs_of (strip_key "x" x) and gtol = floats_of (strip_key "gtol" gtol) in
          let groups = ints_of (strip_key "groups" groups) and smp = ints_of (strip_key "smp" smp) in
          let s = rows_of (strip_key "S" s) and w = rows_of (strip_key "W" w) in
          let sched = sched_of (strip_key "sched" sched) in
          incr total;
          check_sched "scale" id workers (List.length tT) batch sched;
          let fx = parse_float fx and gx = floats_of gx in
          check_value "scale-value" id fx (scale_value lv lg x groups s w tT smp (nat_of_int workers) sched) vtol;
          check_value "scale-definition" id fx (scale_naive_value lv x groups s w tT smp) vtol;
          check_grad "scale-grad" id amb gx (scale_grad lv lg x groups s w tT smp (nat_of_int workers) sched) gtol
        | _ -> failwith "bad SCALE line")
     | _ -> failwith "bad SCALE line")
  | "GRADS" ->
    (match split_str " = " rest with
     | [l; r] ->
       (match split_str " | " l, split_str " | " r with
        | [hd; o; gtol; sched], [fx; gx; raw] ->
          let id = List.hd (split ' ' (String.trim hd)) in
          let fs = fields hd in
          let (tT, _) = data_for id in
          let loss = loss_of_Z (zi (int_of_string (fld fs "loss"))) in
          let lv = loss_value loss and lg = loss_vgrad loss in
          let workers = int_of_string (fld fs "workers") and batch = int_of_string (fld fs "batch") in
          let vtol = parse_float (fld fs "vtol") in
          let o = rows_of (strip_key "O" o) and gtol = floats_of (strip_key "gtol" gtol) in
          let sched = sched_of (strip_key "sched" sched) in
          let n = List.length tT in
          incr total;
          check_sched "grads" id workers n batch sched;
          let fx = parse_float fx in
          (* the buffers keep whatever the previous call left: start from junk *)
          let junk = q_of_float 12345.678 in
          let oldv = List.map (fun _ -> junk) tT and oldg = List.map (fun t -> List.map (fun _ -> junk) t) tT in
          check_value "grads-value" id fx (grads_value lv tT o sched oldv) vtol;
          check_value "grads-definition" id fx (grads_naive_value lv tT o) vtol;
          let mg = List.concat (grads_grad lg tT o sched oldg) in
          check_grad "grads-grad" id false (List.concat (frows_of gx)) mg gtol;
          let mraw = List.concat (grads_gbuf lg tT o sched oldg) in
          let rtol = List.map (fun t -> t *. float_of_int n) gtol in
          check_grad "grads-gradients" id false (List.concat (frows_of raw)) mraw rtol
        | _ -> failwith "bad GRADS line")
     | _ -> failwith "bad GRADS line")
  (* ---- (extension) stage "assoc": the proved floating-point re-association bound (C09_fp_mean) evaluated in exact
     rational arithmetic by the extracted fp_mean_okb / fp_pair_okb on the measured terms ------------------------------- *)
  | "AVALS" ->
    (match split_str " | " rest with
     | [hd; b; sc; g] ->
       let id = List.hd (split ' ' (String.trim hd)) in
       Hashtbl.replace avals id [("bias", qs_of (strip_key "bias" b)); ("scale", qs_of (strip_key "scale" sc)); ("grads", qs_of (strip_key "grads" g))]
     | _ -> failwith "bad AVALS line")
  | "ASSOC" ->
    (match split_str " = " rest with
     | [l; r] ->
       let id = List.hd (split ' ' (String.trim l)) in
       let fs = fields l in
       let case = match String.index_opt id '.' with Some i -> String.sub id 0 i | None -> id in
       let obj = fld fs "obj" in
       let zeros = int_of_string (fld fs "zeros") in
       let vs = (try List.assoc obj (Hashtbl.find avals case) with Not_found -> failwith ("no AVALS line for case " ^ case)) in
       let fx = parse_float r in
       incr assoc_total;
       if not (Float.is_finite fx) then report "PROPFAIL" "assoc-mean" id (Printf.sprintf "obj=%s value %h is not finite" obj fx)
       else begin
         let k = zi (List.length vs + zeros) in
         let qfx = q_of_float fx in
         if not (fp_mean_okb k vs qfx) then
           report "PROPFAIL" "assoc-mean" id
             (Printf.sprintf "obj=%s |value - mean(terms)| exceeds the proved bound gamma_k mean|terms| + 2^-1075 (k=%d): impl=%h exact-mean=%h bound=%h terms=%s"
                obj (List.length vs + zeros) fx
                (float_of_q (qdiv (qsum vs) (inject_Z (zi (List.length vs))))) (float_of_q (fp_mean_bound k vs))
                (String.concat "," (List.map (fun v -> Printf.sprintf "%h" (float_of_q v)) vs)));
         (* two configurations of the same case: any two reduction trees over the same terms *)
         let key = case ^ "/" ^ obj in
         (match Hashtbl.find_opt assoc_first key with
          | None -> Hashtbl.replace assoc_first key (id, qfx, List.length vs + zeros)
          | Some (id0, q0, k0) ->
            incr assoc_pairs;
            let kk = zi (max k0 (List.length vs + zeros)) in
            if not (fp_pair_okb kk vs q0 qfx) then
              report "PROPFAIL" "assoc-pair" id
                (Printf.sprintf "obj=%s configurations %s and %s differ by more than 2 (gamma_k mean|terms| + 2^-1075): %h vs %h" obj id0 id
                   (float_of_q q0) fx))
       end
     | _ -> failwith "bad ASSOC line")
  | _ -> ()

let () =
  (try
    while true do
      let line = input_line stdin in
      match String.index_opt line ' ' with
      | None -> ()
      | Some sp ->
        let op = String.sub line 0 sp in
        let rest = String.sub line (sp + 1) (String.length line - sp - 1) in
        (try process op rest
         with Failure msg | Invalid_argument msg ->
           report "MISMATCH" "driver" op ("cannot process line: " ^ msg ^ " :: " ^ String.sub rest 0 (min 80 (String.length rest))))
    done
  with End_of_file -> ());
  Printf.printf "MODEL-DONE checked=%d mismatches=%d coordinates=%d ambiguous_skipped=%d assoc=%d assoc_pairs=%d\n" !total !mism !coords !skipped_amb
    !assoc_total !assoc_pairs
