(* C07, QUAD stage driver: reads the lines of harness/c07_quad.cpp on stdin.  Every double is converted EXACTLY to a rational
   and the extracted exact-arithmetic model (C07q_model, Coq's Q over Zarith integers) is run on the same quadratic / parameters:

     MISMATCH QUAD <id> ...   CERTIFIED case (every value the model computes on the run -- trial steps, f, dg, t*, parameters -- is a
                              dyadic with numerator and denominator below 2^12 resp. 2^14, so that every binary64 operation of the
                              library is exact): the library must make exactly the model's probes and return the model's (ok, t)
     (runs of more than 200 evaluations are not replayed exactly: counted as skipped)
     MISMATCH QCONST ...      eps0 / eps1 / stpmin / 0.3 of the model are not the library's doubles
     PROPFAIL QUAD <id> ...   a PROVED statement of C07_Quad.v evaluated on the library's own run in exact arithmetic (certified cases):
                              the iteration bounds computed by the extracted bt_bound / bt_bound_quadratic / lem_bound, CG_DESCENT's
                              first secant step = t*, acceptance regions
   Uncertified cases (rounding may legitimately change a decision) are compared too and only counted (HIST qagree).
   Compiled by tools/checks/c07.py after `module ZZ = Z  module QQ = Q  open C07q_model`. *)

let mism = ref 0
let pfail = ref 0
let printed = ref 0
let checked = ref 0
let counters : (string, int) Hashtbl.t = Hashtbl.create 32
let count k = Hashtbl.replace counters k (1 + (try Hashtbl.find counters k with Not_found -> 0))
let report kind id detail =
  (if kind = "MISMATCH" then incr mism else incr pfail);
  incr printed;
  if !printed <= 60 then Printf.printf "%s QUAD %s %s\n" kind id detail

let parse_float s =
  let s = String.trim s in
  if s = "nan" then Float.nan else if s = "inf" then Float.infinity else if s = "-inf" then Float.neg_infinity
  else float_of_string s
let cq (x : QQ.t) : q = { qnum = QQ.num x; qden = QQ.den x }
let zq (x : q) : QQ.t = QQ.make x.qnum x.qden
let qf_ (x : float) : q = cq (QQ.of_float x)
let qeq (a : q) (b : q) = QQ.equal (zq a) (zq b)
let rec nat_of_int (n : int) : nat = if n <= 0 then O else S (nat_of_int (n - 1))
let rec int_of_nat (n : nat) : int = match n with O -> 0 | S k -> 1 + int_of_nat k
let hex x = Printf.sprintf "%h" x
let qstr (x : q) = let z = zq x in Printf.sprintf "%s(~%.17g)" (QQ.to_string z) (QQ.to_float z)
let small bits (x : q) = let z = zq x in ZZ.numbits (QQ.num z) <= bits && ZZ.numbits (QQ.den z) <= bits
let dyadic (x : q) = let d = QQ.den (zq x) in ZZ.equal d (ZZ.shift_left ZZ.one (ZZ.numbits d - 1))

let split_str sep s =
  let n = String.length sep and m = String.length s in
  let rec go i start acc =
    if i + n > m then List.rev (String.sub s start (m - start) :: acc)
    else if String.sub s i n = sep then go (i + n) (i + n) (String.sub s start (i - start) :: acc)
    else go (i + 1) start acc in
  go 0 0 []
let words s = List.filter (fun w -> w <> "") (String.split_on_char ' ' (String.trim s))

let handle_const l =
  match words l with
  | [_; e0; e1; sm; k3] ->
    incr checked;
    let chk nm (m : q) s = if not (qeq m (qf_ (parse_float s))) then begin
        incr mism; Printf.printf "MISMATCH QCONST %s model=%s library=%s\n" nm (qstr m) s end in
    chk "eps0" q_eps0 e0; chk "eps1" q_eps1 e1; chk "stpmin" q_stpmin sm; chk "k03" q_k03 k3
  | _ -> incr mism; Printf.printf "MISMATCH QCONST malformed %s\n" l

let handle_quad l =
  match split_str " | " l with
  | [hd; cfg; fn; res; probes] ->
    let id = (match words hd with [_; i] -> i | _ -> "?") in
    (match words cfg, words fn, words res with
     | [alg; maxit; interp; c1; c2; sg; t1; t2; t3; cge], [f0; g0; a; t0], [ok; tret] ->
       incr checked;
       let alg = int_of_string alg and maxit = int_of_string maxit and interp = int_of_string interp in
       let fl = parse_float in
       let c1f = fl c1 in
       let prm = { qc1 = qf_ c1f; qc2 = qf_ (fl c2); qmaxit = ZZ.of_int maxit; qinterp = ZZ.of_int interp; qsafeguard = qf_ (fl sg);
                   qtau1 = qf_ (fl t1); qtau2 = qf_ (fl t2); qtau3 = qf_ (fl t3); qcg_epsilon = qf_ (fl cge) } in
       let f0 = qf_ (fl f0) and g0 = qf_ (fl g0) and a = qf_ (fl a) and t0 = qf_ (fl t0) in
       let lib_ok = (ok = "1") and lib_t = qf_ (fl tret) in
       let lib = if String.trim probes = "-" then [] else
           List.map (fun p -> match String.split_on_char ',' p with
               | [t; f; g] -> (qf_ (fl t), qf_ (fl f), qf_ (fl g)) | _ -> failwith "probe") (String.split_on_char ';' (String.trim probes)) in
       let nlib = List.length lib in
       let phi = quad f0 g0 a and p0 = quad0 f0 g0 in
       let ts = qred (tstar g0 a) in
       let params_small = List.for_all (fun x -> small 14 x && dyadic x) [prm.qc1; prm.qc2; prm.qsafeguard; prm.qtau1; prm.qtau2; prm.qtau3]
                          && List.for_all (fun x -> small 12 x && dyadic x) [f0; g0; a; t0; ts] in
       (* the library's own evaluations of the quadratic are exact? *)
       let evals_exact = List.for_all (fun (t, f, g) -> qeq f (quad_f f0 g0 a t) && qeq g (quad_g g0 a t)) lib in
       if not evals_exact then count "qagree:library_evaluations_of_the_quadratic_rounded";
       (* where do_get starts (exact): init_step, then the *3 loop *)
       let t1 = q_init_step t0 in
       let s1 = q_update phi (q_init_state p0) t1 in
       let (go, (s2, tstart)) = q_grow phi p0 (nat_of_int maxit) s1 t1 in
       let before = ZZ.to_int s2.qcnt in
       if alg <= 2 && nlib > 200 then
         (* exact replay of a very long run is expensive (the numerators gain ~53 bits per step with the non-dyadic defaults); on the unchanged
            library no run of this family needs more than ~40 evaluations: counted, and left to the harness' bound oracle *)
         count "qagree:skipped_library_run_longer_than_200_evaluations"
       else if alg <= 2 then begin
         let r = q_ls_get phi prm p0 (qalg_of_Z (ZZ.of_int alg)) t0 in
         let tr = List.rev r.qrs.qtrace in
         let nm = List.length tr in
         let all_small = params_small && List.for_all (fun t -> small 12 t && dyadic t && (let p = phi t in small 12 p.qf && small 12 p.qg)) tr in
         let same_probes = nm = nlib && List.for_all2 (fun t (tl, _, _) -> qeq t tl) tr lib in
         let agree = same_probes && r.qok = lib_ok && qeq r.qrt lib_t in
         let algn = [| "backtrack"; "lemarechal"; "fletcher" |].(alg) in
         if all_small && evals_exact then begin
           count ("qagree:certified_" ^ algn);
           if not agree then
             report "MISMATCH" id (Printf.sprintf "certified-exact case: %s model ok=%b t=%s probes=[%s] ; library ok=%b t=%s probes=%d : %s"
                                     algn r.qok (qstr r.qrt) (String.concat "," (List.map qstr tr)) lib_ok tret nlib l)
         end else begin
           if agree then count ("qagree:uncertified_agree_" ^ algn)
           else if r.qok = lib_ok && nm = nlib then count ("qagree:uncertified_same_ok_and_count_" ^ algn)
           else if r.qok = lib_ok then count ("qagree:uncertified_same_ok_" ^ algn)
           else count ("qagree:uncertified_different_ok_" ^ algn)
         end;
         (* proved iteration bounds, exact, on the library's run *)
         let after = nlib - before in
         let fuel = nat_of_int 2000 in
         if go && alg = 0 then begin
           (match bt_bound fuel prm.qsafeguard prm.qc1 g0 a tstart with
            | Some n when int_of_nat n < maxit ->
              let n = int_of_nat n in
              if r.qok = false || nm - before > n then
                report "PROPFAIL" id (Printf.sprintf "the extracted model itself violates q_backtrack_geometric: N=%d trial steps=%d ok=%b : %s" n (nm - before) r.qok l);
              if lib_ok && after <= n then count "bound:backtrack_within_N"
              else if all_small && evals_exact then
                report "PROPFAIL" id (Printf.sprintf "backtrack (certified-exact case): ok=%b after %d trial steps, proved bound N=%d (max_iterations=%d) : %s" lib_ok after n maxit l)
              else count "bound:backtrack_exceeded_uncertified(rounding)"
            | _ -> count "bound:backtrack_budget_below_N");
           if interp = 1 && c1f <= 0.5 then
             (match bt_bound_quadratic fuel prm.qsafeguard g0 a tstart with
              | Some n when int_of_nat n < maxit ->
                let n = int_of_nat n in
                if r.qok = false || nm - before > n then
                  report "PROPFAIL" id (Printf.sprintf "the extracted model itself violates q_backtrack_quadratic_sharp: bound=%d trial steps=%d ok=%b : %s" n (nm - before) r.qok l);
                if lib_ok && after <= n then count "bound:backtrack_quadratic_within_sharp_bound"
                else if all_small && evals_exact then
                  report "PROPFAIL" id (Printf.sprintf "backtrack, quadratic interpolation (certified-exact case): ok=%b after %d trial steps, proved bound %d : %s" lib_ok after n l)
                else count "bound:backtrack_quadratic_exceeded_uncertified(rounding)"
              | _ -> ())
         end;
         if go && alg = 1 then begin
           (match lem_bound fuel prm.qsafeguard prm.qtau1 prm.qc1 prm.qc2 g0 a tstart with
            | Some n when int_of_nat n + 1 < maxit ->
              let n = int_of_nat n in
              if r.qok = false || nm - before > n then
                report "PROPFAIL" id (Printf.sprintf "the extracted model itself violates q_lemarechal_succeeds: bound=%d trial steps=%d ok=%b : %s" n (nm - before) r.qok l);
              if lib_ok && after <= n then count "bound:lemarechal_within_bound"
              else if all_small && evals_exact then
                report "PROPFAIL" id (Printf.sprintf "lemarechal (certified-exact case): ok=%b after %d trial steps, proved bound %d : %s" lib_ok after n l)
              else count "bound:lemarechal_exceeded_uncertified(rounding)"
            | _ -> count "bound:lemarechal_budget_below_bound")
         end
       end
       else if alg = 4 then begin
         (* CG_DESCENT: first secant step on the valid initial bracket [0, tstart] *)
         match lib with
         | (tl1, _, _) :: rest when go && before = 1 && qeq tl1 tstart ->
           let pb = phi tstart in
           let sa = qstep_of (cq QQ.zero) p0 and sb = qstep_of tstart pb in
           let bracket_ok = not (q_has_descent pb) in
           let accepted_at_start = q_cg_accept prm p0 pb tstart in
           if bracket_ok && not accepted_at_start && maxit >= 3 then begin
             match q_cg_first_secant phi prm p0 s2 sa sb with
             | Some ((d, t), _) ->
               if not (qeq t ts) then report "PROPFAIL" id (Printf.sprintf "model: secant on a quadratic is not t*: %s vs %s : %s" (qstr t) (qstr ts) l);
               if d <> (c1f <= 0.5) then report "PROPFAIL" id (Printf.sprintf "model: done(t*)=%b but c1=%s : %s" d c1 l);
               let cert = params_small && small 12 tstart && small 12 pb.qf && small 12 pb.qg && evals_exact in
               (match rest with
                | (tl2, _, _) :: more ->
                  if qeq tl2 ts then begin
                    count "cg:first_secant_is_exact_minimiser";
                    if d then begin
                      if lib_ok && more = [] && qeq lib_t ts then count "cg:accepted_at_first_secant"
                      else if cert then report "PROPFAIL" id (Printf.sprintf "cgdescent (certified-exact case): first secant step = t* is acceptable but the library returned ok=%b t=%s after %d evaluations : %s" lib_ok tret nlib l)
                      else count "cg:first_secant_not_accepted_uncertified(rounding)"
                    end else count "cg:c1_gt_half_minimiser_rejected"
                  end
                  else if cert then report "PROPFAIL" id (Printf.sprintf "cgdescent (certified-exact case): second probe %s is not t* = %s : %s" (qstr tl2) (qstr ts) l)
                  else count "cg:first_secant_rounded"
                | [] -> if cert then report "PROPFAIL" id (Printf.sprintf "cgdescent (certified-exact case): no secant step made : %s" l) else count "cg:no_secant")
             | None -> report "PROPFAIL" id (Printf.sprintf "model: secant denominator zero on a strictly convex quadratic : %s" l)
           end
         | _ -> ()
       end
       else begin
         (* More-Thuente: the convergence test in exact arithmetic at the returned step *)
         if lib_ok then
           if q_mt_converged prm p0 (phi lib_t) lib_t then count "mt:success_satisfies_convergence_test_exactly"
           else count "mt:success_outside_exact_convergence_region"
       end
     | _ -> incr mism; Printf.printf "MISMATCH QUAD malformed %s\n" l)
  | _ -> incr mism; Printf.printf "MISMATCH QUAD malformed %s\n" l

let () =
  (try
     while true do
       let l = input_line stdin in
       if String.length l > 7 && String.sub l 0 7 = "QCONST " then handle_const l
       else if String.length l > 5 && String.sub l 0 5 = "QUAD " then handle_quad l
     done
   with End_of_file -> ());
  let ks = List.sort compare (Hashtbl.fold (fun k v acc -> (k, v) :: acc) counters []) in
  Printf.printf "HIST quad_stage %s\n" (String.concat " " (List.map (fun (k, v) -> Printf.sprintf "%s=%d" k v) ks));
  Printf.printf "MODEL-DONE checked=%d mismatches=%d propfails=%d\n" !checked !mism !pfail
