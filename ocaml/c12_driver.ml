(* C12 driver: reads the implementation's lines on stdin
     KFOLD seed,folds | samples | perm = tr ; va / tr ; va / ...
     RANDOM seed,folds,perc | samples | perm / perm / ... = tr ; va / ...
     SWOR count,via,state | samples | perm = result
     SWR count,via,state | samples | picks = result
     SWRW count,via,state | samples | weights(hex) | picks = result
   extension (stages "ball-twin" and "gboost-model"):
     BALLX n,radius,state | x0 | u (the normal deviates) | z,nrm,unif = x      (all binary64 values as C %a hex)
     GBS kind,seed,ratio,round | samples | losses by sample index | gradient magnitudes by sample index | oracle = result
     GBKINDS off,subsample,bootstrap,wei_loss,wei_grad = 5
   recomputes every result with the extracted model from the inputs and the oracle answers of the C++ standard
   library (MISMATCH lines), checks the oracle contracts that the theorems assume (ORACLE lines, counted as
   mismatches) and applies the verified checkers of C12_Defs to what the implementation returned (PROPFAIL). *)
let mism = ref 0
let total = ref 0
let propchecks = ref 0
let clip s = if String.length s > 1500 then String.sub s 0 1500 ^ "..." else s
let report kind line msg = incr mism; Printf.printf "%s %s // %s\n" kind (clip line) (clip msg)

let pairs_of_string (s : string) : (z list * z list) list =
  List.map (fun p ->
      match String.split_on_char ';' p with
      | [a; b] -> (zlist_of_string a, zlist_of_string b)
      | _ -> failwith "bad pair") (String.split_on_char '/' s)

let string_of_pairs (l : (z list * z list) list) : string =
  String.concat " / " (List.map (fun (a, b) -> string_of_zlist a ^ " ; " ^ string_of_zlist b) l)

let rec zlist_eq (a : z list) (b : z list) = list_eqb a b
let pairs_eq a b = List.length a = List.length b && List.for_all2 (fun (a1, a2) (b1, b2) -> zlist_eq a1 b1 && zlist_eq a2 b2) a b

let floats s = List.map (fun t -> float_of_string (String.trim t)) (List.filter (fun t -> String.trim t <> "") (String.split_on_char ',' s))
let bits = Int64.bits_of_float
(* Coq's primitive floats are extracted to Float64.t of coq-core.kernel (= OCaml's native binary64 floats) *)
let ff = Float64.of_float
let tf = Float64.to_float
let ffl = List.map ff
let hexl l = String.concat "," (List.map (Printf.sprintf "%h") l)
let ball_checked = ref 0
let gb_checked = ref 0
let ints s = List.map (fun t -> int_of_string (String.trim t)) (List.filter (fun t -> String.trim t <> "") (String.split_on_char ',' s))

let () =
  (try
    while true do
      let line = input_line stdin in
      match String.index_opt line ' ' with
      | None -> ()
      | Some sp ->
        let op = String.sub line 0 sp in
        let rest = String.sub line (sp + 1) (String.length line - sp - 1) in
        (match split_str " = " rest with
         | [lhs; rhs] ->
           let f = Array.of_list (List.map trim (split_str " | " lhs)) in
           (try
             (match op with
              | "KFOLD" ->
                let (seed, folds) = (match ints f.(0) with [a; b] -> (a, b) | _ -> failwith "args") in
                let samples = zlist_of_string f.(1) and perm = zlist_of_string f.(2) in
                let n = List.length samples in
                incr total;
                if not (perm_okb perm (nat_of_int n)) then report "ORACLE" line "std::shuffle's answer is not a permutation of 0..n-1";
                let shuffle = shuffle_by (fun _ c -> if c = O then perm else []) in
                let model = kfold shuffle (z_of_int seed) (z_of_int folds) samples in
                let impl = pairs_of_string rhs in
                if not (pairs_eq model impl) then report "MISMATCH" line ("model: " ^ string_of_pairs model);
                for fold = 0 to folds - 1 do
                  if not (kfold_layoutb (z_of_int n) (z_of_int folds) (z_of_int fold)) then
                    report "MISMATCH" line (Printf.sprintf "segment layout of fold %d is not a tiling (translated kernels)" fold)
                done;
                List.iteri (fun i (tr, va) ->
                    incr propchecks;
                    if not (split_okb samples tr va) then
                      report "PROPFAIL" line (Printf.sprintf "fold %d: not a sorted disjoint split of the input (verified checker)" i)) impl
              | "RANDOM" ->
                let (seed, folds, perc) = (match ints f.(0) with [a; b; c] -> (a, b, c) | _ -> failwith "args") in
                let samples = zlist_of_string f.(1) in
                let perms = Array.of_list (List.map zlist_of_string (String.split_on_char '/' f.(2))) in
                let n = List.length samples in
                incr total;
                Array.iter (fun p -> if not (perm_okb p (nat_of_int n)) then report "ORACLE" line "std::shuffle's answer is not a permutation of 0..n-1") perms;
                let shuffle = shuffle_by (fun _ c -> let i = int_of_nat c in if i < Array.length perms then perms.(i) else []) in
                let model = random_split shuffle (z_of_int seed) (z_of_int folds) (z_of_int perc) samples in
                let impl = pairs_of_string rhs in
                if not (pairs_eq model impl) then report "MISMATCH" line ("model: " ^ string_of_pairs model);
                if not (random_layoutb (z_of_int n) (z_of_int folds) (z_of_int 0) (z_of_int perc)) then
                  report "MISMATCH" line "segment layout of the random splitter is inconsistent (translated kernels)";
                List.iteri (fun i (tr, va) ->
                    incr propchecks;
                    if not (split_okb samples tr va) then
                      report "PROPFAIL" line (Printf.sprintf "fold %d: not a sorted disjoint split of the input (verified checker)" i)) impl
              | "SWOR" ->
                let count = (match String.split_on_char ',' f.(0) with c :: _ -> int_of_string (trim c) | _ -> failwith "args") in
                let samples = zlist_of_string f.(1) and perm = zlist_of_string f.(2) in
                let n = List.length samples in
                incr total;
                if not (perm_okb perm (nat_of_int n)) then report "ORACLE" line "std::shuffle's answer is not a permutation of 0..n-1";
                let model = sample_without (shuffle_by (fun _ _ -> perm)) (z_of_int 0) O (z_of_int count) samples in
                let impl = zlist_of_string rhs in
                if not (zlist_eq model impl) then report "MISMATCH" line ("model: " ^ string_of_zlist model);
                incr propchecks;
                if not (strictb impl && List.length impl = count && (n * count > 250000 || membersb impl samples)) then
                  report "PROPFAIL" line "not `count` strictly increasing members of the input (verified checker)"
              | "SWR" | "SWRW" ->
                let count = (match String.split_on_char ',' f.(0) with c :: _ -> int_of_string (trim c) | _ -> failwith "args") in
                let samples = zlist_of_string f.(1) in
                let n = List.length samples in
                let weighted = (op = "SWRW") in
                let picks = zlist_of_string f.(if weighted then 3 else 2) in
                incr total;
                if List.length picks <> count then report "ORACLE" line "number of draws differs from count";
                if not weighted then begin
                  if not (picks_in_rangeb (z_of_int n) (z_of_int count) picks) then
                    report "ORACLE" line "uniform draw outside [lo, hi] of make_udist (translated bounds)"
                end;
                let model = sample_with picks samples in
                let impl = zlist_of_string rhs in
                if not (zlist_eq model impl) then report "MISMATCH" line ("model: " ^ string_of_zlist model);
                incr propchecks;
                if not (sortedb impl && List.length impl = count && (n * count > 250000 || membersb impl samples)) then
                  report "PROPFAIL" line "not `count` sorted members of the input (verified checker)";
                if weighted then begin
                  let wpos = List.map (fun t -> float_of_string (trim t) > 0.0) (String.split_on_char ',' f.(2)) in
                  if not (picks_weightedb wpos picks) then
                    report "ORACLE" line "std::discrete_distribution drew a position of zero weight (or out of range)";
                  (* the property itself on the implementation's output: no returned index has zero weight *)
                  let tbl = Hashtbl.create 64 in
                  List.iter2 (fun s w -> Hashtbl.replace tbl (int_of_z s) w) samples wpos;
                  List.iter (fun x ->
                      match Hashtbl.find_opt tbl (int_of_z x) with
                      | Some true -> ()
                      | _ -> report "PROPFAIL" line (Printf.sprintf "returned index %d has zero weight (or is no member)" (int_of_z x))) impl
                end
              | "BALLX" ->
                (* the element-wise statement of sample_from_ball recomputed by the binary64 twin from the oracle inputs of the
                   run (deviates, z = pow(unif, 1/n), the Eigen norm), compared bit for bit; the executable hypotheses of
                   C12_fl_ball_twin (ball_ok: finite, radius > 0, 0 <= z <= 1, nrm > 0, no underflow; squares_nu) are evaluated *)
                let (n, radius) = (match String.split_on_char ',' f.(0) with a :: b :: _ -> (int_of_string (trim a), float_of_string (trim b)) | _ -> failwith "args") in
                let x0 = floats f.(1) and u = floats f.(2) in
                let (z, nrm) = (match floats f.(3) with a :: b :: _ -> (a, b) | _ -> failwith "z,nrm") in
                incr total; incr ball_checked;
                if List.length x0 <> n || List.length u <> n then report "MISMATCH" line "x0 / u do not have n components";
                let model = List.map tf (ball_twin (ffl x0) (ffl u) (ff radius) (ff z) (ff nrm)) in
                if trim rhs = "nonfinite" then report "MISMATCH" line ("implementation returned a non-finite point; twin: " ^ hexl model)
                else begin
                  let impl = floats rhs in
                  if List.length impl <> List.length model || not (List.for_all2 (fun a b -> bits a = bits b) impl model) then
                    report "MISMATCH" line ("binary64 twin of x0 + radius * z * u / nrm: " ^ hexl model)
                end;
                if not (ball_ok (ffl x0) (ffl u) (ff radius) (ff z) (ff nrm)) then
                  report "ORACLE" line "hypothesis ball_ok of C12_fl_ball_twin is false on the observed values (non-finite value, radius <= 0, z outside [0,1], nrm <= 0 or an underflow)";
                if not (squares_nu (ffl u)) then report "ORACLE" line "hypothesis squares_nu is false: a square u_k * u_k underflowed or is not finite"
              | "GBKINDS" ->
                (match ints f.(0) with
                 | [a; b; c; d; e] ->
                   if [a; b; c; d; e] <> List.map int_of_z [k_off; k_subsample; k_bootstrap; k_wei_loss; k_wei_grad] then
                     report "MISMATCH" line "the enumerators of gboost_subsample differ from the model's k_off .. k_wei_grad"
                 | _ -> report "MISMATCH" line "GBKINDS: five values expected")
              | "GBS" ->
                let (kind, seed, ratio) = (match String.split_on_char ',' f.(0) with
                    | a :: b :: c :: _ -> (int_of_string (trim a), int_of_string (trim b), float_of_string (trim c)) | _ -> failwith "args") in
                let samples = zlist_of_string f.(1) in
                let losses = floats f.(2) and gmag = floats f.(3) in
                let oracle = if Array.length f > 4 then zlist_of_string f.(4) else [] in
                let n = List.length samples in
                let zk = z_of_int kind and zn = z_of_int n in
                incr total; incr gb_checked;
                let call = int_of_z (gb_call zk) in
                (* layout of the weight loops / allocation (translated kernels) *)
                List.iter (fun i -> if not (gb_layoutb zk zn (z_of_int i)) then
                              report "MISMATCH" line (Printf.sprintf "weight loop layout / allocation inconsistent at i=%d (translated kernels)" i)) [0; n - 1];
                let tbl = [[]; ffl losses] in
                let w = gb_weights zk samples tbl (ffl gmag) in
                let ratio = ff ratio in
                let perm = if call = 1 then oracle else [] and picks = if call = 1 then [] else oracle in
                if call = 1 && not (perm_okb perm (nat_of_int n)) then report "ORACLE" line "std::shuffle's answer is not a permutation of 0..n-1";
                if not (gb_contractb zk ratio samples w picks) then
                  report "ORACLE" line "contract of the distribution violated (uniform draw out of range / zero-weight position drawn / number of draws != count)";
                let model = gb_sample (shuffle_by (fun _ _ -> perm)) (z_of_int seed) O zk ratio samples picks in
                let impl = zlist_of_string rhs in
                if not (zlist_eq model impl) then report "MISMATCH" line ("model of gboost::sampler_t::sample: " ^ string_of_zlist model);
                let count = int_of_z (gb_count ratio zn) in
                (* the proved clauses on what the implementation returned *)
                incr propchecks;
                if kind = int_of_z k_off then begin
                  if not (zlist_eq impl samples) then report "PROPFAIL" line "off: the result is not the input"
                end else begin
                  if List.length impl <> count then report "PROPFAIL" line (Printf.sprintf "%d samples returned, count (binary64 product, truncated) = %d" (List.length impl) count);
                  if not (sortedb impl) then report "PROPFAIL" line "result not sorted";
                  if not (n * List.length impl > 250000 || membersb impl samples) then report "PROPFAIL" line "a returned index is not a member of the input";
                  if kind = int_of_z k_subsample && not (strictb impl) then report "PROPFAIL" line "subsample: repeated index";
                  if kind = int_of_z k_wei_loss || kind = int_of_z k_wei_grad then begin
                    let row = Array.of_list (if kind = int_of_z k_wei_loss then losses else gmag) in
                    List.iter (fun x -> let i = int_of_z x in
                                if not (i >= 0 && i < Array.length row && row.(i) > 0.0) then
                                  report "PROPFAIL" line (Printf.sprintf "returned sample %d has a zero weight (its own loss / gradient magnitude)" i)) impl
                  end
                end
              | _ -> ())
           with Failure m | Invalid_argument m -> report "MISMATCH" line ("driver could not parse/evaluate the line: " ^ m)
              | Not_found -> report "MISMATCH" line "driver: Not_found")
         | _ -> ())
    done
  with End_of_file -> ());
  Printf.printf "MODEL-DONE checked=%d mismatches=%d propchecks=%d ball=%d gboost=%d\n" !total !mism !propchecks !ball_checked !gb_checked
