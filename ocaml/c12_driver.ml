(* C12 driver: reads the implementation's lines on stdin
     KFOLD seed,folds | samples | perm = tr ; va / tr ; va / ...
     RANDOM seed,folds,perc | samples | perm / perm / ... = tr ; va / ...
     SWOR count,via,state | samples | perm = result
     SWR count,via,state | samples | picks = result
     SWRW count,via,state | samples | weights(hex) | picks = result
   recomputes every result with the extracted model from the inputs and the oracle answers of the C++ standard
   library (MISMATCH lines), checks the oracle contracts that the theorems assume (ORACLE lines, counted as
   mismatches) and applies the verified checkers of C12_Defs to what the implementation returned (PROPFAIL). *)
let mism = ref 0
let total = ref 0
let propchecks = ref 0
let clip s = if String.length s > 1500 then String.sub s 0 1500 ^ "..." else s
let report kind line msg = incr mism; Printf.printf "%s %s // %s\n" kind (clip line) (clip msg)

let pairs_of_string (s : string) : (z list * z list) list =
  List.map (fun p ->
      match String.split_on_char ';' p with
      | [a; b] -> (zlist_of_string a, zlist_of_string b)
      | _ -> failwith "bad pair") (String.split_on_char '/' s)

let string_of_pairs (l : (z list * z list) list) : string =
  String.concat " / " (List.map (fun (a, b) -> string_of_zlist a ^ " ; " ^ string_of_zlist b) l)

let rec zlist_eq (a : z list) (b : z list) = list_eqb a b
let pairs_eq a b = List.length a = List.length b && List.for_all2 (fun (a1, a2) (b1, b2) -> zlist_eq a1 b1 && zlist_eq a2 b2) a b

let ints s = List.map (fun t -> int_of_string (String.trim t)) (List.filter (fun t -> String.trim t <> "") (String.split_on_char ',' s))

let () =
  (try
    while true do
      let line = input_line stdin in
      match String.index_opt line ' ' with
      | None -> ()
      | Some sp ->
        let op = String.sub line 0 sp in
        let rest = String.sub line (sp + 1) (String.length line - sp - 1) in
        (match split_str " = " rest with
         | [lhs; rhs] ->
           let f = Array.of_list (List.map trim (split_str " | " lhs)) in
           (try
             (match op with
              | "KFOLD" ->
                let (seed, folds) = (match ints f.(0) with [a; b] -> (a, b) | _ -> failwith "args") in
                let samples = zlist_of_string f.(1) and perm = zlist_of_string f.(2) in
                let n = List.length samples in
                incr total;
                if not (perm_okb perm (nat_of_int n)) then report "ORACLE" line "std::shuffle's answer is not a permutation of 0..n-1";
                let shuffle = shuffle_by (fun _ c -> if c = O then perm else []) in
                let model = kfold shuffle (z_of_int seed) (z_of_int folds) samples in
                let impl = pairs_of_string rhs in
                if not (pairs_eq model impl) then report "MISMATCH" line ("model: " ^ string_of_pairs model);
                for fold = 0 to folds - 1 do
                  if not (kfold_layoutb (z_of_int n) (z_of_int folds) (z_of_int fold)) then
                    report "MISMATCH" line (Printf.sprintf "segment layout of fold %d is not a tiling (translated kernels)" fold)
                done;
                List.iteri (fun i (tr, va) ->
                    incr propchecks;
                    if not (split_okb samples tr va) then
                      report "PROPFAIL" line (Printf.sprintf "fold %d: not a sorted disjoint split of the input (verified checker)" i)) impl
              | "RANDOM" ->
                let (seed, folds, perc) = (match ints f.(0) with [a; b; c] -> (a, b, c) | _ -> failwith "args") in
                let samples = zlist_of_string f.(1) in
                let perms = Array.of_list (List.map zlist_of_string (String.split_on_char '/' f.(2))) in
                let n = List.length samples in
                incr total;
                Array.iter (fun p -> if not (perm_okb p (nat_of_int n)) then report "ORACLE" line "std::shuffle's answer is not a permutation of 0..n-1") perms;
                let shuffle = shuffle_by (fun _ c -> let i = int_of_nat c in if i < Array.length perms then perms.(i) else []) in
                let model = random_split shuffle (z_of_int seed) (z_of_int folds) (z_of_int perc) samples in
                let impl = pairs_of_string rhs in
                if not (pairs_eq model impl) then report "MISMATCH" line ("model: " ^ string_of_pairs model);
                if not (random_layoutb (z_of_int n) (z_of_int folds) (z_of_int 0) (z_of_int perc)) then
                  report "MISMATCH" line "segment layout of the random splitter is inconsistent (translated kernels)";
                List.iteri (fun i (tr, va) ->
                    incr propchecks;
                    if not (split_okb samples tr va) then
                      report "PROPFAIL" line (Printf.sprintf "fold %d: not a sorted disjoint split of the input (verified checker)" i)) impl
              | "SWOR" ->
                let count = (match String.split_on_char ',' f.(0) with c :: _ -> int_of_string (trim c) | _ -> failwith "args") in
                let samples = zlist_of_string f.(1) and perm = zlist_of_string f.(2) in
                let n = List.length samples in
                incr total;
                if not (perm_okb perm (nat_of_int n)) then report "ORACLE" line "std::shuffle's answer is not a permutation of 0..n-1";
                let model = sample_without (shuffle_by (fun _ _ -> perm)) (z_of_int 0) O (z_of_int count) samples in
                let impl = zlist_of_string rhs in
                if not (zlist_eq model impl) then report "MISMATCH" line ("model: " ^ string_of_zlist model);
                incr propchecks;
                if not (strictb impl && List.length impl = count && (n * count > 250000 || membersb impl samples)) then
                  report "PROPFAIL" line "not `count` strictly increasing members of the input (verified checker)"
              | "SWR" | "SWRW" ->
                let count = (match String.split_on_char ',' f.(0) with c :: _ -> int_of_string (trim c) | _ -> failwith "args") in
                let samples = zlist_of_string f.(1) in
                let n = List.length samples in
                let weighted = (op = "SWRW") in
                let picks = zlist_of_string f.(if weighted then 3 else 2) in
                incr total;
                if List.length picks <> count then report "ORACLE" line "number of draws differs from count";
                if not weighted then begin
                  if not (picks_in_rangeb (z_of_int n) (z_of_int count) picks) then
                    report "ORACLE" line "uniform draw outside [lo, hi] of make_udist (translated bounds)"
                end;
                let model = sample_with picks samples in
                let impl = zlist_of_string rhs in
                if not (zlist_eq model impl) then report "MISMATCH" line ("model: " ^ string_of_zlist model);
                incr propchecks;
                if not (sortedb impl && List.length impl = count && (n * count > 250000 || membersb impl samples)) then
                  report "PROPFAIL" line "not `count` sorted members of the input (verified checker)";
                if weighted then begin
                  let wpos = List.map (fun t -> float_of_string (trim t) > 0.0) (String.split_on_char ',' f.(2)) in
                  if not (picks_weightedb wpos picks) then
                    report "ORACLE" line "std::discrete_distribution drew a position of zero weight (or out of range)";
                  (* the property itself on the implementation's output: no returned index has zero weight *)
                  let tbl = Hashtbl.create 64 in
                  List.iter2 (fun s w -> Hashtbl.replace tbl (int_of_z s) w) samples wpos;
                  List.iter (fun x ->
                      match Hashtbl.find_opt tbl (int_of_z x) with
                      | Some true -> ()
                      | _ -> report "PROPFAIL" line (Printf.sprintf "returned index %d has zero weight (or is no member)" (int_of_z x))) impl
                end
              | _ -> ())
           with Failure m | Invalid_argument m -> report "MISMATCH" line ("driver could not parse/evaluate the line: " ^ m)
              | Not_found -> report "MISMATCH" line "driver: Not_found")
         | _ -> ())
    done
  with End_of_file -> ());
  Printf.printf "MODEL-DONE checked=%d mismatches=%d propchecks=%d\n" !total !mism !propchecks
