(* C15 driver: reads the harness lines on stdin and recomputes with the extracted codec model:
     VERSION a b c / FTYPES n1,n2,.. / IDS kind id1,id2,.. / WLIDS id:k,...      -- environment of the formats
     OBJ spec | hex | truncation verdicts | pos:byte:verdict;... | info
   For every OBJ line: the model reader must accept the bytes written by the implementation, consume all of them,
   re-encode them identically, and decode to the object the implementation dumped (info); on every strict prefix and
   on every corrupted copy the model's accept/reject verdict must equal the implementation's.
   MISMATCH = model and implementation disagree; PROPFAIL = the implementation accepted what the property forbids. *)
let mism = ref 0
let total = ref 0
let nverd = ref 0
let report kind line msg =
  incr mism;
  let l = if String.length line > 400 then String.sub line 0 400 ^ "..." else line in
  Printf.printf "%s %s // %s\n" kind l msg

(* ---- conversions -------------------------------------------------------------------------------------------- *)
let n_of_int (b : int) : n = if b = 0 then N0 else Npos (pos_of_int b)
let int_of_n (x : n) : int = match x with N0 -> 0 | Npos p -> int_of_pos p
let hexval c = match c with '0' .. '9' -> Char.code c - 48 | 'a' .. 'f' -> Char.code c - 87 | 'A' .. 'F' -> Char.code c - 55 | _ -> failwith "hex"
let bytes_of_hex (s : string) : int array =
  Array.init (String.length s / 2) (fun i -> 16 * hexval s.[2 * i] + hexval s.[2 * i + 1])
let nlist_of_sub (a : int array) (len : int) : n list =
  let rec go i acc = if i < 0 then acc else go (i - 1) (n_of_int a.(i) :: acc) in
  go (len - 1) []
let nlist_of_string (s : string) : n list = List.init (String.length s) (fun i -> n_of_int (Char.code s.[i]))
(* hexadecimal number (most significant digit first) -> N, without going through native ints (64-bit values) *)
let n_of_hexnum (s : string) : n =
  let bits = ref [] in (* most significant first while reading; we want LSB first at the end *)
  String.iter (fun c -> let d = hexval c in bits := (d land 1 = 1) :: (d land 2 = 2) :: (d land 4 = 4) :: (d land 8 = 8) :: !bits) s;
  (* !bits is now LSB first *)
  let rec strip = function [] -> [] | l -> (match List.rev l with false :: r -> strip (List.rev r) | _ -> l) in
  let rec pos = function [true] -> XH | true :: r -> XI (pos r) | false :: r -> XO (pos r) | [] -> XH in
  match strip !bits with [] -> N0 | l -> Npos (pos l)
let rec bits_of_pos p = match p with XH -> [true] | XO q -> false :: bits_of_pos q | XI q -> true :: bits_of_pos q
let hexnum_of_n (x : n) : string =
  match x with
  | N0 -> "0"
  | Npos p ->
    let rec go bits acc = match bits with
      | [] -> acc
      | _ ->
        let take4 = List.filteri (fun i _ -> i < 4) bits and rest = List.filteri (fun i _ -> i >= 4) bits in
        let d = List.fold_left (fun (v, w) b -> ((if b then v + w else v), 2 * w)) (0, 1) take4 |> Stdlib.fst in
        go rest (Printf.sprintf "%x" d ^ acc) in
    go (bits_of_pos p) ""

(* ---- environment -------------------------------------------------------------------------------------------- *)
let cur = ref ((z_of_int 0, z_of_int 0), z_of_int 0)
let ftypes : n list list ref = ref []
let ids : (string, string list) Hashtbl.t = Hashtbl.create 8
let wlids : (n list * n) list ref = ref []
let env () = { e_version = !cur; e_ftypes = !ftypes }

let fmt_of_spec (spec : string) : fmt option =
  match String.split_on_char ':' spec with
  | "tensor" :: r :: w :: s :: _ ->
    Some (tensor_fmt { t_rank = nat_of_int (int_of_string r); t_width = nat_of_int (int_of_string w); t_signed = (s = "1") })
  | ["param"] -> Some param_fmt
  | ["config"] -> Some (config_fmt !cur)
  | ["feature"] -> Some (feature_fmt !ftypes)
  | ["object"; "wlearner"] -> Some (object_fmt (wlearner_table (env ()) !wlids))
  | ["object"; "linear"] ->
    (match Hashtbl.find_opt ids "linear" with
     | Some l -> Some (object_fmt (List.map (fun id -> (nlist_of_string id, linear_fmt (env ()))) l))
     | None -> None)
  | ["object"; kind] ->
    (match Hashtbl.find_opt ids kind with
     | Some l -> Some (plain_object_fmt !cur (List.map nlist_of_string l))
     | None -> None)
  | ["linear"] -> Some (linear_fmt (env ()))
  | ["gboost"] -> Some (gboost_fmt (env ()) !wlids)
  | ["wlearner"; k] ->
    (match List.assoc_opt (n_of_int (int_of_string k)) (List.map (fun (a, b) -> (b, a)) !wlids) with
     | _ -> (match int_of_string k with
         | 0 -> Some (affine_fmt (env ())) | 1 -> Some (stump_fmt (env ())) | 2 -> Some (hinge_fmt (env ()))
         | 3 -> Some (table_fmt (env ())) | 4 -> Some (dtree_fmt (env ())) | _ -> None))
  | _ -> None

let info_fields (info : string) : (string * string) list =
  List.filter_map (fun kv -> match String.index_opt kv '=' with
      | Some i -> Some (String.sub kv 0 i, String.sub kv (i + 1) (String.length kv - i - 1))
      | None -> None) (String.split_on_char ';' info)

let check_info line spec (v : val0) (info : string) =
  let fs = info_fields info in
  let get k = List.assoc_opt k fs in
  let kind = List.hd (String.split_on_char ':' spec) in
  (match kind with
   | "tensor" ->
     let h = vfst v in
     (match get "dims" with
      | Some d ->
        let want = List.map (fun t -> int_of_string (String.trim t)) (List.filter (fun t -> t <> "") (String.split_on_char ',' d)) in
        let got = List.map int_of_n (hdr_rawdims h) in
        incr total;
        if want <> got then report "MISMATCH" line ("model decodes dims " ^ String.concat "," (List.map string_of_int got))
      | None -> ());
     (match get "elems" with
      | Some e ->
        let want = List.filter (fun t -> t <> "") (String.split_on_char ',' e) in
        let got = List.map hexnum_of_n (tensor_elems v) in
        incr total;
        if want <> got then report "MISMATCH" line "model decodes different elements than the tensor holds"
      | None -> ());
     (match get "hash" with
      | Some hx ->
        incr total;
        if hexnum_of_n (hdr_hash h) <> hx then report "MISMATCH" line ("model hash " ^ hexnum_of_n (hdr_hash h))
      | None -> ())
   | "param" ->
     (match get "ptype" with
      | Some t -> incr total;
        if int_of_z (param_type (vfst v)) <> int_of_string t then report "MISMATCH" line "model decodes another parameter type"
      | None -> ());
     (match get "name" with
      | Some nm -> incr total;
        if vstring (vsnd (vfst v)) <> nlist_of_sub (bytes_of_hex nm) (String.length nm / 2) then report "MISMATCH" line "model decodes another parameter name"
      | None -> ())
   | "object" ->
     (match get "id" with
      | Some id -> incr total;
        if vstring (vfst v) <> nlist_of_string id then report "MISMATCH" line "model decodes another type id"
      | None -> ())
   | _ -> ())

(* ---- extension: the STATEFUL readers (C15_Dest_Defs) ---------------------------------------------------------------
   REUSE spec | destination bytes before | stream | verdict | destination bytes afterwards
     the extracted read_into (decisions of the current source) applied to the state the destination bytes decode to must
     accept, consume the stream, and leave a state that serialises to exactly the bytes the library reports;
     the same line is run through the two refuted variants (early exit on empty strings, resize skipped on an equal
     element count): the number of lines on which they differ from the library measures how well the generator aims at
     the hazard (reported, never an error)
   HALF spec | destination before | truncated stream | verdict | destination afterwards   (strings and tensors)
     failure must be reported by both; the half-written state must be the one [rd] computes (tensors whose element
     count changes get an uninitialised buffer: only dims and the bytes that arrived are compared) *)
let nreuse = ref 0
let nhalf = ref 0
let hit_early = ref 0
let hit_skip = ref 0
let blank_proto (_ : n list) : val0 = VU

let dfmt_of_spec (spec : string) : dfmt option =
  match String.split_on_char ':' spec with
  | "tensor" :: r :: w :: s :: _ ->
    Some (D_tensor { t_rank = nat_of_int (int_of_string r); t_width = nat_of_int (int_of_string w); t_signed = (s = "1") })
  | ["string"] -> Some d_string
  | ["param"] -> Some d_param
  | ["config"] -> Some (d_config !cur)
  | ["feature"] -> Some (d_feature !ftypes)
  | ["object"; "wlearner"] -> Some (d_object blank_proto (d_wlearner_table (env ()) !wlids))
  | ["object"; "linear"] ->
    (match Hashtbl.find_opt ids "linear" with
     | Some l -> Some (d_object blank_proto (List.map (fun id -> (nlist_of_string id, d_linear (env ()))) l))
     | None -> None)
  | ["object"; kind] ->
    (match Hashtbl.find_opt ids kind with
     | Some l -> Some (d_plain_object blank_proto !cur (List.map nlist_of_string l))
     | None -> None)
  | ["linear"] -> Some (d_linear (env ()))
  | ["gboost"] -> Some (d_gboost blank_proto (env ()) !wlids)
  | ["wlearner"; k] ->
    (match int_of_string k with
     | 0 -> Some (d_affine (env ())) | 1 -> Some (d_stump (env ())) | 2 -> Some (d_hinge (env ()))
     | 3 -> Some (d_table (env ())) | 4 -> Some (d_dtree (env ())) | _ -> None)
  | _ -> None

let nlist_of_hex (h : string) : n list = let a = bytes_of_hex h in nlist_of_sub a (Array.length a)
let short_line line = if String.length line > 3000 then String.sub line 0 3000 ^ "..." else line

let handle_reuse line rest =
  match List.map trim (split_str " | " rest) with
  | [spec; dest; stream; verdict; again] ->
    (match dfmt_of_spec spec with
     | None -> report "MISMATCH" line "unknown format spec (driver, REUSE)"
     | Some f ->
       incr nreuse; incr total;
       let d = nlist_of_hex dest and bs = nlist_of_hex stream in
       let faithful = reuse_result (src_policy zero_junk) f d bs in
       (match faithful with
        | None ->
          if verdict = "A" then report "MISMATCH" (short_line line) "stateful model reader rejects, the implementation accepted"
        | Some (out, r) ->
          if verdict <> "A" then report "MISMATCH" (short_line line) "stateful model reader accepts, the implementation reported failure"
          else begin
            if r <> [] then report "MISMATCH" (short_line line) "stateful model reader leaves unread bytes";
            if out <> nlist_of_hex again then
              report "MISMATCH" (short_line line) "the destination of the stateful model reader serialises to other bytes than the library's destination"
          end);
       (* the refuted variants on the same line *)
       if reuse_result (early_exit_policy zero_junk) f d bs <> faithful then incr hit_early;
       if reuse_result (skip_resize_policy zero_junk) f d bs <> faithful then incr hit_skip)
  | _ -> report "MISMATCH" line "malformed REUSE line"

let handle_half line rest =
  match List.map trim (split_str " | " rest) with
  | [spec; dest; stream; verdict; after] ->
    (match dfmt_of_spec spec with
     | None -> report "MISMATCH" line "unknown format spec (driver, HALF)"
     | Some f ->
       incr nhalf; incr total;
       let d = nlist_of_hex dest and bs = nlist_of_hex stream in
       let (st, good) = reuse_state (src_policy zero_junk) f d bs in
       let impl = Array.of_list (nlist_of_hex after) and model = Array.of_list st in
       if verdict = "A" then report "PROPFAIL" (short_line line) "the implementation accepted a strict prefix into a used destination";
       if good <> (verdict = "A") then report "MISMATCH" (short_line line) "stateful model and implementation disagree on the verdict of a truncated stream"
       else begin
         let same_range lo hi =
           let ok = ref true in
           for i = lo to hi - 1 do
             if i >= Array.length impl || i >= Array.length model || impl.(i) <> model.(i) then ok := false
           done; !ok in
         let whole () = Array.length impl = Array.length model && same_range 0 (Array.length impl) in
         let agree =
           match String.split_on_char ':' spec with
           | "tensor" :: r :: _ ->
             let hdr = 20 + 4 * int_of_string r in
             let cut = List.length bs in
             if String.length dest = String.length after then whole ()   (* same element count: the buffer was kept *)
             else Array.length impl = Array.length model && same_range 8 (hdr - 12) && (cut <= hdr || same_range hdr cut)
           | _ -> whole () in
         if not agree then
           report "MISMATCH" (short_line line) ("half-written destination: the model computes " ^
                                               String.concat "" (List.map (fun x -> Printf.sprintf "%02x" (int_of_n x)) st))
       end)
  | _ -> report "MISMATCH" line "malformed HALF line"

let accepts_arr f (a : int array) (len : int) : bool =
  match dec f (nlist_of_sub a len) with Some _ -> true | None -> false

let handle_obj line rest =
  match List.map trim (split_str " | " rest) with
  | spec :: hex :: trunc :: corr :: info_l ->
    let info = match info_l with i :: _ -> i | [] -> "" in
    (match fmt_of_spec spec with
     | None -> report "MISMATCH" line "unknown format spec (driver)"
     | Some f ->
       let a = bytes_of_hex hex in
       let n = Array.length a in
       let bs = nlist_of_sub a n in
       incr total;
       (match dec f bs with
        | None -> report "MISMATCH" line "model reader rejects the stream written by the implementation"
        | Some (_, _ :: _) -> report "MISMATCH" line "model reader leaves unread bytes"
        | Some (v, []) ->
          if enc f v <> bs then report "MISMATCH" line "model writer does not reproduce the stream";
          check_info line spec v info);
       (* every strict prefix *)
       if trunc <> "-" then begin
         if String.length trunc <> n then report "MISMATCH" line "truncation verdict string has the wrong length";
         for k = 0 to min n (String.length trunc) - 1 do
           let impl = trunc.[k] = 'A' in
           let model = accepts_arr f a k in
           incr nverd;
           if impl then report "PROPFAIL" (Printf.sprintf "OBJ %s | %s" spec hex) (Printf.sprintf "implementation accepted the strict prefix of %d bytes" k);
           if impl <> model then report "MISMATCH" (Printf.sprintf "OBJ %s | %s" spec hex) (Printf.sprintf "prefix of %d bytes: implementation %c, model %s" k trunc.[k] (if model then "accepts" else "rejects"))
         done
       end;
       (* corruptions *)
       if corr <> "" then
         List.iter (fun c ->
             match String.split_on_char ':' c with
             | [p; b; v] ->
               let p = int_of_string p and b = int_of_string b in
               let old = a.(p) in
               a.(p) <- b;
               let model = accepts_arr f a n in
               a.(p) <- old;
               incr nverd;
               let impl = v = "A" in
               if impl <> model then report "MISMATCH" (Printf.sprintf "OBJ %s | %s" spec hex) (Printf.sprintf "byte %d := %d: implementation %s, model %s" p b v (if model then "accepts" else "rejects"))
             | _ -> ()) (String.split_on_char ';' corr))
  | _ -> report "MISMATCH" line "malformed OBJ line"

let () =
  (try
     while true do
       let line = input_line stdin in
       match String.index_opt line ' ' with
       | None -> ()
       | Some sp ->
         let op = String.sub line 0 sp in
         let rest = String.sub line (sp + 1) (String.length line - sp - 1) in
         (match op with
          | "VERSION" ->
            (match List.map int_of_string (List.filter (fun t -> t <> "") (String.split_on_char ' ' rest)) with
             | [a; b; c] -> cur := ((z_of_int a, z_of_int b), z_of_int c)
             | _ -> ())
          | "FTYPES" -> ftypes := List.map nlist_of_string (String.split_on_char ',' (trim rest))
          | "IDS" ->
            (match String.index_opt rest ' ' with
             | Some i -> Hashtbl.replace ids (String.sub rest 0 i) (String.split_on_char ',' (trim (String.sub rest (i + 1) (String.length rest - i - 1))))
             | None -> ())
          | "WLIDS" ->
            wlids := List.filter_map (fun t -> match String.rindex_opt t ':' with
                | Some i -> Some (nlist_of_string (String.sub t 0 i), n_of_int (int_of_string (String.sub t (i + 1) (String.length t - i - 1))))
                | None -> None) (String.split_on_char ',' (trim rest))
          | "OBJ" -> handle_obj line rest
          | "REUSE" -> handle_reuse line rest
          | "HALF" -> handle_half line rest
          | _ -> ())
     done
   with End_of_file -> ());
  Printf.printf "MODEL-DONE checked=%d verdicts=%d mismatches=%d reuse=%d half=%d hit_early=%d hit_skip=%d\n" (!total + !nverd) !nverd !mism
    !nreuse !nhalf !hit_early !hit_skip
