(* C10 driver: reads the lines of harness/c10_wlearner.cpp on stdin and recomputes with the extracted exact-rational
   model (C10_model, Z mapped to Zarith):
     FIT (rss criterion; stump, hinge, affine, dense / k-best / discrete-step tables): the model's optimum over the
         hypothesis class (proved minimal in Properties_C10) vs the returned score, within 1e-9 * sum r^2; and the exact
         RSS of the fitted predictor (spec function rss_of) vs the score (PROPFAIL reproduce); for stump / hinge and every criterion
         the fitted threshold must be one of the model's mid-point thresholds of the fitted feature (MISMATCH threshold);
     PRED / SPLIT / SCALE: predict, group, scale of the learner model on the parameters the implementation fitted
         (exact for groups and table entries, 1e-12 relative to the summed terms for w * x + b);
     MERGE: the model's merge (incl. the early break) of the serialised learners vs the merged list of the library.
   Prints `MISMATCH <what> <id> ...` / `PROPFAIL <what> <id> ...` and a final `MODEL-DONE checked=<n> mismatches=<m>`.
   NB: compiled by tools/checks/c10.py after `open C10_model` (no zutil.ml.inc: Z is not an inductive here). *)
module B = Big_int_Z

let mism = ref 0
let total = ref 0
let printed = ref 0
let report kind what id detail =
  Stdlib.incr mism;
  Stdlib.incr printed;
  if !printed <= 100 then Printf.printf "%s %s %s %s\n" kind what id detail

(* ---- exact conversion of doubles ---------------------------------------------------------------- *)
let qz = { qnum = B.zero_big_int; qden = B.unit_big_int }
let q_of_int n = { qnum = B.big_int_of_int n; qden = B.unit_big_int }
let q_of_float (x : float) : q =
  if x = 0.0 then qz
  else begin
    let (m, e) = Float.frexp x in
    let mi = Int64.of_float (Float.ldexp m 53) in
    let rec strip mi e = if Int64.rem mi 2L = 0L then strip (Int64.div mi 2L) (e + 1) else (mi, e) in
    let (mi, e) = strip mi (e - 53) in
    let n = B.big_int_of_int64 mi in
    if e >= 0 then { qnum = B.shift_left_big_int n e; qden = B.unit_big_int }
    else { qnum = n; qden = B.shift_left_big_int B.unit_big_int (- e) }
  end
let float_of_q (x : q) : float = Q.to_float (Q.make x.qnum x.qden)
(* the driver's own arithmetic goes through Zarith's normalising Q (the extracted Qred is a slow binary gcd) *)
let toQ (x : q) : Q.t = Q.make x.qnum x.qden
let ofQ (x : Q.t) : q = { qnum = Q.num x; qden = Q.den x }
let ( +/ ) a b = ofQ (Q.add (toQ a) (toQ b)) and ( -/ ) a b = ofQ (Q.sub (toQ a) (toQ b)) and ( */ ) a b = ofQ (Q.mul (toQ a) (toQ b))
let qabs x = ofQ (Q.abs (toQ x))
let close a b tol = Q.leq (Q.abs (Q.sub (toQ a) (toQ b))) (toQ tol)
let q_of_ratio a b = { qnum = B.big_int_of_int a; qden = B.big_int_of_int b }
let rel9 = q_of_ratio 1 1000000000
let rel12 = q_of_ratio 1 1000000000000
let tiny = { qnum = B.unit_big_int; qden = B.shift_left_big_int B.unit_big_int 200 }

let parse_float s = let s = String.trim s in
  if s = "nan" then Float.nan else if s = "inf" then Float.infinity else if s = "-inf" then Float.neg_infinity
  else float_of_string s
let split c s = if s = "" then [] else String.split_on_char c s
let floats_of s = List.map parse_float (split ',' (String.trim s))
let qs_of s = List.map (fun f -> q_of_float f) (floats_of s)
let rec nat_of_int n = if n <= 0 then O else S (nat_of_int (n - 1))
let split_str sep s =
  let n = String.length sep and m = String.length s in
  let rec go i start acc =
    if i + n > m then List.rev (String.sub s start (m - start) :: acc)
    else if String.sub s i n = sep then go (i + n) (i + n) (String.sub s start (i - start) :: acc)
    else go (i + 1) start acc in
  go 0 0 []

(* ---- per-case state -------------------------------------------------------------------------------- *)
type fcol = FS of float array | FC of string array | FX
let floor_ = ref qz
let cur_id = ref ""
let cur_no = ref 1
let cur_n = ref 0
let feats : (int, fcol) Hashtbl.t = Hashtbl.create 16
let resid : q list array ref = ref [||]       (* residual vector per selected sample *)
let sumr2 = ref qz
let learners : (string, string) Hashtbl.t = Hashtbl.create 64    (* "id name crit" -> W *)

let nfeatures () = Hashtbl.length feats
let scalar_cols () =
  let l = Hashtbl.fold (fun k v acc -> match v with FS a -> (k, a) :: acc | _ -> acc) feats [] in
  List.map snd (List.sort compare l)
let class_cols () =
  let l = Hashtbl.fold (fun k v acc -> match v with FC a -> (k, a) :: acc | _ -> acc) feats [] in
  List.map snd (List.sort compare l)
let scol_of (a : float array) = List.mapi (fun i x -> ((if Float.is_nan x then None else Some (q_of_float x)), !resid.(i))) (Array.to_list a)
let ccol_of (a : string array) = List.mapi (fun i h -> ((if h = "-1" then None else Some (B.big_int_of_string h)), !resid.(i))) (Array.to_list a)

let sample_cache : (int, fval list) Hashtbl.t = Hashtbl.create 64
let sample_of_raw (i : int) : fval list =
  List.init (nfeatures ()) (fun f ->
      match Hashtbl.find_opt feats f with
      | Some (FS a) -> if Float.is_nan a.(i) then FMiss else FNum (q_of_float a.(i))
      | Some (FC a) -> if a.(i) = "-1" then FMiss else FCls (B.big_int_of_string a.(i))
      | _ -> FMiss)
let sample_of (i : int) : fval list =
  match Hashtbl.find_opt sample_cache i with
  | Some s -> s
  | None -> let s = sample_of_raw i in Hashtbl.replace sample_cache i s; s

(* ---- learners ------------------------------------------------------------------------------------------ *)
let tables_of s = List.map qs_of (split '/' s)
let row k t = match List.nth_opt t k with Some r -> r | None -> []
let parse_w (w : string) : wl option =
  match split ':' w with
  | ["affine"; f; t] -> let t = tables_of t in Some (WAffine (nat_of_int (int_of_string f), row 0 t, row 1 t))
  | ["stump"; f; thr; t] -> let t = tables_of t in
      Some (WStump (nat_of_int (int_of_string f), q_of_float (parse_float thr), row 0 t, row 1 t))
  | ["hinge"; f; thr; dir; t] -> let t = tables_of t in
      Some (WHinge (nat_of_int (int_of_string f), q_of_float (parse_float thr), dir = "left", row 0 t, row 1 t))
  | "table" :: f :: hs :: h2t :: rest ->
      let t = match rest with [t] -> tables_of t | _ -> [] in
      Some (WTable (nat_of_int (int_of_string f), List.map B.big_int_of_string (split ',' hs),
                    List.map B.big_int_of_string (split ',' h2t), t))
  | "dtree" :: ns :: rest ->
      let t = match rest with [t] -> tables_of t | _ -> [] in
      let node s = match split '_' s with
        | [f; thr; next; table] -> { n_feature = nat_of_int (int_of_string f); n_thr = q_of_float (parse_float thr);
                                     n_next = B.big_int_of_string next; n_table = B.big_int_of_string table }
        | _ -> failwith ("bad node " ^ s) in
      Some (WTree (List.map node (split '~' ns), t))
  | _ -> None

let rget o l = match List.nth_opt l o with Some x -> x | None -> qz
(* magnitude of the terms summed by a prediction (tolerance of w * x + b) *)
let magnitude (w : wl) (s : fval list) (pred : q list) : q list =
  let x f = match List.nth_opt s f with Some (FNum x) -> qabs x | _ -> qz in
  let rec int_of_nat = function O -> 0 | S n -> 1 + int_of_nat n in
  match w with
  | WAffine (f, ww, b) | WHinge (f, _, _, ww, b) ->
      List.mapi (fun o _ -> (qabs (rget o ww) */ x (int_of_nat f)) +/ qabs (rget o b)) pred
  | _ -> List.map qabs pred

(* ---- FIT ---------------------------------------------------------------------------------------------------- *)
let no () = nat_of_int !cur_no
(* the threshold of a fitted stump / hinge (any criterion) is one of the mid-points the model tries on that feature *)
let check_threshold tag w =
  let rec int_of_nat = function O -> 0 | S n -> 1 + int_of_nat n in
  let test f thr =
    match Hashtbl.find_opt feats (int_of_nat f) with
    | Some (FS a) ->
        Stdlib.incr total;
        let cands = stump_cands (no ()) !floor_ (scol_of a) in
        if not (List.exists (fun ((t, _), _) -> qeq_bool t thr) cands) then
          report "MISMATCH" "threshold" tag (Printf.sprintf "threshold %h is not a mid-point of consecutive distinct values of feature %d: %s" (float_of_q thr) (int_of_nat f) w)
    | _ -> report "MISMATCH" "fit-params" tag ("the fitted feature is not a scalar feature: " ^ w) in
  match parse_w w with
  | Some (WStump (f, thr, _, _)) -> test f thr
  | Some (WHinge (f, thr, _, _, _)) -> test f thr
  | _ -> ()

let check_fit id name crit score w =
  let tag = id ^ " " ^ name ^ " " ^ crit in
  Hashtbl.replace learners tag w;
  if score <> "nofit" && (name = "stump" || name = "hinge") then check_threshold tag w;
  if crit = "rss" then begin
    let model =
      match name with
      | "stump" -> Some (stump_fit (no ()) !floor_ (List.map scol_of (scalar_cols ())))
      | "hinge" -> Some (hinge_fit (no ()) !floor_ (List.map scol_of (scalar_cols ())))
      | "affine" -> Some (affine_fit (no ()) !floor_ (List.map scol_of (scalar_cols ())))
      | "dense-table" -> Some (dense_fit (no ()) !floor_ (List.map ccol_of (class_cols ())))
      | "kbest-table" -> Some (kbest_fit (no ()) !floor_ (B.big_int_of_int (-1)) (List.map ccol_of (class_cols ())))
      | "dstep-table" -> Some (kbest_fit (no ()) !floor_ (B.big_int_of_int 1) (List.map ccol_of (class_cols ())))
      | _ -> None in
    match model with
    | None -> ()
    | Some m ->
        Stdlib.incr total;
        let tol = (rel9 */ !sumr2) +/ tiny in
        begin match m, score with
        | None, "nofit" -> ()
        | None, s -> report "MISMATCH" "fit" tag ("model: no candidate in the class, implementation score=" ^ s ^ " " ^ w)
        | Some q, "nofit" -> report "MISMATCH" "fit" tag (Printf.sprintf "model optimum=%h, implementation: no fit" (float_of_q q))
        | Some q, s ->
            let si = q_of_float (parse_float s) in
            if not (close si q tol) then
              report "MISMATCH" "fit" tag (Printf.sprintf "model optimum=%h implementation score=%s %s" (float_of_q q) s w)
        end;
        (* exact RSS of the fitted predictor on its feature (specification function rss_of) *)
        if score <> "nofit" && name <> "kbest-table" then begin
          let rec int_of_nat = function O -> 0 | S n -> 1 + int_of_nat n in
          let spec =
            match parse_w w with
            | Some (WStump (f, thr, lo, hi)) ->
                (match Hashtbl.find_opt feats (int_of_nat f) with
                 | Some (FS a) -> Some (rss_of (no ()) (stump_pred thr lo hi) (scol_of a)) | _ -> None)
            | Some (WAffine (f, ww, b)) ->
                (match Hashtbl.find_opt feats (int_of_nat f) with
                 | Some (FS a) -> Some (rss_of (no ()) (affine_pred (no ()) ww b) (scol_of a)) | _ -> None)
            | Some (WHinge (f, thr, dir, ww, _)) ->
                (match Hashtbl.find_opt feats (int_of_nat f) with
                 | Some (FS a) -> Some (rss_of (no ()) (hinge_pred (no ()) thr dir ww) (scol_of a)) | _ -> None)
            | Some (WTable (f, hs, h2t, t)) ->
                (match Hashtbl.find_opt feats (int_of_nat f) with
                 | Some (FC a) ->
                     let pred h = match find hs h with
                       | Some i -> (match List.nth_opt h2t (B.int_of_big_int i) with
                                    | Some g -> row (B.int_of_big_int g) t | None -> [])
                       | None -> [] in
                     Some (rss_of (no ()) pred (ccol_of a))
                 | _ -> None)
            | _ -> None in
          match spec with
          | None -> report "MISMATCH" "fit-params" tag ("the fitted feature has the wrong kind: " ^ w)
          | Some rss ->
              let si = q_of_float (parse_float score) in
              if not (close si (clamp !floor_ rss) tol) then
                report "PROPFAIL" "reproduce" tag
                  (Printf.sprintf "exact RSS of the fitted predictor=%h score=%s %s" (float_of_q rss) score w)
        end
  end

(* ---- PRED / SPLIT / SCALE ------------------------------------------------------------------------------------- *)
let parse_preds s = List.map qs_of (split ';' (String.trim s))
let check_preds what tag (w : wl) (impl : q list list) =
  Stdlib.incr total;
  let bad = ref false in
  List.iteri (fun i p ->
      if not !bad then begin
        let s = sample_of i in
        let m = predict (no ()) w s (zeros (no ())) in
        let mag = magnitude w s m in
        List.iteri (fun o v ->
            let tol = (rel12 */ rget o mag) +/ tiny in
            if not !bad && not (close v (rget o m) tol) then begin
              bad := true;
              report "MISMATCH" what tag (Printf.sprintf "sample#%d output %d: model=%h implementation=%h" i o (float_of_q (rget o m)) (float_of_q v))
            end) p
      end) impl

let check_split tag (w : wl) (groups : string list) =
  Stdlib.incr total;
  let bad = ref false in
  List.iteri (fun i g ->
      if not !bad then begin
        let m = match group w (sample_of i) with None -> "-1" | Some z -> B.string_of_big_int z in
        if m <> String.trim g then begin
          bad := true;
          report "MISMATCH" "split" tag (Printf.sprintf "sample#%d: model group=%s implementation=%s" i m g)
        end
      end) groups

(* ---- MERGE ---------------------------------------------------------------------------------------------------- *)
(* [mag]: the summed magnitude of all coefficients before the merge (the merged tables are floating-point sums of them) *)
let same_learner (mag : q) (a : wl) (b : wl) : bool =
  let tclose x y = List.length x = List.length y &&
                   List.for_all2 (fun r s -> List.length r = List.length s &&
                                               List.for_all2 (fun u v -> close u v ((rel12 */ mag) +/ tiny)) r s) x y in
  match a, b with
  | WAffine (f, w, b1), WAffine (g, w', b2) -> f = g && tclose [w; b1] [w'; b2]
  | WStump (f, t, lo, hi), WStump (g, t', lo', hi') -> f = g && qeq_bool t t' && tclose [lo; hi] [lo'; hi']
  | WHinge (f, t, d, w, b1), WHinge (g, t', d', w', b2) -> f = g && qeq_bool t t' && d = d' && tclose [w; b1] [w'; b2]
  | WTable (f, hs, m, t), WTable (g, hs', m', t') ->
      f = g && List.length hs = List.length hs' && List.for_all2 B.eq_big_int hs hs' &&
      List.length m = List.length m' && List.for_all2 B.eq_big_int m m' && tclose t t'
  | WTree (n, t), WTree (n', t') -> List.length n = List.length n' && tclose t t'
  | _ -> false

let check_merge id before after =
  Stdlib.incr total;
  let parse l = List.map (fun w -> match parse_w w with Some x -> x | None -> failwith ("bad learner " ^ w)) (split ';' (String.trim l)) in
  let b = parse before and a = parse after in
  let m = merge b in
  let tabs = function WAffine (_, w, b) | WHinge (_, _, _, w, b) -> [w; b] | WStump (_, _, lo, hi) -> [lo; hi]
                      | WTable (_, _, _, t) | WTree (_, t) -> t in
  let mag = List.fold_left (fun acc w -> List.fold_left (fun acc r -> List.fold_left (fun acc x -> acc +/ qabs x) acc r) acc (tabs w)) qz b in
  if List.length m <> List.length a then
    report "MISMATCH" "merge" id (Printf.sprintf "model keeps %d learners, implementation %d: %s -> %s" (List.length m) (List.length a) before after)
  else if not (List.for_all2 (same_learner mag) m a) then
    report "MISMATCH" "merge" id ("merged learners differ: " ^ before ^ " -> " ^ after)


(* ================================================================================================================== *)
(* extension stage (C10_Ext): k-best selection for every k, k-split clustering, decision trees of any depth, criteria     *)
(*   MISMATCH ext-kbest-select / ext-kbest-tables : the stored label sets / tables are not the model's first k of the      *)
(*       sorted (delta, hash) pairs (C10_kbest_order, C10_kbest_topk_attained)                                             *)
(*   MISMATCH ext-ksplit-fit / ext-ksplit-ids / ext-ksplit-tables : k-split score (rss), label -> group map and group      *)
(*       means of the trial with the fitted number of groups (skipped when a merge step of the model is a (near-)tie)       *)
(*   MISMATCH ext-tree-wf / ext-tree-bfs / ext-tree-walk : the fitted node table fails the well-formedness check of        *)
(*       C10_tree_walk, the set-based breadth-first split or the per-sample walk disagree with split()                     *)
(*   MISMATCH ext-crit : AIC / AICc / BIC score vs the criterion of the model's exact RSS candidates (same k, n)           *)
(* ================================================================================================================== *)
let ext_kbest = ref 0 and ext_ksplit = ref 0 and ext_tree = ref 0 and ext_crit = ref 0 and ext_ties = ref 0 and ext_skipped = ref 0
let rec int_of_nat = function O -> 0 | S n -> 1 + int_of_nat n
let class_col_of f = match Hashtbl.find_opt feats f with Some (FC a) -> Some (ccol_of a) | _ -> None
let qlt_ a b = Q.lt (toQ a) (toQ b)
let qeq_ a b = Q.equal (toQ a) (toQ b)
let relclose a b = close a b ((rel12 */ (qabs a +/ qabs b)) +/ tiny)

let crit_value crit (rss : float) (k : int) (n : int) : float =
  let dk = float_of_int k and dn = float_of_int n in
  match crit with
  | "aic" -> 2.0 *. dk +. dn *. log rss -. dn *. log dn
  | "aicc" -> (2.0 *. dk +. dn *. log rss -. dn *. log dn) +. 2.0 *. (dk *. dk +. dk) /. (dn -. dk -. 1.0)
  | "bic" -> dk *. log dn +. dn *. log (rss /. dn)
  | _ -> rss
(* candidates: (exact clamped rss, k); the score must be the minimum of the criterion over the candidates, the exact RSS
   being known to the implementation only within dr = 1e-9 * sum r^2 *)
let check_crit tag crit (score : string) (cands : (q * int) list) w =
  Stdlib.incr total; Stdlib.incr ext_crit;
  let n = !cur_n in
  let fl = float_of_q !floor_ in
  let dr = 1e-9 *. float_of_q !sumr2 +. 1e-300 in
  let lo = ref infinity and hi = ref infinity in
  List.iter (fun (r, k) ->
      let r = float_of_q (clamp !floor_ r) in
      let a = crit_value crit (Float.max fl (r -. dr)) k n and b = crit_value crit (r +. dr) k n in
      if Float.is_finite a && Float.is_finite b then begin
        if a < !lo then lo := a;
        if b < !hi then hi := b
      end) cands;
  if score = "nofit" then begin
    if Float.is_finite !hi then report "MISMATCH" "ext-crit" tag (Printf.sprintf "no fit although the model has a candidate with a finite %s criterion (%h)" crit !hi)
  end else begin
    let s = parse_float score in
    let eps = 1e-9 *. (1.0 +. Float.abs s) in
    if not (Float.is_finite !hi) then report "MISMATCH" "ext-crit" tag ("model: no finite candidate, implementation score=" ^ score ^ " " ^ w)
    else if not (s >= !lo -. eps && s <= !hi +. eps) then
      report "MISMATCH" "ext-crit" tag (Printf.sprintf "%s score=%s outside [%h, %h] = criterion of the model's best candidate (n=%d) %s" crit score !lo !hi n w)
  end

(* first merge step of the agglomerative clustering whose closest pair is not unique within 1e-12 (relative): the trials
   after it depend on floating-point rounding *)
let first_ambiguous (trials : (clus list * nat list) list) : int =
  let rec go i = function
    | [] | [_] -> max_int
    | (cl, _) :: rest ->
        let (c1, c2) = closest (no ()) cl in
        let arr = Array.of_list cl in
        let best = c_dist (no ()) arr.(int_of_nat c1) arr.(int_of_nat c2) in
        let amb = ref false in
        let m = Array.length arr in
        for a = 0 to m - 2 do for b = a + 1 to m - 1 do
          if not (a = int_of_nat c1 && b = int_of_nat c2) && relclose (c_dist (no ()) arr.(a) arr.(b)) best then amb := true
        done done;
        if !amb then i else go (i + 1) rest in
  go 0 trials

let check_ext id name crit score w =
  let tag = id ^ " " ^ name ^ " " ^ crit in
  let nofit = score = "nofit" in
  let nouts = !cur_no in
  let ccols = List.map ccol_of (class_cols ()) in
  let scols = List.map scol_of (scalar_cols ()) in
  let bins c = List.length (keys_of (List.filter_map (fun (k, r) -> match k with Some k -> Some (k, r) | None -> None) c)) in
  (* ---- criteria: the minimiser over candidates with the same k and n is the RSS minimiser (C10_criterion_monotone) ---- *)
  if crit <> "rss" then begin
    match name with
    | "stump" -> check_crit tag crit score (match stump_fit (no ()) !floor_ scols with Some q -> [(q, 2 * nouts + 1)] | None -> []) w
    | "affine" -> check_crit tag crit score (match affine_fit (no ()) !floor_ scols with Some q -> [(q, 2 * nouts)] | None -> []) w
    | "dense-table" -> check_crit tag crit score (List.concat_map (fun c -> List.map (fun q -> (q, bins c * nouts)) (dense_cands (no ()) !floor_ c)) ccols) w
    | "dstep-table" -> check_crit tag crit score (List.concat_map (fun c -> List.map (fun q -> (q, nouts)) (kbest_rss_seq (no ()) (B.big_int_of_int 1) c)) ccols) w
    | "kbest-table" ->
        check_crit tag crit score (List.concat_map (fun c -> List.mapi (fun i q -> (q, (i + 1) * nouts)) (kbest_rss_seq (no ()) (B.big_int_of_int (-1)) c)) ccols) w
    | "ksplit-table" ->
        if List.for_all (fun c -> first_ambiguous (ksplit_trials (no ()) c) = max_int) ccols then
          check_crit tag crit score (List.concat_map (fun c -> let b = bins c in List.mapi (fun ic q -> (q, (b - ic) * nouts)) (ksplit_rss_seq (no ()) c)) ccols) w
        else Stdlib.incr ext_skipped
    | _ -> ()
  end;
  (* ---- k-split, rss: the proved optimum (C10_ksplit_optimal) ------------------------------------------------------- *)
  if name = "ksplit-table" && crit = "rss" then begin
    Stdlib.incr total; Stdlib.incr ext_ksplit;
    let tol = (rel9 */ !sumr2) +/ tiny in
    match ksplit_fit (no ()) !floor_ ccols, score with
    | None, "nofit" -> ()
    | None, s -> report "MISMATCH" "ext-ksplit-fit" tag ("model: no candidate, implementation score=" ^ s ^ " " ^ w)
    | Some q, "nofit" -> report "MISMATCH" "ext-ksplit-fit" tag (Printf.sprintf "model optimum=%h, implementation: no fit" (float_of_q q))
    | Some q, s -> if not (close (q_of_float (parse_float s)) q tol) then
          report "MISMATCH" "ext-ksplit-fit" tag (Printf.sprintf "model optimum=%h implementation score=%s %s" (float_of_q q) s w)
  end;
  if not nofit then begin
    match parse_w w with
    | Some (WTable (f, hs, h2t, t)) when name = "kbest-table" ->
        (match class_col_of (int_of_nat f) with
         | None -> report "MISMATCH" "ext-kbest-select" tag ("the fitted feature is not categorical: " ^ w)
         | Some c ->
             Stdlib.incr total; Stdlib.incr ext_kbest;
             let k = List.length hs in
             let mh = kbest_hashes (no ()) c (nat_of_int k) in
             let same = List.length mh = k && List.for_all2 B.eq_big_int mh hs in
             if not same then begin
               (* the source's rule stated directly: lexicographic order of (delta, hash); two deltas that differ by less than
                  1e-12 (relative) without being equal may be ordered either way by the floating-point division *)
               let sorted = kbest_sorted (no ()) c in
               let delta h = List.find_opt (fun (_, h') -> B.eq_big_int h h') sorted in
               let before (d1, h1) (d2, h2) = if qeq_ d1 d2 then B.lt_big_int h1 h2 else (qlt_ d1 d2 || relclose d1 d2) in
               let sel = List.map delta hs in
               let ok = ref (List.length hs <= List.length sorted && List.for_all (fun x -> x <> None) sel) in
               if !ok then begin
                 let sel = List.map (function Some x -> x | None -> assert false) sel in
                 let rec chain = function a :: (b :: _ as r) -> before a b && chain r | _ -> true in
                 if not (chain sel) then ok := false;
                 (match List.rev sel with
                  | last :: _ -> List.iter (fun (d, h) -> if not (List.exists (B.eq_big_int h) hs) && not (before last (d, h)) then ok := false) sorted
                  | [] -> ok := false)
               end;
               if !ok then Stdlib.incr ext_ties
               else report "MISMATCH" "ext-kbest-select" tag
                   (Printf.sprintf "stored label sets [%s] are not the first %d of the sorted (delta, hash) pairs [%s] %s"
                      (String.concat "," (List.map B.string_of_big_int hs)) k
                      (String.concat ";" (List.map (fun (d, h) -> Printf.sprintf "%h:%s" (float_of_q d) (B.string_of_big_int h)) sorted)) w)
             end;
             (* the tables are the bin means of the stored label sets *)
             let bad = ref false in
             List.iteri (fun i h ->
                 let m = kbest_pred (no ()) c (nat_of_int 1000) h and r = row i t in
                 List.iteri (fun o v -> if not !bad && not (close v (rget o m) ((rel12 */ qabs (rget o m)) +/ tiny)) then begin
                     bad := true;
                     report "MISMATCH" "ext-kbest-tables" tag (Printf.sprintf "table %d output %d: bin mean=%h implementation=%h %s" i o (float_of_q (rget o m)) (float_of_q v) w)
                   end) r) hs;
             ignore h2t)
    | Some (WTable (f, hs, h2t, t)) when name = "ksplit-table" ->
        (match class_col_of (int_of_nat f) with
         | None -> report "MISMATCH" "ext-ksplit-ids" tag ("the fitted feature is not categorical: " ^ w)
         | Some c ->
             Stdlib.incr total; Stdlib.incr ext_ksplit;
             let trials = ksplit_trials (no ()) c in
             let nb = List.length hs and ng = List.length t in
             let ic = nb - ng in
             if nb <> List.length trials || ic < 0 then
               report "MISMATCH" "ext-ksplit-ids" tag (Printf.sprintf "%d label sets, %d groups, model has %d trials %s" nb ng (List.length trials) w)
             else if ic > first_ambiguous trials then Stdlib.incr ext_ties
             else begin
               let (cl, ids) = List.nth trials ic in
               let mids = List.map int_of_nat ids and iids = List.map B.int_of_big_int h2t in
               if mids <> iids then
                 report "MISMATCH" "ext-ksplit-ids" tag
                   (Printf.sprintf "label -> group map of trial %d: model [%s] implementation [%s] %s" ic
                      (String.concat "," (List.map string_of_int mids)) (String.concat "," (List.map string_of_int iids)) w)
               else begin
                 let bad = ref false in
                 List.iteri (fun g cg ->
                     let m = c_mean (no ()) cg and r = row g t in
                     List.iteri (fun o v -> if not !bad && not (close v (rget o m) ((rel12 */ qabs (rget o m)) +/ tiny)) then begin
                         bad := true;
                         report "MISMATCH" "ext-ksplit-tables" tag (Printf.sprintf "group %d output %d: model mean=%h implementation=%h %s" g o (float_of_q (rget o m)) (float_of_q v) w)
                       end) r) cl
               end
             end)
    | Some (WTree (nodes, t)) ->
        Stdlib.incr total; Stdlib.incr ext_tree;
        if not (tree_wf nodes (B.big_int_of_int (List.length t))) then
          report "MISMATCH" "ext-tree-wf" tag ("the fitted node table is not well-formed (pairs, forward pointers, leaf tables): " ^ w)
    | _ -> ()
  end

(* SUB: split() of an arbitrary sub-list (positions of the fit list; empty lists and lists that leave branches empty included):
   every learner: the group of the model per sample; trees: the breadth-first split of exactly that list (bfs_done checked:
   C10_tree_bfs_is_walk applies) *)
let ext_sub = ref 0
let check_sub tag (w : wl) (pos : string) (groups : string) =
  Stdlib.incr total; Stdlib.incr ext_sub;
  let ps = if pos = "-" then [] else List.map int_of_string (split ',' pos) in
  let gs = if groups = "-" then [] else List.map String.trim (split ',' groups) in
  let str = function None -> "-1" | Some z -> B.string_of_big_int z in
  if List.length ps <> List.length gs then report "MISMATCH" "ext-sublist" tag ("malformed SUB line " ^ pos ^ " | " ^ groups)
  else begin
    let bad = ref false in
    List.iter2 (fun p g -> if not !bad && str (group w (sample_of p)) <> g then begin
        bad := true; report "MISMATCH" "ext-sublist" tag (Printf.sprintf "position %d of the list [%s]: model group=%s implementation=%s" p pos (str (group w (sample_of p))) g)
      end) ps gs;
    match w with
    | WTree (nodes, _) when not !bad ->
        let ss = List.map (fun p -> (nat_of_int p, sample_of p)) ps in
        let fuel = nat_of_int (List.length nodes + 2) in
        let q = [(B.zero_big_int, ss)] in
        if not (bfs_done fuel nodes q) then report "MISMATCH" "ext-tree-bfs-fuel" tag ("the breadth-first split of the model does not empty its queue for the list [" ^ pos ^ "]")
        else begin
          let asg = tree_bfs fuel nodes q in
          if ps = [] && asg <> [] then report "MISMATCH" "ext-tree-bfs" tag "the empty list is assigned groups by the model";
          List.iter2 (fun p g -> if not !bad && str (assigned (nat_of_int p) asg) <> g then begin
              bad := true; report "MISMATCH" "ext-tree-bfs" tag (Printf.sprintf "position %d of the list [%s]: breadth-first model group=%s implementation=%s" p pos (str (assigned (nat_of_int p) asg)) g)
            end) ps gs
        end
    | _ -> ()
  end

(* the set-based breadth-first split of the model (tree_bfs) and the per-sample walk against split() of the library *)
let check_tree_split tag (nodes : node list) (groups : string list) =
  Stdlib.incr total; Stdlib.incr ext_tree;
  let n = List.length groups in
  let ss = List.init n (fun i -> (nat_of_int i, sample_of i)) in
  let asg = tree_bfs (nat_of_int (List.length nodes + 2)) nodes [(B.zero_big_int, ss)] in
  let bad = ref false in
  if not (bfs_done (nat_of_int (List.length nodes + 2)) nodes [(B.zero_big_int, ss)]) then begin
    bad := true; report "MISMATCH" "ext-tree-bfs-fuel" tag "the breadth-first split of the model does not empty its queue for the fit list"
  end;
  List.iteri (fun i g ->
      if not !bad then begin
        let str = function None -> "-1" | Some z -> B.string_of_big_int z in
        let b = str (assigned (nat_of_int i) asg) and wk = str (walk_from nodes B.zero_big_int (sample_of i)) in
        if b <> String.trim g then begin
          bad := true; report "MISMATCH" "ext-tree-bfs" tag (Printf.sprintf "sample#%d: breadth-first model group=%s implementation=%s" i b g)
        end else if wk <> String.trim g then begin
          bad := true; report "MISMATCH" "ext-tree-walk" tag (Printf.sprintf "sample#%d: walk group=%s implementation=%s" i wk g)
        end
      end) groups

(* ================================================================================================================== *)
(* extension 3 (C10_TreeFit): the greedy decision-tree fit                                                              *)
(*   TD / TF / TG / TS: the whole dataset of the case (all rows), the gradients of all rows, the fit list (row indices)  *)
(*   TFIT id dtree-fit crit depth=D min_split=M | score or nofit | dtree:...                                             *)
(*   the extracted tree_fit (exact rationals, one-thread tie order) must return the SAME node table: features, exact      *)
(*   mid-point thresholds, links, table indices; leaf tables within 1e-9 of the summed residual magnitudes of the leaf;   *)
(*   no fit exactly when the library returns no_fit_score; score = the model's sum of terminal stump scores (RSS: 1e-9    *)
(*   of the summed squares; AIC / AICc / BIC: interval of the criterion of the exact terminal RSS).                       *)
(*   A disagreement is reported (MISMATCH ext-treefit-xxx) unless one of the stumps fitted by the model has a second         *)
(*   candidate (other feature / threshold) within 1e-12 of the best (relative to the summed squares): the floating-point   *)
(*   comparison may then go either way (counted as treefit_ties).                                                          *)
(*   searched, not proved: every sample of the fit list whose walk visits a pair is recorded at that pair (converse of     *)
(*   C10_treefit_greedy's last clause): MISMATCH ext-treefit-reach.                                                        *)
(* ================================================================================================================== *)
let tf_feats : (int, float array option) Hashtbl.t = Hashtbl.create 16
let tf_rows = ref 0 and tf_no = ref 1 and tf_nf = ref 0
let tf_res : q list array ref = ref [||]
let tf_ids : int list ref = ref []
let tf_ds_cache : fval list list option ref = ref None
let ext_tfit = ref 0 and ext_tfit_ok = ref 0 and ext_tfit_none = ref 0 and ext_tfit_ties = ref 0 and ext_tfit_reach = ref 0
and ext_tfit_f7 = ref 0 and ext_tfit_deep = ref 0
let tf_ds () = match !tf_ds_cache with
  | Some d -> d
  | None ->
      let d = List.init !tf_rows (fun i -> List.init !tf_nf (fun f ->
          match Hashtbl.find_opt tf_feats f with
          | Some (Some a) -> if Float.is_nan a.(i) then FMiss else FNum (q_of_float a.(i))
          | _ -> FMiss)) in
      tf_ds_cache := Some d; d

let check_tfit id crit depth min_split score w =
  Stdlib.incr total; Stdlib.incr ext_tfit;
  let what_of s = Printf.sprintf "%s depth=%d min_split=%d: %s" crit depth min_split s in
  let nouts = !tf_no in
  let non = nat_of_int nouts in
  let ds = tf_ds () and res = Array.to_list !tf_res in
  let nf = nat_of_int !tf_nf in
  let adm n = not (crit = "aicc" && B.int_of_big_int n = 2 * nouts + 2) in
  let ids = List.map nat_of_int !tf_ids in
  let m = tree_fit non !floor_ adm ds res nf (B.big_int_of_int depth) (B.big_int_of_int min_split) ids in
  let sumr2 = List.fold_left (fun acc i -> List.fold_left (fun a x -> a +/ (x */ x)) acc (!tf_res).(i)) qz !tf_ids in
  let win = (rel12 */ sumr2) +/ tiny in
  let near a b = close a b (win +/ (rel12 */ (qabs a +/ qabs b))) in
  let ambiguous tr =
    List.exists (fun (l, _) ->
        if not (adm (B.big_int_of_int (List.length l))) then false
        else match stump_best non !floor_ ds res nf l with
          | None -> false
          | Some b ->
              let cands = List.concat_map (fun f -> stump_xcands non !floor_ (nat_of_int f) (tcol ds res (nat_of_int f) l))
                  (List.init !tf_nf (fun f -> f)) in
              List.exists (fun c -> not (c.sc_f = b.sc_f && qeq_ c.sc_thr b.sc_thr) && near c.sc_score b.sc_score) cands) tr in
  let disagree kind tr detail =
    if ambiguous tr then Stdlib.incr ext_tfit_ties
    else report "MISMATCH" kind id (what_of detail) in
  let real = if score = "nofit" then None else (match parse_w w with Some (WTree (n, t)) -> Some (n, t) | _ -> None) in
  match m, real with
  | FitFuel, _ -> report "MISMATCH" "ext-treefit-fuel" id (what_of "the model ran out of fuel (C10_treefit_terminates)")
  | FitNone _, None -> Stdlib.incr ext_tfit_none
  | FitNone tr, Some _ ->
      disagree "ext-treefit-nofit" tr
        (Printf.sprintf "model: no fit (a queued list of %d samples has no stump), implementation score=%s %s"
           (match List.rev tr with (l, _) :: _ -> List.length l | [] -> 0) score w)
  | FitOK (nodes, _, sc, tr), None ->
      disagree "ext-treefit-nofit" tr
        (Printf.sprintf "model fits a tree of %d entries (score %h), implementation: no fit" (List.length nodes) (float_of_q sc))
  | FitOK (nodes, tables, sc, tr), Some (rn, rt) ->
      let same_node (a : node) (b : node) =
        a.n_feature = b.n_feature && qeq_ a.n_thr b.n_thr && B.eq_big_int a.n_next b.n_next && B.eq_big_int a.n_table b.n_table in
      let str_nodes l = String.concat "~" (List.map (fun (a : node) ->
          Printf.sprintf "%d_%h_%s_%s" (int_of_nat a.n_feature) (float_of_q a.n_thr) (B.string_of_big_int a.n_next) (B.string_of_big_int a.n_table)) l) in
      if List.length nodes <> List.length rn || not (List.for_all2 same_node nodes rn) then
        disagree "ext-treefit-nodes" tr (Printf.sprintf "model node table %s implementation %s" (str_nodes nodes) w)
      else begin
        Stdlib.incr ext_tfit_ok;
        if List.length nodes > 2 then Stdlib.incr ext_tfit_deep;
        let narr = Array.of_list nodes in
        (* leaf tables: within 1e-9 of the summed residual magnitudes of the samples recorded for the terminal pair *)
        let bad = ref (List.length tables <> List.length rt) in
        if !bad then report "MISMATCH" "ext-treefit-tables" id (what_of (Printf.sprintf "model has %d tables, implementation %d %s" (List.length tables) (List.length rt) w));
        List.iteri (fun k (l, _) ->
            let a = narr.(2 * k) in
            if not !bad && B.sign_big_int a.n_next = 0 then begin
              let t0 = B.int_of_big_int a.n_table in
              for side = 0 to 1 do
                let mt = row (t0 + side) tables and it = row (t0 + side) rt in
                for o = 0 to nouts - 1 do
                  let mag = List.fold_left (fun acc i -> acc +/ qabs (rget o (!tf_res).(int_of_nat i))) qz l in
                  if not !bad && not (close (rget o mt) (rget o it) ((rel9 */ mag) +/ tiny)) then begin
                    bad := true;
                    report "MISMATCH" "ext-treefit-tables" id
                      (what_of (Printf.sprintf "pair %d side %d output %d: model mean residual=%h implementation=%h %s" (2 * k) side o
                                  (float_of_q (rget o mt)) (float_of_q (rget o it)) w))
                  end
                done
              done
            end) tr;
        (* the score: sum of the terminal stump scores *)
        let minsz = B.big_int_of_int (min 10 (!tf_rows * min_split / 100)) in
        let s = parse_float score in
        if crit = "rss" then begin
          if not (close (q_of_float s) sc ((rel9 */ sumr2) +/ tiny)) then
            report "MISMATCH" "ext-treefit-score" id (what_of (Printf.sprintf "model score (sum of the terminal stump scores)=%h implementation=%s %s" (float_of_q sc) score w))
        end else begin
          let dr = 1e-9 *. float_of_q sumr2 +. 1e-300 and fl = float_of_q !floor_ in
          let lo = ref 0.0 and hi = ref 0.0 in
          List.iteri (fun k (l, d) ->
              if B.sign_big_int narr.(2 * k).n_next = 0 then begin
                let r = float_of_q (clamp !floor_ (tree_rss non ds res nodes tables l)) in
                let n = List.length l in
                lo := !lo +. crit_value crit (Float.max fl (r -. dr)) (2 * nouts + 1) n;
                hi := !hi +. crit_value crit (r +. dr) (2 * nouts + 1) n
              end; ignore d) tr;
          let eps = 1e-9 *. (1.0 +. Float.abs s) in
          if not (s >= !lo -. eps && s <= !hi +. eps) then
            report "MISMATCH" "ext-treefit-score" id (what_of (Printf.sprintf "%s score=%s outside [%h, %h] = sum of the criterion of the terminal RSS of the model %s" crit score !lo !hi w))
        end;
        (* C10_treefit_score, evaluated (a theorem: must hold exactly) *)
        if not (qeq_ sc (leaf_rss_sum non !floor_ ds res (B.big_int_of_int depth) minsz nodes tables tr)) then
          report "PROPFAIL" "ext-treefit-leafsum" id (what_of "the model score is not the sum of the clamped terminal RSS of the tree's predictions");
        (* searched: a sample of the fit list whose walk visits a pair is recorded at that pair *)
        Stdlib.incr ext_tfit_reach;
        let fuel = nat_of_int (List.length nodes) in
        let uniq = List.sort_uniq compare !tf_ids in
        let darr = Array.of_list ds in
        List.iteri (fun k (l, _) ->
            if k > 0 then
              List.iter (fun i ->
                  if reaches fuel nodes B.zero_big_int (B.big_int_of_int (2 * k)) darr.(i) && not (List.exists (fun j -> int_of_nat j = i) l) then
                    report "MISMATCH" "ext-treefit-reach" id (what_of (Printf.sprintf "row %d reaches pair %d by the walk but is not in the list the pair was fitted on %s" i (2 * k) w))) uniq) tr;
        (* observation F7: the score is not the RSS of the predictions on the fit list when samples are dropped / repeated *)
        if crit = "rss" && not (close sc (clamp !floor_ (tree_rss non ds res nodes tables ids)) ((rel9 */ sumr2) +/ tiny)) then Stdlib.incr ext_tfit_f7
      end

(* ---- main loop -------------------------------------------------------------------------------------------------- *)
let kv tok = match split '=' tok with [k; v] -> (k, v) | _ -> (tok, "")
let () =
  (try
     while true do
       let line = input_line stdin in
       match split ' ' line with
       | "CONST" :: rest ->
           List.iter (fun t -> match kv t with ("floor", v) -> floor_ := q_of_float (parse_float v) | _ -> ()) rest
       | "CASE" :: id :: rest ->
           cur_id := id;
           Hashtbl.reset feats;
           Hashtbl.reset sample_cache;
           Hashtbl.reset learners;
           List.iter (fun t -> match kv t with
               | ("n", v) -> cur_n := int_of_string v
               | ("no", v) -> cur_no := int_of_string v
               | _ -> ()) rest
       | ["F"; _; f; "S"; vals] -> Hashtbl.replace feats (int_of_string f) (FS (Array.of_list (floats_of vals)))
       | ["F"; _; f; "S"] -> Hashtbl.replace feats (int_of_string f) (FS [||])
       | ["F"; _; f; "C"; vals] -> Hashtbl.replace feats (int_of_string f) (FC (Array.of_list (split ',' vals)))
       | ["F"; _; f; "X"] -> Hashtbl.replace feats (int_of_string f) FX
       | ["G"; _; vals] ->
           let rows = List.map (fun s -> List.map qopp (qs_of s)) (split ';' vals) in
           resid := Array.of_list rows;
           sumr2 := List.fold_left (fun acc r -> List.fold_left (fun a x -> a +/ (x */ x)) acc r) qz rows
       | "FIT" :: id :: name :: crit :: score :: w :: _ -> check_fit id name crit score w; check_ext id name crit score w
       | "PRED" :: id :: name :: crit :: "|" :: [preds] ->
           let tag = id ^ " " ^ name ^ " " ^ crit in
           (match Hashtbl.find_opt learners tag with
            | Some w -> (match parse_w w with Some wl -> check_preds "predict" tag wl (parse_preds preds) | None -> ())
            | None -> ())
       | "SPLIT" :: id :: name :: crit :: "|" :: [groups] ->
           let tag = id ^ " " ^ name ^ " " ^ crit in
           (match Hashtbl.find_opt learners tag with
            | Some w -> (match parse_w w with
                         | Some wl -> check_split tag wl (split ',' groups);
                                      (match wl with WTree (nodes, _) -> check_tree_split tag nodes (split ',' groups) | _ -> ())
                         | None -> ())
            | None -> ())
       | "SCALE" :: id :: name :: crit :: "|" :: sc :: "|" :: [preds] ->
           let tag = id ^ " " ^ name ^ " " ^ crit in
           (match Hashtbl.find_opt learners tag with
            | Some w -> (match parse_w w with
                         | Some wl -> check_preds "scale" tag (scale (qs_of sc) wl) (parse_preds preds)
                         | None -> ())
            | None -> ())
       | ["SUB"; id; name; crit; "|"; pos; "|"; groups] ->
           let tag = id ^ " " ^ name ^ " " ^ crit in
           (match Hashtbl.find_opt learners tag with
            | Some w -> (match parse_w w with Some wl -> check_sub tag wl pos groups | None -> ())
            | None -> ())
       | ["MERGE"; id; "|"; before; "|"; after] -> check_merge id before after
       | "TD" :: _ :: rest ->
           Hashtbl.reset tf_feats; tf_ds_cache := None; tf_ids := []; tf_res := [||];
           List.iter (fun t -> match kv t with
               | ("rows", v) -> tf_rows := int_of_string v
               | ("no", v) -> tf_no := int_of_string v
               | ("nf", v) -> tf_nf := int_of_string v
               | _ -> ()) rest
       | ["TF"; _; f; "S"; vals] -> Hashtbl.replace tf_feats (int_of_string f) (Some (Array.of_list (floats_of vals)))
       | ["TF"; _; f; "X"] -> Hashtbl.replace tf_feats (int_of_string f) None
       | ["TG"; _; vals] -> tf_res := Array.of_list (List.map (fun s -> List.map qopp (qs_of s)) (split ';' vals))
       | ["TS"; _; vals] -> tf_ids := List.map int_of_string (split ',' vals)
       | ["TFIT"; id; _; crit; d; ms; "|"; score; "|"; w] ->
           check_tfit id crit (int_of_string (snd (kv d))) (int_of_string (snd (kv ms))) score w
       | _ -> ()
     done
   with End_of_file -> ());
  Printf.printf "EXT-DONE kbest=%d ksplit=%d tree=%d crit=%d ties_skipped=%d crit_skipped=%d sub=%d\n" !ext_kbest !ext_ksplit !ext_tree !ext_crit !ext_ties !ext_skipped !ext_sub;
  Printf.printf "TREEFIT-DONE treefit=%d treefit_same_table=%d treefit_deep=%d treefit_nofit=%d treefit_ties=%d treefit_reach=%d treefit_score_not_rss=%d\n"
    !ext_tfit !ext_tfit_ok !ext_tfit_deep !ext_tfit_none !ext_tfit_ties !ext_tfit_reach !ext_tfit_f7;
  Printf.printf "MODEL-DONE checked=%d mismatches=%d\n" !total !mism
