(* C07 driver: replays every recorded line-search run of the real library with the extracted model.
   The recorded answers (valid, f, dg) of the k-th evaluation are the probe oracle `phi k _`; the model must
     - make exactly as many probes as the library did,
     - request them at steps t_k with  x0_j + t_k * d_j == recorded x_k,j  (bit-equal, printed coordinates),
     - return the same (ok, t) bit for bit.
   PROPFAIL: the advertised predicates (as translated from state.cpp) evaluated on the *recorded* data of a run the
   library reported as successful do not hold / the success is not at the last probe. *)
let mism = ref 0
let total = ref 0
let bits = Int64.bits_of_float
(* the extracted model computes on Float64.t (coq-core.kernel), an abstract wrapper of OCaml's float *)
let tf = Float64.to_float
let sameo a b = (Float.is_nan a && Float.is_nan b) || bits a = bits b
let same (a : Float64.t) (b : Float64.t) = sameo (tf a) (tf b)
let fl s : Float64.t = Float64.of_float (float_of_string (trim s))
let hx (v : Float64.t) = let v = tf v in if Float.is_nan v then "nan" else Printf.sprintf "%h" v
let nanf = Float64.of_float Float.nan
let words s = List.filter (fun t -> t <> "") (String.split_on_char ' ' (trim s))
let report line why = incr mism; Printf.printf "MISMATCH %s // %s\n" (if String.length line > 700 then String.sub line 0 700 ^ "..." else line) why
let propfail line why = incr mism; Printf.printf "PROPFAIL %s // %s\n" (if String.length line > 700 then String.sub line 0 700 ^ "..." else line) why

(* ---- classification of every successful More-Thuente / CG_DESCENT run of the library into the disjuncts of
   C07_morethuente_success_cases / C07_cgdescent_success_cases. The tests are recomputed here with plain OCaml doubles on
   the RECORDED data of the run (origin, last evaluation, returned step, parameters); only the locals that cannot be
   observed from outside (More-Thuente: brackt, stmin, stmax; CG_DESCENT: [a, b], bracketed) come from the exit ghost of
   the replaying model. A success that fits no disjunct is a PROPFAIL. ---- *)
let hist : (string, (string, int) Hashtbl.t) Hashtbl.t = Hashtbl.create 4
let count h k =
  let t = (match Hashtbl.find_opt hist h with Some t -> t | None -> let t = Hashtbl.create 16 in Hashtbl.add hist h t; t) in
  Hashtbl.replace t k (1 + (match Hashtbl.find_opt t k with Some n -> n | None -> 0))

let classify_mt line (prm : params) (p0 : probe) (last : probe) (it : Float64.t) (rx : exitinfo) =
  let c1 = tf prm.c1 and c2 = tf prm.c2 and f0 = tf p0.pf and dg0 = tf p0.pg in
  let f = tf last.pf and g = tf last.pg and stp = tf it in
  let gtest = c1 *. dg0 in
  let ftest = f0 +. stp *. gtest in
  let conv = f <= ftest && Float.abs g <= c2 *. (-. dg0) in
  let xmax = stp >= tf stpmax && f <= ftest && g <= gtest in
  let xmin = stp <= tf stpmin && (f > ftest || g >= gtest) in
  let (ghost, round, coll) =
    (match rx with
     | XMT m ->
       let stmin = tf m.m_stmin and stmax = tf m.m_stmax in
       (true, m.m_brackt && (stp <= stmin || stp >= stmax), m.m_brackt && stmax -. stmin <= tf eps0 *. stmax)
     | _ -> (false, false, false)) in
  (* the exit taken = the first true test in source order *)
  let taken =
    if round then (if coll then "rounding+collapsed" else "rounding") else if coll then "collapsed-only"
    else if xmax then "stpmax" else if xmin then "stpmin" else if conv then "converged" else "NONE" in
  count "mt_success_cases" taken;
  if taken = "NONE" then
    propfail line (Printf.sprintf "More-Thuente success fits no disjunct of C07_morethuente_success_cases: f=%h ftest=%h |g|=%h c2*(-dg0)=%h stp=%h%s"
                     f ftest (Float.abs g) (c2 *. (-. dg0)) stp (if ghost then "" else " (the model reports no success: no bracket ghost)"))
  else begin
    if taken <> "converged" then count "mt_success_flags" (if conv then "early-exit,convergence-test-also-true" else "early-exit,convergence-test-false");
    let sw = Float.abs g <= c2 *. Float.abs dg0 and arm = f <= f0 +. stp *. c1 *. dg0 in
    if not sw then count "mt_success_flags" "without-strong-wolfe";
    if not arm then count "mt_success_flags" "without-state.cpp-armijo";
    if conv && not arm then count "mt_success_flags" "converged-but-state.cpp-armijo-false(association)";
    if f > f0 then count "mt_success_flags" "f-above-f0";
    if taken = "converged" && not sw then propfail line "More-Thuente: convergence test true but has_strong_wolfe false (corollary C07_morethuente_strong_wolfe_unless_early_exit)"
  end

let classify_cg line (prm : params) (p0 : probe) (last : probe) (it : Float64.t) (rx : exitinfo) =
  let c1 = tf prm.c1 and c2 = tf prm.c2 and f0 = tf p0.pf and dg0 = tf p0.pg in
  let f = tf last.pf and g = tf last.pg and t = tf it in
  let epsk = tf prm.cg_epsilon *. Float.abs f0 in
  let arm = f <= f0 +. t *. c1 *. dg0 and wol = g >= c2 *. dg0 in
  let aarm = f <= f0 +. epsk and awol = (2.0 *. c1 -. 1.0) *. dg0 >= g && g >= c2 *. dg0 in
  if not last.pv then propfail line "CG_DESCENT success on an invalid state";
  let (ghost, inrange, f_af, f_bg) =
    (match rx with
     | XCG (iv, br) ->
       (true, not (t < tf iv.i_a.st_t || t > tf iv.i_b.st_t), br && tf iv.i_a.st_f > f0 +. epsk, br && tf iv.i_b.st_g < 0.0)
     | _ -> (false, true, false, false)) in
  (* done's own order: bracketing failed, then (inside [a.t, b.t]) Wolfe, then approximate Wolfe *)
  let taken =
    if f_af then "bracketing-failed(a.f>f0+epsk)" else if f_bg then "bracketing-failed(b.g<0)"
    else if inrange && arm && wol then "wolfe" else if inrange && aarm && awol then "approx-wolfe-only" else "NONE" in
  count "cg_success_cases" taken;
  if taken = "NONE" then
    propfail line (Printf.sprintf "CG_DESCENT success fits no disjunct of C07_cgdescent_success_cases: armijo=%b wolfe=%b approx_armijo=%b approx_wolfe=%b inside=%b%s"
                     arm wol aarm awol inrange (if ghost then "" else " (the model reports no success: no interval ghost)"))
  else begin
    if (f_af || f_bg) then count "cg_success_flags" (if (arm && wol) || (aarm && awol) then "bracketing-failed,conditions-hold-anyway" else "bracketing-failed,neither-wolfe-nor-approx-wolfe");
    if (f_af || f_bg) && not ((arm && wol) || (aarm && awol)) then begin
      let mi = int_of_z prm.maxit in
      count "cg_success_flags" (if mi < 10 then "bracketing-failed,no-conditions,max_iterations<10" else if mi < 100 then "bracketing-failed,no-conditions,max_iterations<100" else "bracketing-failed,no-conditions,max_iterations>=100")
    end;
    if taken = "wolfe" && aarm && awol then count "cg_success_flags" "wolfe,approx-wolfe-also-true";
    if f > f0 then count "cg_success_flags" "f-above-f0"
  end

(* ---- C07_evaluations_bounded on the implementation: recorded evaluations of one lsearchk_t::get <= 2*maxit + do_get bound
   (hand-coded here: backtrack n, lemarechal n-1, fletcher 2n-1, morethuente n, cgdescent 7n+1) ---- *)
let alg_names = [| "backtrack"; "lemarechal"; "fletcher"; "morethuente"; "cgdescent" |]
let evb_best = Array.make 5 (0.0, 0, 0, 0)      (* ratio, probes, bound, max_iterations *)
let evb_best100 = Array.make 5 (0.0, 0, 0, 0)   (* the same over the runs with max_iterations >= 100 *)
let eval_bound algi n =
  2 * n + (match algi with 0 -> n | 1 -> n - 1 | 2 -> 2 * n - 1 | 3 -> n | _ -> 7 * n + 1)
let check_eval_bound line algi maxit probes =
  if algi >= 0 && algi < 5 then begin
    let b = eval_bound algi maxit in
    if probes > b then propfail line (Printf.sprintf "evaluations-bound: %d evaluations > %d = bound of C07_evaluations_bounded (%s, max_iterations=%d)" probes b alg_names.(algi) maxit);
    let r = float_of_int probes /. float_of_int b in
    let (r0, _, _, _) = evb_best.(algi) in
    if r > r0 then evb_best.(algi) <- (r, probes, b, maxit);
    let (r1, _, _, _) = evb_best100.(algi) in
    if maxit >= 100 && r > r1 then evb_best100.(algi) <- (r, probes, b, maxit)
  end

let do_const line rest =
  match words rest with
  | [a; b; c; d] ->
    incr total;
    if not (same (fl a) eps0 && same (fl b) eps1 && same (fl c) stpmin && same (fl d) stpmax) then
      report line (Printf.sprintf "model constants: %s %s %s %s" (hx eps0) (hx eps1) (hx stpmin) (hx stpmax))
  | _ -> report line "bad CONST line"

let do_interp line rest =
  match split_str " = " rest with
  | [lhs; rhs] ->
    (match split_str " | " lhs with
     | [k; args] ->
       (match List.map fl (words args) with
        | [ut; uf; ug; vt; vf; vg] ->
          let u = { st_t = ut; st_f = uf; st_g = ug } and v = { st_t = vt; st_f = vf; st_g = vg } in
          let m = (match int_of_string (trim k) with
              | 0 -> interpolate u v (z_of_int 0) | 1 -> interpolate u v (z_of_int 1) | 2 -> interpolate u v (z_of_int 2)
              | 3 -> cubic u v | 4 -> quadratic u v | 5 -> secant u v | _ -> bisection u v) in
          incr total;
          if not (same m (fl rhs)) then report line ("model: " ^ hx m)
        | _ -> report line "bad INTERP args")
     | _ -> report line "bad INTERP line")
  | _ -> report line "bad INTERP line"

let do_ls line rest =
  match split_str " = " rest with
  | [lhs; rhs] ->
    (match split_str " | " lhs with
     | [_id; cfg; origin; coords; probes] ->
       let c = Array.of_list (words cfg) in
       let algi = int_of_string c.(0) in
       let f i = fl c.(i) in
       let prm = { c1 = f 3; c2 = f 4; maxit = z_of_int (int_of_string c.(1)); interp = z_of_int (int_of_string c.(2));
                   safeguard = f 5; tau1 = f 6; tau2 = f 7; tau3 = f 8; mt_delta = f 9;
                   cg_epsilon = f 10; cg_theta = f 11; cg_gamma = f 12; cg_ro = f 13 } in
       let o = Array.of_list (words origin) in
       let p0 = { pv = (o.(0) = "1"); pf = fl o.(1); pg = fl o.(2) } in
       let t0 = fl o.(3) in
       let cs = Array.of_list (words coords) in
       let nj = int_of_string cs.(0) in
       let x0 = Array.init nj (fun j -> fl cs.(1 + j)) and d = Array.init nj (fun j -> fl cs.(1 + nj + j)) in
       let recs =
         if trim probes = "-" then [||]
         else Array.of_list (List.map (fun p ->
             let a = Array.of_list (String.split_on_char ',' p) in
             ({ pv = (trim a.(0) = "1"); pf = fl a.(1); pg = fl a.(2) }, Array.init nj (fun j -> fl a.(3 + j))))
             (String.split_on_char ';' (trim probes))) in
       let n = Array.length recs in
       check_eval_bound line algi (int_of_string c.(1)) n;
       let overrun = ref false in
       let phi k _t =
         let k = int_of_z k in
         if k < n then fst recs.(k) else (overrun := true; { pv = false; pf = nanf; pg = nanf }) in
       let r = ls_get phi prm p0 (alg_of_Z (z_of_int algi)) t0 in
       let (iok, it) = (match words rhs with [a; b] -> (a = "1", fl b) | _ -> (false, nanf)) in
       incr total;
       let tr = Array.of_list (List.rev r.rs.trace) in
       if !overrun || Array.length tr <> n then
         report line (Printf.sprintf "model makes %d probes, implementation %d" (Array.length tr) n)
       else begin
         let bad = ref None in
         Array.iteri (fun k t ->
             if !bad = None then
               for j = 0 to nj - 1 do
                 let x = tf x0.(j) +. tf t *. tf d.(j) in
                 if not (sameo x (tf (snd recs.(k)).(j))) && !bad = None then bad := Some (k, t)
               done) tr;
         (match !bad with
          | Some (k, t) -> report line (Printf.sprintf "probe %d: model requests t=%s, x0+t*d differs from the recorded point" k (hx t))
          | None ->
            if r.ok <> iok || not (same r.rt it) then
              report line (Printf.sprintf "model: %d %s" (if r.ok then 1 else 0) (hx r.rt)))
       end;
       (* the theorems' conclusions on the implementation's own data *)
       if iok then begin
         if n = 0 then propfail line "success without any evaluation"
         else begin
           let last = fst recs.(n - 1) in
           let a = has_armijo p0 last it prm.c1 and w = has_wolfe p0 last prm.c2 and sw = has_strong_wolfe p0 last prm.c2 in
           if last.pv then begin
             (* state == last probe at the returned t *)
             for j = 0 to nj - 1 do
               if not (sameo (tf x0.(j) +. tf it *. tf d.(j)) (tf (snd recs.(n - 1)).(j))) then propfail line "valid success, but the last evaluation is not at x0+t*d"
             done
           end;
           (match algi with
            | 0 -> if not a then propfail line "backtrack success without has_armijo on the last probe"
            | 1 -> if not (a && w) then propfail line "lemarechal success without has_armijo && has_wolfe on the last probe"
            | 2 -> if not (a && sw) then propfail line "fletcher success without has_armijo && has_strong_wolfe on the last probe"
            | 3 -> classify_mt line prm p0 last it r.rx
            | 4 -> classify_cg line prm p0 last it r.rx
            | _ -> ())
         end
       end
       else if not (has_descent p0) then begin
         if n <> 0 || not (same it t0) then propfail line "non-descent direction: probes made or step changed"
       end
     | _ -> report line "bad LS line")
  | _ -> report line "bad LS line"

let () =
  (try
     while true do
       let line = input_line stdin in
       match String.index_opt line ' ' with
       | None -> ()
       | Some sp ->
         let op = String.sub line 0 sp in
         let rest = String.sub line (sp + 1) (String.length line - sp - 1) in
         (try
            (match op with
             | "CONST" -> do_const line rest
             | "INTERP" -> do_interp line rest
             | "LS" -> do_ls line rest
             | _ -> ())
          with Failure m | Invalid_argument m -> report line ("driver cannot parse: " ^ m))
     done
   with End_of_file -> ());
  Hashtbl.iter (fun h t ->
      let kv = List.sort compare (Hashtbl.fold (fun k n acc -> (k, n) :: acc) t []) in
      Printf.printf "HIST %s %s\n" h (String.concat " " (List.map (fun (k, n) -> Printf.sprintf "%s=%d" k n) kv))) hist;
  Array.iteri (fun i (r, p, b, mi) -> Printf.printf "EVALB %s max_ratio=%.4f evaluations=%d bound=%d max_iterations=%d\n" alg_names.(i) r p b mi) evb_best;
  Array.iteri (fun i (r, p, b, mi) -> Printf.printf "EVALB %s[max_iterations>=100] max_ratio=%.4f evaluations=%d bound=%d max_iterations=%d\n" alg_names.(i) r p b mi) evb_best100;
  Printf.printf "MODEL-DONE checked=%d mismatches=%d\n" !total !mism
