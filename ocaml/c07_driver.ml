(* C07 driver: replays every recorded line-search run of the real library with the extracted model.
   The recorded answers (valid, f, dg) of the k-th evaluation are the probe oracle `phi k _`; the model must
     - make exactly as many probes as the library did,
     - request them at steps t_k with  x0_j + t_k * d_j == recorded x_k,j  (bit-equal, printed coordinates),
     - return the same (ok, t) bit for bit.
   PROPFAIL: the advertised predicates (as translated from state.cpp) evaluated on the *recorded* data of a run the
   library reported as successful do not hold / the success is not at the last probe. *)
let mism = ref 0
let total = ref 0
let bits = Int64.bits_of_float
(* the extracted model computes on Float64.t (coq-core.kernel), an abstract wrapper of OCaml's float *)
let tf = Float64.to_float
let sameo a b = (Float.is_nan a && Float.is_nan b) || bits a = bits b
let same (a : Float64.t) (b : Float64.t) = sameo (tf a) (tf b)
let fl s : Float64.t = Float64.of_float (float_of_string (trim s))
let hx (v : Float64.t) = let v = tf v in if Float.is_nan v then "nan" else Printf.sprintf "%h" v
let nanf = Float64.of_float Float.nan
let words s = List.filter (fun t -> t <> "") (String.split_on_char ' ' (trim s))
let report line why = incr mism; Printf.printf "MISMATCH %s // %s\n" (if String.length line > 700 then String.sub line 0 700 ^ "..." else line) why
let propfail line why = incr mism; Printf.printf "PROPFAIL %s // %s\n" (if String.length line > 700 then String.sub line 0 700 ^ "..." else line) why

(* ---- classification of every successful More-Thuente / CG_DESCENT run of the library into the disjuncts of
   C07_morethuente_success_cases / C07_cgdescent_success_cases. The tests are recomputed here with plain OCaml doubles on
   the RECORDED data of the run (origin, last evaluation, returned step, parameters); only the locals that cannot be
   observed from outside (More-Thuente: brackt, stmin, stmax; CG_DESCENT: [a, b], bracketed) come from the exit ghost of
   the replaying model. A success that fits no disjunct is a PROPFAIL. ---- *)
let hist : (string, (string, int) Hashtbl.t) Hashtbl.t = Hashtbl.create 4
let count h k =
  let t = (match Hashtbl.find_opt hist h with Some t -> t | None -> let t = Hashtbl.create 16 in Hashtbl.add hist h t; t) in
  Hashtbl.replace t k (1 + (match Hashtbl.find_opt t k with Some n -> n | None -> 0))

let classify_mt line (prm : params) (p0 : probe) (last : probe) (it : Float64.t) (rx : exitinfo) =
  let c1 = tf prm.c1 and c2 = tf prm.c2 and f0 = tf p0.pf and dg0 = tf p0.pg in
  let f = tf last.pf and g = tf last.pg and stp = tf it in
  let gtest = c1 *. dg0 in
  let ftest = f0 +. stp *. gtest in
  let conv = f <= ftest && Float.abs g <= c2 *. (-. dg0) in
  let xmax = stp >= tf stpmax && f <= ftest && g <= gtest in
  let xmin = stp <= tf stpmin && (f > ftest || g >= gtest) in
  let (ghost, round, coll) =
    (match rx with
     | XMT m ->
       let stmin = tf m.m_stmin and stmax = tf m.m_stmax in
       (true, m.m_brackt && (stp <= stmin || stp >= stmax), m.m_brackt && stmax -. stmin <= tf eps0 *. stmax)
     | _ -> (false, false, false)) in
  (* the exit taken = the first true test in source order *)
  let taken =
    if round then (if coll then "rounding+collapsed" else "rounding") else if coll then "collapsed-only"
    else if xmax then "stpmax" else if xmin then "stpmin" else if conv then "converged" else "NONE" in
  count "mt_success_cases" taken;
  if taken = "NONE" then
    propfail line (Printf.sprintf "More-Thuente success fits no disjunct of C07_morethuente_success_cases: f=%h ftest=%h |g|=%h c2*(-dg0)=%h stp=%h%s"
                     f ftest (Float.abs g) (c2 *. (-. dg0)) stp (if ghost then "" else " (the model reports no success: no bracket ghost)"))
  else begin
    if taken <> "converged" then count "mt_success_flags" (if conv then "early-exit,convergence-test-also-true" else "early-exit,convergence-test-false");
    let sw = Float.abs g <= c2 *. Float.abs dg0 and arm = f <= f0 +. stp *. c1 *. dg0 in
    if not sw then count "mt_success_flags" "without-strong-wolfe";
    if not arm then count "mt_success_flags" "without-state.cpp-armijo";
    if conv && not arm then count "mt_success_flags" "converged-but-state.cpp-armijo-false(association)";
    if f > f0 then count "mt_success_flags" "f-above-f0";
    if taken = "converged" && not sw then propfail line "More-Thuente: convergence test true but has_strong_wolfe false (corollary C07_morethuente_strong_wolfe_unless_early_exit)"
  end

let classify_cg line (prm : params) (p0 : probe) (last : probe) (it : Float64.t) (rx : exitinfo) =
  let c1 = tf prm.c1 and c2 = tf prm.c2 and f0 = tf p0.pf and dg0 = tf p0.pg in
  let f = tf last.pf and g = tf last.pg and t = tf it in
  let epsk = tf prm.cg_epsilon *. Float.abs f0 in
  let arm = f <= f0 +. t *. c1 *. dg0 and wol = g >= c2 *. dg0 in
  let aarm = f <= f0 +. epsk and awol = (2.0 *. c1 -. 1.0) *. dg0 >= g && g >= c2 *. dg0 in
  if not last.pv then propfail line "CG_DESCENT success on an invalid state";
  let (ghost, inrange, f_af, f_bg) =
    (match rx with
     | XCG (iv, br) ->
       (true, not (t < tf iv.i_a.st_t || t > tf iv.i_b.st_t), br && tf iv.i_a.st_f > f0 +. epsk, br && tf iv.i_b.st_g < 0.0)
     | _ -> (false, true, false, false)) in
  (* done's own order: bracketing failed, then (inside [a.t, b.t]) Wolfe, then approximate Wolfe *)
  let taken =
    if f_af then "bracketing-failed(a.f>f0+epsk)" else if f_bg then "bracketing-failed(b.g<0)"
    else if inrange && arm && wol then "wolfe" else if inrange && aarm && awol then "approx-wolfe-only" else "NONE" in
  count "cg_success_cases" taken;
  if taken = "NONE" then
    propfail line (Printf.sprintf "CG_DESCENT success fits no disjunct of C07_cgdescent_success_cases: armijo=%b wolfe=%b approx_armijo=%b approx_wolfe=%b inside=%b%s"
                     arm wol aarm awol inrange (if ghost then "" else " (the model reports no success: no interval ghost)"))
  else begin
    if (f_af || f_bg) then count "cg_success_flags" (if (arm && wol) || (aarm && awol) then "bracketing-failed,conditions-hold-anyway" else "bracketing-failed,neither-wolfe-nor-approx-wolfe");
    if (f_af || f_bg) && not ((arm && wol) || (aarm && awol)) then begin
      let mi = int_of_z prm.maxit in
      count "cg_success_flags" (if mi < 10 then "bracketing-failed,no-conditions,max_iterations<10" else if mi < 100 then "bracketing-failed,no-conditions,max_iterations<100" else "bracketing-failed,no-conditions,max_iterations>=100")
    end;
    if taken = "wolfe" && aarm && awol then count "cg_success_flags" "wolfe,approx-wolfe-also-true";
    if f > f0 then count "cg_success_flags" "f-above-f0"
  end

(* ---- C07_evaluations_bounded on the implementation: recorded evaluations of one lsearchk_t::get <= 2*maxit + do_get bound
   (hand-coded here: backtrack n, lemarechal n-1, fletcher 2n-1, morethuente n, cgdescent 7n+1) ---- *)
let alg_names = [| "backtrack"; "lemarechal"; "fletcher"; "morethuente"; "cgdescent" |]
let evb_best = Array.make 5 (0.0, 0, 0, 0)      (* ratio, probes, bound, max_iterations *)
let evb_best100 = Array.make 5 (0.0, 0, 0, 0)   (* the same over the runs with max_iterations >= 100 *)
let eval_bound algi n =
  2 * n + (match algi with 0 -> n | 1 -> n - 1 | 2 -> 2 * n - 1 | 3 -> n | _ -> 7 * n + 1)
let check_eval_bound line algi maxit probes =
  if algi >= 0 && algi < 5 then begin
    let b = eval_bound algi maxit in
    if probes > b then propfail line (Printf.sprintf "evaluations-bound: %d evaluations > %d = bound of C07_evaluations_bounded (%s, max_iterations=%d)" probes b alg_names.(algi) maxit);
    let r = float_of_int probes /. float_of_int b in
    let (r0, _, _, _) = evb_best.(algi) in
    if r > r0 then evb_best.(algi) <- (r, probes, b, maxit);
    let (r1, _, _, _) = evb_best100.(algi) in
    if maxit >= 100 && r > r1 then evb_best100.(algi) <- (r, probes, b, maxit)
  end

let do_const line rest =
  match words rest with
  | [a; b; c; d] ->
    incr total;
    if not (same (fl a) eps0 && same (fl b) eps1 && same (fl c) stpmin && same (fl d) stpmax) then
      report line (Printf.sprintf "model constants: %s %s %s %s" (hx eps0) (hx eps1) (hx stpmin) (hx stpmax))
  | _ -> report line "bad CONST line"

let do_interp line rest =
  match split_str " = " rest with
  | [lhs; rhs] ->
    (match split_str " | " lhs with
     | [k; args] ->
       (match List.map fl (words args) with
        | [ut; uf; ug; vt; vf; vg] ->
          let u = { st_t = ut; st_f = uf; st_g = ug } and v = { st_t = vt; st_f = vf; st_g = vg } in
          let m = (match int_of_string (trim k) with
              | 0 -> interpolate u v (z_of_int 0) | 1 -> interpolate u v (z_of_int 1) | 2 -> interpolate u v (z_of_int 2)
              | 3 -> cubic u v | 4 -> quadratic u v | 5 -> secant u v | _ -> bisection u v) in
          incr total;
          if not (same m (fl rhs)) then report line ("model: " ^ hx m)
        | _ -> report line "bad INTERP args")
     | _ -> report line "bad INTERP line")
  | _ -> report line "bad INTERP line"

let do_ls line rest =
  match split_str " = " rest with
  | [lhs; rhs] ->
    (match split_str " | " lhs with
     | [_id; cfg; origin; coords; probes] ->
       let c = Array.of_list (words cfg) in
       let algi = int_of_string c.(0) in
       let f i = fl c.(i) in
       let prm = { c1 = f 3; c2 = f 4; maxit = z_of_int (int_of_string c.(1)); interp = z_of_int (int_of_string c.(2));
                   safeguard = f 5; tau1 = f 6; tau2 = f 7; tau3 = f 8; mt_delta = f 9;
                   cg_epsilon = f 10; cg_theta = f 11; cg_gamma = f 12; cg_ro = f 13 } in
       let o = Array.of_list (words origin) in
       let p0 = { pv = (o.(0) = "1"); pf = fl o.(1); pg = fl o.(2) } in
       let t0 = fl o.(3) in
       let cs = Array.of_list (words coords) in
       let nj = int_of_string cs.(0) in
       let x0 = Array.init nj (fun j -> fl cs.(1 + j)) and d = Array.init nj (fun j -> fl cs.(1 + nj + j)) in
       let recs =
         if trim probes = "-" then [||]
         else Array.of_list (List.map (fun p ->
             let a = Array.of_list (String.split_on_char ',' p) in
             ({ pv = (trim a.(0) = "1"); pf = fl a.(1); pg = fl a.(2) }, Array.init nj (fun j -> fl a.(3 + j))))
             (String.split_on_char ';' (trim probes))) in
       let n = Array.length recs in
       check_eval_bound line algi (int_of_string c.(1)) n;
       let overrun = ref false in
       let phi k _t =
         let k = int_of_z k in
         if k < n then fst recs.(k) else (overrun := true; { pv = false; pf = nanf; pg = nanf }) in
       let r = ls_get phi prm p0 (alg_of_Z (z_of_int algi)) t0 in
       let (iok, it) = (match words rhs with [a; b] -> (a = "1", fl b) | _ -> (false, nanf)) in
       incr total;
       let tr = Array.of_list (List.rev r.rs.trace) in
       if !overrun || Array.length tr <> n then
         report line (Printf.sprintf "model makes %d probes, implementation %d" (Array.length tr) n)
       else begin
         let bad = ref None in
         Array.iteri (fun k t ->
             if !bad = None then
               for j = 0 to nj - 1 do
                 let x = tf x0.(j) +. tf t *. tf d.(j) in
                 if not (sameo x (tf (snd recs.(k)).(j))) && !bad = None then bad := Some (k, t)
               done) tr;
         (match !bad with
          | Some (k, t) -> report line (Printf.sprintf "probe %d: model requests t=%s, x0+t*d differs from the recorded point" k (hx t))
          | None ->
            if r.ok <> iok || not (same r.rt it) then
              report line (Printf.sprintf "model: %d %s" (if r.ok then 1 else 0) (hx r.rt)))
       end;
       (* the theorems' conclusions on the implementation's own data *)
       if iok then begin
         if n = 0 then propfail line "success without any evaluation"
         else begin
           let last = fst recs.(n - 1) in
           let a = has_armijo p0 last it prm.c1 and w = has_wolfe p0 last prm.c2 and sw = has_strong_wolfe p0 last prm.c2 in
           if last.pv then begin
             (* state == last probe at the returned t *)
             for j = 0 to nj - 1 do
               if not (sameo (tf x0.(j) +. tf it *. tf d.(j)) (tf (snd recs.(n - 1)).(j))) then propfail line "valid success, but the last evaluation is not at x0+t*d"
             done
           end;
           (match algi with
            | 0 -> if not a then propfail line "backtrack success without has_armijo on the last probe"
            | 1 -> if not (a && w) then propfail line "lemarechal success without has_armijo && has_wolfe on the last probe"
            | 2 -> if not (a && sw) then propfail line "fletcher success without has_armijo && has_strong_wolfe on the last probe"
            | 3 -> classify_mt line prm p0 last it r.rx
            | 4 -> classify_cg line prm p0 last it r.rx
            | _ -> ())
         end
       end
       else if not (has_descent p0) then begin
         if n <> 0 || not (same it t0) then propfail line "non-descent direction: probes made or step changed"
       end
     | _ -> report line "bad LS line")
  | _ -> report line "bad LS line"

(* ================= INIT stage: the step-length initialisers lsearch0_t and lsearch_t::get (harness/c07_init.cpp) =================
   One lsearch0 object per I0BEGIN..I0END block. The model state (m_prevf, m_prevdg, and in mode comp also m_last_step_size)
   is carried by the MODEL from call to call; the recorded t0 of every call must be reproduced bit for bit.
     mode seq / run : last_step_size is an input of each call (what the wrapper saw), lsearch0_get is replayed;
     mode comp      : lsearch_get (= lsearch0_get, then ls_get on the recorded probes) is replayed, the model's own
                      m_last_step_size must equal the one the wrapper saw at the next call (and at I0END). *)
type i0_pending = { pc_line : string; pc_i : int; pc_last : Float64.t; pc_view : view0; pc_ntrial : int; pc_ftrial : Float64.t;
                    pc_nj : int; pc_x : Float64.t array; pc_d : Float64.t array; pc_tx : Float64.t array; pc_t0 : Float64.t }
type i0_ctx = { mutable c_id : string; mutable c_mode : string; mutable c_kind : kind0; mutable c_kindi : int; mutable c_prm0 : params0; mutable c_prm : params;
                mutable c_alg : int; mutable c_mem : mem0; mutable c_ls : lsmem; mutable c_pending : i0_pending option; mutable c_broken : bool }
let i0_hist : (string, int) Hashtbl.t = Hashtbl.create 16
let i0_count k = Hashtbl.replace i0_hist k (1 + (match Hashtbl.find_opt i0_hist k with Some n -> n | None -> 0))
let i0_calls = ref 0
let i0_probes = ref 0
let zero64 = Float64.of_float 0.0
let dummy_prm0 = { l0_epsilon = zero64; l0_const_t0 = zero64; l0_lin_beta = zero64; l0_lin_alpha = zero64; l0_quad_beta = zero64;
                   l0_quad_alpha = zero64; l0_cg_phi0 = zero64; l0_cg_phi1 = zero64; l0_cg_phi2 = zero64 }
let dummy_prm = { c1 = zero64; c2 = zero64; maxit = z_of_int 1; interp = z_of_int 0; safeguard = zero64; tau1 = zero64; tau2 = zero64; tau3 = zero64;
                  mt_delta = zero64; cg_epsilon = zero64; cg_theta = zero64; cg_gamma = zero64; cg_ro = zero64 }
let ctx = { c_id = ""; c_mode = ""; c_kind = L0Constant; c_kindi = 0; c_prm0 = dummy_prm0; c_prm = dummy_prm; c_alg = 0;
            c_mem = mem_init L0Constant; c_ls = lsmem_init L0Constant; c_pending = None; c_broken = false }

let do_i0begin line rest =
  match split_str " | " rest with
  | [hd; p0s; cfg] ->
    let h = Array.of_list (words hd) in
    let f = Array.of_list (List.map fl (words p0s)) in
    let c = Array.of_list (words cfg) in
    let g i = fl c.(i) in
    let kindi = int_of_string h.(2) in
    ctx.c_id <- h.(0); ctx.c_mode <- h.(1); ctx.c_kindi <- kindi; ctx.c_kind <- kind0_of_Z (z_of_int kindi);
    ctx.c_prm0 <- { l0_epsilon = f.(0); l0_const_t0 = f.(1); l0_lin_beta = f.(2); l0_lin_alpha = f.(3); l0_quad_beta = f.(4);
                    l0_quad_alpha = f.(5); l0_cg_phi0 = f.(6); l0_cg_phi1 = f.(7); l0_cg_phi2 = f.(8) };
    ctx.c_alg <- int_of_string c.(0);
    ctx.c_prm <- { c1 = g 3; c2 = g 4; maxit = z_of_int (int_of_string c.(1)); interp = z_of_int (int_of_string c.(2));
                   safeguard = g 5; tau1 = g 6; tau2 = g 7; tau3 = g 8; mt_delta = g 9; cg_epsilon = g 10; cg_theta = g 11; cg_gamma = g 12; cg_ro = g 13 };
    ctx.c_mem <- mem_init ctx.c_kind; ctx.c_ls <- lsmem_init ctx.c_kind; ctx.c_pending <- None; ctx.c_broken <- false
  | _ -> report line "bad I0BEGIN line"

(* checks shared by the three modes once the model's init_res of a call is known *)
let i0_check_call (pc : i0_pending) (ir : init_res) (last : Float64.t) =
  incr total; incr i0_calls;
  let line = pc.pc_line in
  if not (same ir.ir_t0 pc.pc_t0) then begin
    ctx.c_broken <- true;
    report line (Printf.sprintf "lsearch0 model: t0=%s (m_prevf=%s m_prevdg=%s before the call)" (hx ir.ir_t0) (hx ctx.c_mem.m_prevf) (hx ctx.c_mem.m_prevdg))
  end;
  if int_of_z ir.ir_evals <> pc.pc_ntrial then report line (Printf.sprintf "lsearch0 model makes %d evaluations, implementation %d" (int_of_z ir.ir_evals) pc.pc_ntrial)
  else if pc.pc_ntrial = 1 then begin
    (* the trial point: state.x() + prevt * phi1 * descent, element-wise (translated kernel), bit-equal to the recorded point *)
    let bad = ref false in
    for j = 0 to pc.pc_nj - 1 do
      let e = cg0_trial_coord pc.pc_x.(j) last ctx.c_prm0.l0_cg_phi1 pc.pc_d.(j) in
      if not (same e pc.pc_tx.(j)) && not !bad then begin bad := true; report line (Printf.sprintf "trial point: model coordinate %s, recorded %s" (hx e) (hx pc.pc_tx.(j))) end
    done
  end;
  (* C07_init_step_in_range on the implementation's own t0: what the line search starts from lies in [stpmin, 1] *)
  let st = tf (init_step pc.pc_t0) in
  if not (st >= tf stpmin && st <= 1.0) then propfail line (Printf.sprintf "clamp(t0) = %h outside [stpmin, 1]" st);
  let t0 = tf pc.pc_t0 in
  i0_count (Printf.sprintf "kind%d:%s" ctx.c_kindi (if Float.is_nan t0 then "t0=nan" else if t0 = Float.infinity then "t0=+inf" else if t0 = Float.neg_infinity then "t0=-inf"
                                                    else if t0 < 0.0 then "t0<0" else if t0 = 0.0 then "t0=0" else if t0 < tf stpmin then "0<t0<stpmin"
                                                    else if t0 <= 1.0 then "stpmin<=t0<=1" else "t0>1"))

let do_i0call line rest =
  match split_str " = " rest with
  | [lhs; rhs] ->
    (match split_str " | " lhs with
     | [hd; view; tr; coords] ->
       let h = Array.of_list (words hd) in
       let v = Array.of_list (words view) in
       let t = Array.of_list (words tr) in
       let cs = Array.of_list (words coords) in
       let nj = int_of_string cs.(0) in
       let pc = { pc_line = line; pc_i = int_of_string h.(1); pc_last = fl v.(0);
                  pc_view = { v_p = { pv = (v.(1) = "1"); pf = fl v.(2); pg = fl v.(3) }; v_xinf = fl v.(4); v_ginf = fl v.(5); v_gsq = fl v.(6) };
                  pc_ntrial = int_of_string t.(0); pc_ftrial = fl t.(1); pc_nj = nj;
                  pc_x = Array.init nj (fun j -> fl cs.(1 + j)); pc_d = Array.init nj (fun j -> fl cs.(1 + nj + j));
                  pc_tx = Array.init nj (fun j -> fl cs.(1 + 2 * nj + j)); pc_t0 = fl rhs } in
       if h.(0) <> ctx.c_id then report line "I0CALL outside its I0BEGIN block"
       else if ctx.c_mode = "comp" then begin
         (* the model's own m_last_step_size must be what the wrapper saw *)
         if not (same ctx.c_ls.lm_last pc.pc_last) && not ctx.c_broken then
           report line (Printf.sprintf "lsearch_t model: m_last_step_size=%s, the implementation handed %s to lsearch0" (hx ctx.c_ls.lm_last) (hx pc.pc_last));
         ctx.c_pending <- Some pc
       end else begin
         let ir = lsearch0_get ctx.c_prm0 (fun _ -> pc.pc_ftrial) ctx.c_kind ctx.c_mem pc.pc_view pc.pc_last in
         i0_check_call pc ir pc.pc_last;
         ctx.c_mem <- ir.ir_mem
       end
     | _ -> report line "bad I0CALL line")
  | _ -> report line "bad I0CALL line"

let do_i0ls line rest =
  match split_str " = " rest with
  | [lhs; rhs] ->
    (match split_str " | " lhs, ctx.c_pending with
     | [_hd; probes], Some pc ->
       ctx.c_pending <- None;
       let nj = pc.pc_nj in
       let recs =
         if trim probes = "-" then [||]
         else Array.of_list (List.map (fun p ->
             let a = Array.of_list (String.split_on_char ',' p) in
             ({ pv = (trim a.(0) = "1"); pf = fl a.(1); pg = fl a.(2) }, Array.init nj (fun j -> fl a.(3 + j))))
             (String.split_on_char ';' (trim probes))) in
       let n = Array.length recs in
       let overrun = ref false in
       let phi k _t =
         let k = int_of_z k in
         if k < n then fst recs.(k) else (overrun := true; { pv = false; pf = nanf; pg = nanf }) in
       (* the recorded last is used when an earlier mismatch already broke the chain (one report per cause) *)
       let st = if same ctx.c_ls.lm_last pc.pc_last then ctx.c_ls else { lm_mem = ctx.c_ls.lm_mem; lm_last = pc.pc_last } in
       let (o, st') = lsearch_get ctx.c_kind ctx.c_prm0 ctx.c_prm (alg_of_Z (z_of_int ctx.c_alg))
           { it_view = pc.pc_view; it_trial = (fun _ -> pc.pc_ftrial); it_phi = phi } st in
       ctx.c_mem <- st.lm_mem;
       i0_check_call pc o.io_init st.lm_last;
       let r = o.io_res in
       let iok = (trim rhs = "1") in
       incr total; i0_probes := !i0_probes + n;
       let tr = Array.of_list (List.rev r.rs.trace) in
       if same o.io_init.ir_t0 pc.pc_t0 then begin
         if !overrun || Array.length tr <> n then
           report line (Printf.sprintf "composed model makes %d probes, implementation %d (t0=%s)" (Array.length tr) n (hx pc.pc_t0))
         else begin
           let bad = ref None in
           Array.iteri (fun k t ->
               if !bad = None then
                 for j = 0 to nj - 1 do
                   let x = tf pc.pc_x.(j) +. tf t *. tf pc.pc_d.(j) in
                   if not (sameo x (tf (snd recs.(k)).(j))) && !bad = None then bad := Some (k, t)
                 done) tr;
           (match !bad with
            | Some (k, t) -> report line (Printf.sprintf "composed model: probe %d requested at t=%s, x+t*d differs from the recorded point (t0=%s)" k (hx t) (hx pc.pc_t0))
            | None -> if r.ok <> iok then report line (Printf.sprintf "composed model: ok=%b" r.ok))
         end;
         (* C07_composed_evaluations_bounded on the implementation: trial + probes <= 1 + ls_bound *)
         if ctx.c_alg >= 0 && ctx.c_alg < 5 then begin
           let b = 1 + eval_bound ctx.c_alg (int_of_z ctx.c_prm.maxit) in
           if pc.pc_ntrial + n > b then propfail line (Printf.sprintf "composed evaluations-bound: %d > %d" (pc.pc_ntrial + n) b)
         end;
         i0_count (if not (has_descent pc.pc_view.v_p) then "comp:refused" else if iok then "comp:ok" else "comp:failed")
       end;
       ctx.c_ls <- st'
     | _ -> report line "I0LS without its I0CALL")
  | _ -> report line "bad I0LS line"

let do_i0end line rest =
  (match words rest with
   | [id; last] when id = ctx.c_id && ctx.c_mode = "comp" && last <> "-" ->
     incr total;
     if not (same ctx.c_ls.lm_last (fl last)) && not ctx.c_broken then
       report line (Printf.sprintf "lsearch_t model: final m_last_step_size=%s" (hx ctx.c_ls.lm_last))
   | _ -> ());
  ctx.c_id <- ""

let () =
  (try
     while true do
       let line = input_line stdin in
       match String.index_opt line ' ' with
       | None -> ()
       | Some sp ->
         let op = String.sub line 0 sp in
         let rest = String.sub line (sp + 1) (String.length line - sp - 1) in
         (try
            (match op with
             | "CONST" -> do_const line rest
             | "INTERP" -> do_interp line rest
             | "LS" -> do_ls line rest
             | "I0BEGIN" -> do_i0begin line rest
             | "I0CALL" -> do_i0call line rest
             | "I0LS" -> do_i0ls line rest
             | "I0END" -> do_i0end line rest
             | _ -> ())
          with Failure m | Invalid_argument m -> report line ("driver cannot parse: " ^ m))
     done
   with End_of_file -> ());
  Hashtbl.iter (fun h t ->
      let kv = List.sort compare (Hashtbl.fold (fun k n acc -> (k, n) :: acc) t []) in
      Printf.printf "HIST %s %s\n" h (String.concat " " (List.map (fun (k, n) -> Printf.sprintf "%s=%d" k n) kv))) hist;
  Array.iteri (fun i (r, p, b, mi) -> Printf.printf "EVALB %s max_ratio=%.4f evaluations=%d bound=%d max_iterations=%d\n" alg_names.(i) r p b mi) evb_best;
  Array.iteri (fun i (r, p, b, mi) -> Printf.printf "EVALB %s[max_iterations>=100] max_ratio=%.4f evaluations=%d bound=%d max_iterations=%d\n" alg_names.(i) r p b mi) evb_best100;
  if !i0_calls > 0 then begin
    let kv = List.sort compare (Hashtbl.fold (fun k n acc -> (k, n) :: acc) i0_hist []) in
    Printf.printf "HIST init_t0_classes %s\n" (String.concat " " (List.map (fun (k, n) -> Printf.sprintf "%s=%d" k n) kv));
    Printf.printf "INIT-DONE calls=%d probes=%d\n" !i0_calls !i0_probes
  end;
  Printf.printf "MODEL-DONE checked=%d mismatches=%d\n" !total !mism
