(* C20 driver: reads the implementation's lines (harness/c20_stats.cpp) on stdin, recomputes each result
   with the extracted model instantiated at binary64 ([float_ops], bit-for-bit) and prints
   `MISMATCH <line> // model: <value> // values: <current list>` for differences.
     VALS <type> v1,v2,..                       sets the current list
     PCT p = unsorted ; sorted ; lpos ; rpos
     MED = median ; median_sorted
     HIST thr = sorted thr ; counts ; means ; medians        (HISTR ratios, HISTP percentiles likewise,
     HISTE base = ...: the thresholds of the answer are the model's input: log/pow are not modelled)
     BIN sorted thr | queries = bins
     STATS = count,p01,p05,p10,p20,p50,p80,p90,p95,p99
   Besides the float instance, lines whose numbers all lie on the grid 2^-12 * Z (|x| < 2^40) are recomputed
   with the exact integer instance [Z_ops] -- the instance the order theorems are proved for -- and the
   discrete results (bins, counts, selected elements) are compared as well (XMISMATCH is also a MISMATCH).
   Extension (position stage, model of C20_FloatDefs):
     POS p n = value ; lpos ; rpos      detail::percentile over the lazily generated array a[i] = i of n doubles:
                                        bit-exact comparison with pct_lpos_src / pct_rpos_src / percentile_iota; whenever
                                        [pos_reference p n] answers (side condition of C20_position_exact) the library's
                                        indices must be the exact floor / ceiling (PROPFAIL otherwise); for every p in
                                        [0, 100] and n - 1 <= 2^46 the range clause of C20_position_any is checked
     MID a b = value                    the midpoint through percentile_sorted of two values: fmid a b bit for bit
                                        (isfinite(a + b) ? (a + b) / 2 : a / 2 + b / 2, /repo 985fdb5), and the clauses of
                                        C20_midpoint on the library's value (finite and in [a, b] for all finite a <= b) *)
let mism = ref 0
let total = ref 0
let zchecked = ref 0

let tf = Float64.to_float
let ff = Float64.of_float
let fl s = ff (float_of_string (trim s))
let flist s = List.map fl (List.filter (fun t -> trim t <> "") (split_on ',' (trim s)))
let same a b = let a = tf a and b = tf b in (Float.is_nan a && Float.is_nan b) || Int64.equal (Int64.bits_of_float a) (Int64.bits_of_float b)
let hex x = let x = tf x in if Float.is_nan x then "nan" else Printf.sprintf "%h" x
let hexl l = String.concat "," (List.map hex l)
let cur_vals = ref ([] : Float64.t list)
let cur_sorted = ref ([] : Float64.t list)
let cur_raw = ref ""
let cur_zsorted = ref (None : z list option)

let pos_total = ref 0        (* POS lines *)
let pos_thm = ref 0          (* ... inside the side condition of C20_position_exact *)
let pos_thm_integral = ref 0 (* ... with an exact position that is an integer *)
let pos_thm_large = ref 0    (* ... with n >= 2^20 *)
let pos_range = ref 0        (* ... in the domain of C20_position_any *)
let mid_total = ref 0
let mid_overflow = ref 0
let propfail = ref 0

let report line model =
  incr mism;
  Printf.printf "MISMATCH %s // model: %s // values: %s\n" line model !cur_raw

let same_list a b = List.length a = List.length b && List.for_all2 same a b

(* exact integer instance: x * 2^12 when that is an integer of moderate size *)
let on_grid x = let x = tf x in Float.is_finite x && Float.abs x < 1.0e12 && Float.is_integer (x *. 4096.0)
let zg x = z_of_int (int_of_float (tf x *. 4096.0))
let all_grid l = List.for_all on_grid l

let summaries sums =
  (List.map (fun ((c, _), _) -> int_of_z c) sums, List.map (fun ((_, m), _) -> m) sums, List.map (fun ((_, _), md) -> md) sums)

let check_hist line rhs (st, sums) =
  incr total;
  match split_str " ; " rhs with
  | [ist; icounts; imeans; imeds] ->
    let (c, m, md) = summaries sums in
    let ic = List.map int_of_string (List.filter (fun t -> trim t <> "") (split_on ',' (trim icounts))) in
    if not (same_list st (flist ist) && c = ic && same_list m (flist imeans) && same_list md (flist imeds)) then
      report line (Printf.sprintf "%s ; %s ; %s ; %s" (hexl st) (String.concat "," (List.map string_of_int c)) (hexl m) (hexl md))
  | _ -> report line "unparsable histogram line"

let () =
  (try
    while true do
      let line = input_line stdin in
      match String.index_opt line ' ' with
      | None -> ()
      | Some sp ->
        let op = String.sub line 0 sp in
        let rest = String.sub line (sp + 1) (String.length line - sp - 1) in
        if op = "POS" then begin
          (match split_str " = " rest with
           | [lhs; rhs] ->
             (match (List.filter (fun t -> t <> "") (String.split_on_char ' ' (trim lhs)), split_str " ; " rhs) with
              | ([sp; sn], [iv; il; ir]) ->
                incr total; incr pos_total;
                let p = fl sp and ni = int_of_string sn in
                let n = z_of_int ni in
                let l = int_of_z (pct_lpos_src p n) and r = int_of_z (pct_rpos_src p n) in
                let v = percentile_iota n p in
                let libl = int_of_string (trim il) and libr = int_of_string (trim ir) in
                if not (l = libl && r = libr && same v (fl iv)) then begin
                  incr mism;
                  Printf.printf "MISMATCH %s // model: %s ; %d ; %d // values: (lazy array 0..n-1)\n" line (hex v) l r
                end;
                (match pos_reference p n with
                 | Some (el, er) ->
                   incr pos_thm;
                   let el = int_of_z el and er = int_of_z er in
                   if el = er then incr pos_thm_integral;
                   if ni >= 1048576 then incr pos_thm_large;
                   if libl <> el || libr <> er then begin
                     incr propfail;
                     Printf.printf "PROPFAIL %s // C20_position_exact: exact floor/ceil of the rational position are %d ; %d\n" line el er
                   end
                 | None -> ());
                if pct_in_range p && ni >= 1 && ni - 1 <= 70368744177664 then begin
                  incr pos_range;
                  if not (0 <= libl && libl <= libr && libr <= ni - 1 && libr <= libl + 1) then begin
                    incr propfail;
                    Printf.printf "PROPFAIL %s // C20_position_any: indices outside 0 <= lpos <= rpos <= n-1, rpos <= lpos+1\n" line
                  end
                end
              | _ -> report line "unparsable POS line")
           | _ -> report line "unparsable POS line")
        end else if op = "MID" then begin
          (match split_str " = " rest with
           | [lhs; rhs] ->
             (match List.filter (fun t -> t <> "") (String.split_on_char ' ' (trim lhs)) with
              | [sa; sb] ->
                incr total; incr mid_total;
                let a = fl sa and b = fl sb in
                let m = fmid a b in
                let lib = fl rhs in
                if not (same m lib) then begin
                  incr mism;
                  Printf.printf "MISMATCH %s // model: %s // values: (midpoint of two doubles)\n" line (hex m)
                end;
                let fa = tf a and fb = tf b and fv = tf lib in
                if Float.is_finite fa && Float.is_finite fb && fa <= fb then begin
                  (* C20_midpoint (repaired code): finite and inside [a, b] for ALL finite a <= b *)
                  if not (Float.is_finite fv && fa <= fv && fv <= fb) then begin
                    incr propfail;
                    Printf.printf "PROPFAIL %s // C20_midpoint: the midpoint of finite a <= b must be finite and lie in [a, b]\n" line
                  end;
                  if Float.is_finite (fa +. fb) then begin
                    (* unchanged from before the repair when the sum is finite *)
                    if not (same lib (fmid_prefix a b)) then begin
                      incr propfail;
                      Printf.printf "PROPFAIL %s // C20_midpoint: a + b is finite, the value must be fl(fl(a + b) / 2) = %s\n" line (hex (fmid_prefix a b))
                    end
                  end else incr mid_overflow
                end
              | _ -> report line "unparsable MID line")
           | _ -> report line "unparsable MID line")
        end else if op = "VALS" then begin
          (match String.index_opt rest ' ' with
           | Some k -> cur_raw := String.sub rest (k + 1) (String.length rest - k - 1)
           | None -> cur_raw := "");
          cur_vals := flist !cur_raw;
          cur_sorted := sort float_ops !cur_vals;
          cur_zsorted := None
        end else
          (match split_str " = " (" " ^ rest) with
           | [lhs; rhs] ->
             let vals = !cur_vals in
             let n = z_of_int (List.length vals) in
             (match op with
              | "PCT" ->
                incr total;
                let p = fl lhs in
                (* percentile l p is by definition percentile_sorted (sort l) p; small lists go through the definition *)
                let mu = if List.length vals <= 48 then percentile float_ops vals p else percentile_sorted float_ops !cur_sorted p in
                let ms = percentile_sorted float_ops !cur_sorted p in
                let l = int_of_z (pct_lpos p n) and r = int_of_z (pct_rpos p n) in
                (match split_str " ; " rhs with
                 | [iu; is; il; ir] ->
                   if not (same mu (fl iu) && same ms (fl is) && l = int_of_string (trim il) && r = int_of_string (trim ir)) then
                     report line (Printf.sprintf "%s ; %s ; %d ; %d" (hex mu) (hex ms) l r)
                   else if all_grid vals then begin
                     (* exact instance: the selected elements are those of the integer model *)
                     incr zchecked;
                     let zs = (match !cur_zsorted with Some z -> z | None -> let z = sort z_ops (List.map zg vals) in cur_zsorted := Some z; z) in
                     let zl = int_of_z (List.nth zs l) and zr = int_of_z (List.nth zs r) in
                     let e = if l = r then float_of_int zl /. 4096.0 else (float_of_int zl /. 4096.0 +. float_of_int zr /. 4096.0) /. 2.0 in
                     if not (same (ff e) (fl iu)) then begin
                       incr mism;
                       Printf.printf "XMISMATCH %s // exact integer model selects %s // values: %s\n" line (hex (ff e)) !cur_raw
                     end
                   end
                 | _ -> report line "unparsable")
              | "MED" ->
                incr total;
                let m = median float_ops vals and ms = median_sorted float_ops !cur_sorted in
                (match split_str " ; " rhs with
                 | [im; ims] -> if not (same m (fl im) && same ms (fl ims)) then report line (Printf.sprintf "%s ; %s" (hex m) (hex ms))
                 | _ -> report line "unparsable")
              | "HIST" ->
                let thr = flist lhs in
                let res = histogram float_ops thr vals in
                check_hist line rhs res;
                if all_grid vals && all_grid thr then begin
                  incr zchecked;
                  let (_, zsums) = histogram z_ops (List.map zg thr) (List.map zg vals) in
                  let zc = List.map (fun ((c, _), _) -> int_of_z c) zsums in
                  let (c, _, _) = summaries (snd res) in
                  (match split_str " ; " rhs with
                   | [_; icounts; _; _] ->
                     let ic = List.map int_of_string (List.filter (fun t -> trim t <> "") (split_on ',' (trim icounts))) in
                     if zc <> ic || zc <> c then begin
                       incr mism;
                       Printf.printf "XMISMATCH %s // exact integer model counts %s // values: %s\n" line (String.concat "," (List.map string_of_int zc)) !cur_raw
                     end
                   | _ -> ())
                end
              | "HISTR" -> check_hist line rhs (hist_from_ratios float_ops (flist lhs) vals)
              | "HISTP" -> check_hist line rhs (hist_from_percentiles_f (flist lhs) vals)
              | "HISTE" ->
                (match split_str " ; " rhs with
                 | ist :: _ -> check_hist line rhs (histogram float_ops (flist ist) vals)
                 | _ -> report line "unparsable")
              | "BIN" ->
                incr total;
                (match split_str " | " lhs with
                 | [sst; sq] ->
                   let st = flist sst and q = flist sq in
                   let b = List.map (fun v -> int_of_z (hist_bin float_ops st v)) q in
                   let ib = List.map int_of_string (List.filter (fun t -> trim t <> "") (split_on ',' (trim rhs))) in
                   if b <> ib then report line (String.concat "," (List.map string_of_int b))
                   else if all_grid st then begin
                     let zst = List.map zg st in
                     let qs = List.filter on_grid q in
                     incr zchecked;
                     List.iter (fun v ->
                         let zb = int_of_z (hist_bin z_ops zst (zg v)) and fb = int_of_z (hist_bin float_ops st v) in
                         if zb <> fb then begin
                           incr mism;
                           Printf.printf "XMISMATCH %s // exact integer model: bin(%s) = %d\n" line (hex v) zb
                         end) qs
                   end
                 | _ -> report line "unparsable")
              | "STATS" ->
                incr total;
                let pp = List.map ff [1.0; 5.0; 10.0; 20.0; 50.0; 80.0; 90.0; 95.0; 99.0] in
                let m = ff (float_of_int (List.length vals)) :: List.map (fun p -> percentile_sorted float_ops !cur_sorted p) pp in
                if not (same_list m (flist rhs)) then report line (hexl m)
              | _ -> ())
           | _ -> ())
    done
  with End_of_file -> ());
  Printf.printf "POS-STAGE pos=%d theorem_instances=%d integral=%d large_n=%d range_instances=%d mid=%d mid_overflow=%d propfail=%d\n"
    !pos_total !pos_thm !pos_thm_integral !pos_thm_large !pos_range !mid_total !mid_overflow !propfail;
  Printf.printf "MODEL-DONE checked=%d mismatches=%d exact_instance_checked=%d\n" !total !mism !zchecked
