(* C20 driver: reads the implementation's lines (harness/c20_stats.cpp) on stdin, recomputes each result
   with the extracted model instantiated at binary64 ([float_ops], bit-for-bit) and prints
   `MISMATCH <line> // model: <value> // values: <current list>` for differences.
     VALS <type> v1,v2,..                       sets the current list
     PCT p = unsorted ; sorted ; lpos ; rpos
     MED = median ; median_sorted
     HIST thr = sorted thr ; counts ; means ; medians        (HISTR ratios, HISTP percentiles likewise,
     HISTE base = ...: the thresholds of the answer are the model's input: log/pow are not modelled)
     BIN sorted thr | queries = bins
     STATS = count,p01,p05,p10,p20,p50,p80,p90,p95,p99
   Besides the float instance, lines whose numbers all lie on the grid 2^-12 * Z (|x| < 2^40) are recomputed
   with the exact integer instance [Z_ops] -- the instance the order theorems are proved for -- and the
   discrete results (bins, counts, selected elements) are compared as well (XMISMATCH is also a MISMATCH). *)
let mism = ref 0
let total = ref 0
let zchecked = ref 0

let tf = Float64.to_float
let ff = Float64.of_float
let fl s = ff (float_of_string (trim s))
let flist s = List.map fl (List.filter (fun t -> trim t <> "") (split_on ',' (trim s)))
let same a b = let a = tf a and b = tf b in (Float.is_nan a && Float.is_nan b) || Int64.equal (Int64.bits_of_float a) (Int64.bits_of_float b)
let hex x = let x = tf x in if Float.is_nan x then "nan" else Printf.sprintf "%h" x
let hexl l = String.concat "," (List.map hex l)
let cur_vals = ref ([] : Float64.t list)
let cur_sorted = ref ([] : Float64.t list)
let cur_raw = ref ""
let cur_zsorted = ref (None : z list option)

let report line model =
  incr mism;
  Printf.printf "MISMATCH %s // model: %s // values: %s\n" line model !cur_raw

let same_list a b = List.length a = List.length b && List.for_all2 same a b

(* exact integer instance: x * 2^12 when that is an integer of moderate size *)
let on_grid x = let x = tf x in Float.is_finite x && Float.abs x < 1.0e12 && Float.is_integer (x *. 4096.0)
let zg x = z_of_int (int_of_float (tf x *. 4096.0))
let all_grid l = List.for_all on_grid l

let summaries sums =
  (List.map (fun ((c, _), _) -> int_of_z c) sums, List.map (fun ((_, m), _) -> m) sums, List.map (fun ((_, _), md) -> md) sums)

let check_hist line rhs (st, sums) =
  incr total;
  match split_str " ; " rhs with
  | [ist; icounts; imeans; imeds] ->
    let (c, m, md) = summaries sums in
    let ic = List.map int_of_string (List.filter (fun t -> trim t <> "") (split_on ',' (trim icounts))) in
    if not (same_list st (flist ist) && c = ic && same_list m (flist imeans) && same_list md (flist imeds)) then
      report line (Printf.sprintf "%s ; %s ; %s ; %s" (hexl st) (String.concat "," (List.map string_of_int c)) (hexl m) (hexl md))
  | _ -> report line "unparsable histogram line"

let () =
  (try
    while true do
      let line = input_line stdin in
      match String.index_opt line ' ' with
      | None -> ()
      | Some sp ->
        let op = String.sub line 0 sp in
        let rest = String.sub line (sp + 1) (String.length line - sp - 1) in
        if op = "VALS" then begin
          (match String.index_opt rest ' ' with
           | Some k -> cur_raw := String.sub rest (k + 1) (String.length rest - k - 1)
           | None -> cur_raw := "");
          cur_vals := flist !cur_raw;
          cur_sorted := sort float_ops !cur_vals;
          cur_zsorted := None
        end else
          (match split_str " = " (" " ^ rest) with
           | [lhs; rhs] ->
             let vals = !cur_vals in
             let n = z_of_int (List.length vals) in
             (match op with
              | "PCT" ->
                incr total;
                let p = fl lhs in
                (* percentile l p is by definition percentile_sorted (sort l) p; small lists go through the definition *)
                let mu = if List.length vals <= 48 then percentile float_ops vals p else percentile_sorted float_ops !cur_sorted p in
                let ms = percentile_sorted float_ops !cur_sorted p in
                let l = int_of_z (pct_lpos p n) and r = int_of_z (pct_rpos p n) in
                (match split_str " ; " rhs with
                 | [iu; is; il; ir] ->
                   if not (same mu (fl iu) && same ms (fl is) && l = int_of_string (trim il) && r = int_of_string (trim ir)) then
                     report line (Printf.sprintf "%s ; %s ; %d ; %d" (hex mu) (hex ms) l r)
                   else if all_grid vals then begin
                     (* exact instance: the selected elements are those of the integer model *)
                     incr zchecked;
                     let zs = (match !cur_zsorted with Some z -> z | None -> let z = sort z_ops (List.map zg vals) in cur_zsorted := Some z; z) in
                     let zl = int_of_z (List.nth zs l) and zr = int_of_z (List.nth zs r) in
                     let e = if l = r then float_of_int zl /. 4096.0 else (float_of_int zl /. 4096.0 +. float_of_int zr /. 4096.0) /. 2.0 in
                     if not (same (ff e) (fl iu)) then begin
                       incr mism;
                       Printf.printf "XMISMATCH %s // exact integer model selects %s // values: %s\n" line (hex (ff e)) !cur_raw
                     end
                   end
                 | _ -> report line "unparsable")
              | "MED" ->
                incr total;
                let m = median float_ops vals and ms = median_sorted float_ops !cur_sorted in
                (match split_str " ; " rhs with
                 | [im; ims] -> if not (same m (fl im) && same ms (fl ims)) then report line (Printf.sprintf "%s ; %s" (hex m) (hex ms))
                 | _ -> report line "unparsable")
              | "HIST" ->
                let thr = flist lhs in
                let res = histogram float_ops thr vals in
                check_hist line rhs res;
                if all_grid vals && all_grid thr then begin
                  incr zchecked;
                  let (_, zsums) = histogram z_ops (List.map zg thr) (List.map zg vals) in
                  let zc = List.map (fun ((c, _), _) -> int_of_z c) zsums in
                  let (c, _, _) = summaries (snd res) in
                  (match split_str " ; " rhs with
                   | [_; icounts; _; _] ->
                     let ic = List.map int_of_string (List.filter (fun t -> trim t <> "") (split_on ',' (trim icounts))) in
                     if zc <> ic || zc <> c then begin
                       incr mism;
                       Printf.printf "XMISMATCH %s // exact integer model counts %s // values: %s\n" line (String.concat "," (List.map string_of_int zc)) !cur_raw
                     end
                   | _ -> ())
                end
              | "HISTR" -> check_hist line rhs (hist_from_ratios float_ops (flist lhs) vals)
              | "HISTP" -> check_hist line rhs (hist_from_percentiles_f (flist lhs) vals)
              | "HISTE" ->
                (match split_str " ; " rhs with
                 | ist :: _ -> check_hist line rhs (histogram float_ops (flist ist) vals)
                 | _ -> report line "unparsable")
              | "BIN" ->
                incr total;
                (match split_str " | " lhs with
                 | [sst; sq] ->
                   let st = flist sst and q = flist sq in
                   let b = List.map (fun v -> int_of_z (hist_bin float_ops st v)) q in
                   let ib = List.map int_of_string (List.filter (fun t -> trim t <> "") (split_on ',' (trim rhs))) in
                   if b <> ib then report line (String.concat "," (List.map string_of_int b))
                   else if all_grid st then begin
                     let zst = List.map zg st in
                     let qs = List.filter on_grid q in
                     incr zchecked;
                     List.iter (fun v ->
                         let zb = int_of_z (hist_bin z_ops zst (zg v)) and fb = int_of_z (hist_bin float_ops st v) in
                         if zb <> fb then begin
                           incr mism;
                           Printf.printf "XMISMATCH %s // exact integer model: bin(%s) = %d\n" line (hex v) zb
                         end) qs
                   end
                 | _ -> report line "unparsable")
              | "STATS" ->
                incr total;
                let pp = List.map ff [1.0; 5.0; 10.0; 20.0; 50.0; 80.0; 90.0; 95.0; 99.0] in
                let m = ff (float_of_int (List.length vals)) :: List.map (fun p -> percentile_sorted float_ops !cur_sorted p) pp in
                if not (same_list m (flist rhs)) then report line (hexl m)
              | _ -> ())
           | _ -> ())
    done
  with End_of_file -> ());
  Printf.printf "MODEL-DONE checked=%d mismatches=%d exact_instance_checked=%d\n" !total !mism !zchecked
