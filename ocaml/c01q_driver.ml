(* C01 (stage C01Q) driver: reads the lines of harness/c01_quasi.cpp on stdin.  Every double is converted EXACTLY to a
   canonical rational.  The extracted model (C01q_model, Z mapped to Zarith) is generic over its record of field
   operations: it is run at the operations [eO] below = the extracted exact operations QcO on the value, paired with a
   running rounding-error bound (first-order propagation, in units of the rounding unit: an exact input carries 0, every
   operation adds the magnitude of its own result; kept as a float, it only scales the tolerance).  One evaluation thus
   delivers the exact H+ / r of the model and, entry by entry, the magnitude of the summed terms the comparison is
   relative to:  |implementation - model| <= 1e-9 * bound  (the rounding unit is 2^-53).

     MISMATCH <what> RUN <id> EV <k> ...   the implementation's H_after / r / history / initial H leaves the model by more
                                           than 1e-9 * bound  (which update a solver id applies is part of the tie)
     PROPFAIL <what> RUN <id> EV <k> ...   a PROVED property evaluated directly on the implementation's own numbers, in
                                           exact arithmetic and independently of the model's formulas:
        secant     H_after * dg = dx                          (bfgs, dfp, hoshino, fletcher; sr1 when it updated)
        symmetry   H_after symmetric when H_before is          (all five)
        posdef     H_before positive definite and dx.dg > 0  =>  H_after positive definite (exact LDL' pivots, with the
                   rounding margin added on the diagonal)     (bfgs, dfp, hoshino, fletcher on its dfp/bfgs branches)
        descent    every stored pair has s.y > 0, g <> 0  =>  g . r > 0   (lbfgs; r = H g, the direction is -r)
        history-bound  the history is the most recent min(solver::lbfgs::history, available) pairs   (lbfgs)
     MODEL-DONE checked=<n> mismatches=<m> <counters>

   Compiled by tools/checks/c01.py after `module ZZ = Z  open C01q_model` (the extracted module shadows Zarith's Z). *)

let tol = Q.of_float 1e-9

(* ---- reporting ------------------------------------------------------------------------------------------------- *)
let mism = ref 0
let pfail = ref 0
let printed = ref 0
let counters : (string, int) Hashtbl.t = Hashtbl.create 32
let count k = Hashtbl.replace counters k (1 + (try Hashtbl.find counters k with Not_found -> 0))
let () = List.iter (fun k -> Hashtbl.replace counters k 0)
    ["updates_nonpositive_curvature"; "lbfgs_events_with_nonpositive_curvature_pair"; "posdef_skipped_before_not_pd";
     "ambiguous_branch_skipped"; "updates_nonfinite_output_skipped"; "updates_nonfinite_input_skipped"]
let report kind what id k detail =
  (if kind = "MISMATCH" then incr mism else incr pfail);
  incr printed;
  if !printed <= 60 then Printf.printf "%s %s RUN %s EV %s %s\n" kind what id k detail

(* ---- exact conversions ------------------------------------------------------------------------------------------ *)
let parse_float s =
  let s = String.trim s in
  if s = "nan" then Float.nan else if s = "inf" then Float.infinity else if s = "-inf" then Float.neg_infinity
  else float_of_string s
let floats_of s = if String.trim s = "-" || String.trim s = "" then [] else List.map parse_float (String.split_on_char ',' (String.trim s))
let rows_of s = if String.trim s = "-" then [] else List.map floats_of (String.split_on_char ';' (String.trim s))
let finite_all l = List.for_all Float.is_finite l
let qc_of_q (x : Q.t) : qc = { qnum = Q.num x; qden = Q.den x }
let q_of_qc (x : qc) : Q.t = Q.make x.qnum x.qden
let qz = qc_of_q Q.zero
(* value, |value| as a float, running error bound *)
type et = { v : qc; a : float; m : float }
let fabs_qc (x : qc) : float = Float.abs (Q.to_float (q_of_qc x))
let mk v m = { v; a = fabs_qc v; m }
let eO : et fops =
  { f0 = mk qcO.f0 0.0; f1 = mk qcO.f1 0.0;
    fadd = (fun x y -> let v = qcO.fadd x.v y.v in let a = fabs_qc v in { v; a; m = x.m +. y.m +. a });
    fsub = (fun x y -> let v = qcO.fsub x.v y.v in let a = fabs_qc v in { v; a; m = x.m +. y.m +. a });
    fmul = (fun x y -> let v = qcO.fmul x.v y.v in let a = fabs_qc v in { v; a; m = x.m *. y.a +. x.a *. y.m +. a });
    fopp = (fun x -> { x with v = qcO.fopp x.v });
    fdiv = (fun x y -> let v = qcO.fdiv x.v y.v in let a = fabs_qc v in
             let iy = 1.0 /. y.a in { v; a; m = x.m *. iy +. x.a *. y.m *. iy *. iy +. a });
    finv = (fun y -> let v = qcO.finv y.v in let a = fabs_qc v in { v; a; m = y.m *. a *. a +. a });
    fcmp = (fun x y -> qcO.fcmp x.v y.v) }
let inj (x : float) : et = { v = qc_of_q (Q.of_float x); a = Float.abs x; m = 0.0 }       (* an exact input: error bound 0 *)
let injv = List.map inj
let injm = List.map injv
let qv = List.map Q.of_float
let qm = List.map qv
let rec nat_of_int (n : int) : nat = if n <= 0 then O else S (nat_of_int (n - 1))
let hex x = Printf.sprintf "%h" x
let qstr (x : Q.t) = Printf.sprintf "%.17g" (Q.to_float x)

let split_str sep s =
  let n = String.length sep and m = String.length s in
  let rec go i start acc =
    if i + n > m then List.rev (String.sub s start (m - start) :: acc)
    else if String.sub s i n = sep then go (i + n) (i + n) (String.sub s start (i - start) :: acc)
    else go (i + 1) start acc in
  go 0 0 []
let fields hd =
  List.filter_map (fun t -> match String.index_opt t '=' with
      | Some i -> Some (String.sub t 0 i, String.sub t (i + 1) (String.length t - i - 1))
      | None -> None) (String.split_on_char ' ' hd)
let fld fs k = try List.assoc k fs with Not_found -> "-"

(* |impl - value| <= 1e-9 * bound, exactly *)
let bound_q (e : et) : Q.t = if Float.is_finite e.m then Q.mul tol (Q.of_float (e.m *. 1.0000001)) else Q.of_float Float.max_float
let close (impl : float) (e : et) : bool =
  Float.is_finite impl && Q.leq (Q.abs (Q.sub (Q.of_float impl) (q_of_qc e.v))) (bound_q e)
let first_bad_m (impl : float list list) (model : et list list) =
  let bad = ref None in
  List.iteri (fun i (ri, rm) ->
      List.iteri (fun j (x, e) -> if !bad = None && not (close x e) then bad := Some (i, j, x, e)) (List.combine ri rm))
    (List.combine impl model);
  !bad
let first_bad_v (impl : float list) (model : et list) =
  let bad = ref None in
  List.iteri (fun i (x, e) -> if !bad = None && not (close x e) then bad := Some (i, x, e)) (List.combine impl model);
  !bad
let shape_ok n (m : 'a list list) = List.length m = n && List.for_all (fun r -> List.length r = n) m
let describe (x : float) (e : et) = Printf.sprintf "impl=%s model=%s bound=%.6g" (hex x) (qstr (q_of_qc e.v)) e.m

(* ---- independent exact oracles (Zarith Q, no model function) ---------------------------------------------------- *)
let qdot a b = List.fold_left2 (fun acc x y -> Q.add acc (Q.mul x y)) Q.zero a b
let qmv m v = List.map (fun r -> qdot r v) m
(* positive definiteness of the quadratic form of [a] (its symmetric part), plus [margin] on the diagonal: exact LDL' *)
let posdef (a : Q.t list list) (margin : Q.t list) : bool =
  let n = List.length a in
  let m = Array.of_list (List.map Array.of_list a) in
  let s = Array.make_matrix n n Q.zero in
  for i = 0 to n - 1 do
    for j = 0 to n - 1 do s.(i).(j) <- Q.div (Q.add m.(i).(j) m.(j).(i)) (Q.of_int 2) done
  done;
  List.iteri (fun i d -> s.(i).(i) <- Q.add s.(i).(i) d) margin;
  let ok = ref true in
  (try
     for k = 0 to n - 1 do
       let p = s.(k).(k) in
       if Q.sign p <= 0 then (ok := false; raise Exit);
       for i = k + 1 to n - 1 do
         let f = Q.div s.(i).(k) p in
         if Q.sign f <> 0 then
           for j = k + 1 to n - 1 do s.(i).(j) <- Q.sub s.(i).(j) (Q.mul f s.(k).(j)) done
       done
     done
   with Exit -> ());
  !ok
let exactly_symmetric (a : float list list) =
  let m = Array.of_list (List.map Array.of_list a) in
  let n = Array.length m in
  let ok = ref true in
  for i = 0 to n - 1 do for j = 0 to n - 1 do if m.(i).(j) <> m.(j).(i) then ok := false done done;
  !ok

(* ---- run context -------------------------------------------------------------------------------------------------- *)
let cur_id = ref "?"
let cur_solver = ref "?"
let cur_init = ref "-"
let cur_r = ref 0.0
let cur_history = ref 0
let prev_h1 : float list list option ref = ref None        (* H_after of the previous update of this run *)
let prev_k = ref (-1)
let prev_hist : (float list * float list) list option ref = ref None
let prev_ld_k = ref (-1)
let checked = ref 0

let kind_of = function
  | "sr1" -> Some KSR1 | "dfp" -> Some KDFP | "bfgs" -> Some KBFGS | "hoshino" -> Some KHOSHINO | "fletcher" -> Some KFLETCHER
  | _ -> None

let is_identity (a : float list list) =
  let ok = ref true in
  List.iteri (fun i r -> List.iteri (fun j x -> if x <> (if i = j then 1.0 else 0.0) then ok := false) r) a;
  !ok

(* a decision is numerically ambiguous when the compared quantity is within its rounding bound of the threshold *)
let near (e : et) (c : Q.t) = Q.leq (Q.abs (Q.sub (q_of_qc e.v) c)) (bound_q e)

let handle_qu id k n rest =
  match List.map String.trim (split_str " | " rest) with
  | [sdx; sdg; sh0; sh1] ->
    let dx = floats_of sdx and dg = floats_of sdg and h0 = rows_of sh0 and h1 = rows_of sh1 in
    if List.length dx <> n || List.length dg <> n || not (shape_ok n h0) || not (shape_ok n h1) then
      report "MISMATCH" "event-shape" id k (Printf.sprintf "n=%d" n)
    else if not (finite_all dx && finite_all dg && List.for_all finite_all h0) then count "updates_nonfinite_input_skipped"
    else begin
      let kind = match kind_of !cur_solver with Some kd -> kd | None -> failwith ("unknown quasi solver " ^ !cur_solver) in
      let ki = int_of_string k in
      incr checked;
      count "quasi_updates_checked";
      let s = injv dx and y = injv dg and hq = injm h0 in
      (* -- the chain: H_before of the first update is the initialisation, later the previous H_after or a restart -- *)
      (if ki = 0 then begin
          if !cur_init = "scaled" then begin
            let h = scaled_identity eO (nat_of_int n) s y in
            match first_bad_m h0 h with
            | Some (i, j, x, e) -> report "MISMATCH" "initial-scaled" id k (Printf.sprintf "H_before[%d,%d] %s" i j (describe x e))
            | None -> count "initial_scaled_checked"
          end else begin
            if not (is_identity h0) then report "MISMATCH" "initial-identity" id k "H_before of the first update is not the identity"
            else count "initial_identity_checked"
          end
        end else if !prev_k = ki - 1 then begin
          match !prev_h1 with
          | Some p when p = h0 -> count "chain_checked"
          | Some _ when is_identity h0 -> count "chain_restart_identity"
          | Some _ -> report "MISMATCH" "chain" id k "H_before is neither the previous H_after nor the identity (restart)"
          | None -> ()
        end);
      prev_h1 := Some h1; prev_k := ki;
      if not (List.for_all finite_all h1) then count "updates_nonfinite_output_skipped"
      else begin
        (* -- correspondence: the update this solver id applies -- *)
        let r = inj !cur_r in
        let model = quasi_update eO kind r hq s y in
        let unchanged = (h1 = h0) in
        let bad = first_bad_m h1 model in
        let branch = ref "" in
        (match kind with
         | KSR1 -> if unchanged then (branch := "refused"; count "sr1_refused") else (branch := "applied"; count "sr1_applied")
         | KFLETCHER ->
           let phi = fletcher_phi eO hq s y in
           branch := (if phi_lt0 eO phi then "dfp" else if phi_gt1 eO phi then "bfgs" else "sr1");
           count ("fletcher_" ^ !branch)
         | _ -> ());
        let ambiguous =
          match bad, kind with
          | None, _ -> false
          | Some _, KSR1 ->
            (* the safeguard compares |denom| with r |dx| |v|: ambiguous when the squares are within their bounds *)
            let v = vsub eO s (mv eO hq y) in
            let d = dot eO v y in
            let lhs = eO.fmul d d and rhs = eO.fmul (eO.fmul (eO.fmul r r) (dot eO s s)) (dot eO v v) in
            let diff = eO.fsub lhs rhs in
            let other = if sr1_apply eO r hq s y then hq else sr1_plain eO hq s y in
            near diff Q.zero && first_bad_m h1 other = None
          | Some _, KFLETCHER ->
            (* phi = sy / (sy - yHy): the branch is ambiguous when phi is within its bound of 0 or 1, or when the
               denominator is within its bound of 0 (phi jumps from -inf to +inf) *)
            let sy = dot eO s y and yhy = dot eO (vm eO y hq) y in
            let den = eO.fsub sy yhy in
            let phi = fletcher_phi eO hq s y in
            let amb = near den Q.zero || near phi Q.zero || near phi Q.one || near sy Q.zero || near yhy Q.zero in
            amb && List.exists (fun c -> first_bad_m h1 c = None) [dfp eO hq s y; bfgs eO hq s y; sr1_plain eO hq s y]
          | _ -> false in
        (match bad with
         | Some (i, j, x, e) when not ambiguous ->
           report "MISMATCH" ("update-" ^ !cur_solver) id k
             (Printf.sprintf "H_after[%d,%d] %s%s" i j (describe x e) (if !branch = "" then "" else " model-branch=" ^ !branch))
         | Some _ -> count "ambiguous_branch_skipped"
         | None -> ());
        (* -- the proved properties on the implementation's own numbers -- *)
        let qs = qv dx and qy = qv dg and q0 = qm h0 and q1 = qm h1 in
        let bound = List.map (List.map (fun e -> if Float.is_finite e.m then Q.of_float (e.m *. 1.0000001) else Q.of_float Float.max_float)) model in
        let sy = qdot qs qy in
        let updated = not unchanged in
        (* secant: H_after dg = dx *)
        if updated && not ambiguous && Q.sign sy <> 0 then begin
          let hy = qmv q1 qy in
          let worst = ref None in
          List.iteri (fun i ((hyi, si), bi) ->
              let res = Q.abs (Q.sub hyi si) in
              let scale = List.fold_left2 (fun acc b yj -> Q.add acc (Q.mul b (Q.abs yj))) Q.zero bi qy in
              if !worst = None && Q.gt res (Q.mul tol scale) then worst := Some (i, res, scale))
            (List.combine (List.combine hy qs) bound);
          count "secant_checked";
          match !worst with
          | Some (i, res, scale) ->
            report "PROPFAIL" "secant" id k (Printf.sprintf "solver=%s |(H_after dg - dx)[%d]|=%s exceeds 1e-9 * %s" !cur_solver i (qstr res) (qstr scale))
          | None -> ()
        end;
        (* symmetry *)
        if updated && exactly_symmetric h0 then begin
          count "symmetry_checked";
          let a1 = Array.of_list (List.map Array.of_list q1) and b = Array.of_list (List.map Array.of_list bound) in
          let worst = ref None in
          for i = 0 to n - 1 do for j = i + 1 to n - 1 do
              let d = Q.abs (Q.sub a1.(i).(j) a1.(j).(i)) in
              if !worst = None && Q.gt d (Q.mul tol (Q.add b.(i).(j) b.(j).(i))) then worst := Some (i, j, d)
            done done;
          match !worst with
          | Some (i, j, d) -> report "PROPFAIL" "symmetry" id k (Printf.sprintf "solver=%s |H_after[%d,%d] - H_after[%d,%d]|=%s (H_before symmetric)" !cur_solver i j j i (qstr d))
          | None -> ()
        end;
        (* positive definiteness is preserved when dx.dg > 0 (bfgs, dfp, their convex combinations) *)
        let pd_kind = (match kind with KBFGS | KDFP | KHOSHINO -> true | KFLETCHER -> !branch <> "sr1" && not ambiguous | KSR1 -> false) in
        if Q.sign sy <= 0 then count "updates_nonpositive_curvature";
        if pd_kind && Q.sign sy > 0 then begin
          if posdef q0 (List.map (fun _ -> Q.zero) q0) then begin
            count "posdef_checked";
            let margin = List.map (fun bi -> Q.mul tol (List.fold_left Q.add Q.zero bi)) bound in
            if not (posdef q1 margin) then
              report "PROPFAIL" "posdef" id k (Printf.sprintf "solver=%s dx.dg=%s > 0, H_before positive definite, H_after is not" !cur_solver (qstr sy))
          end else count "posdef_skipped_before_not_pd"
        end
      end
    end
  | _ -> report "MISMATCH" "event-syntax" id k "QU"

let handle_ld id k n h rest =
  match List.map String.trim (split_str " | " rest) with
  | [sg; sss; sys; sr] ->
    let g = floats_of sg and ss = rows_of sss and ys = rows_of sys and r = floats_of sr in
    if List.length g <> n || List.length r <> n || List.length ss <> h || List.length ys <> h
       || not (List.for_all (fun v -> List.length v = n) (ss @ ys)) then
      report "MISMATCH" "event-shape" id k (Printf.sprintf "n=%d h=%d" n h)
    else begin
      let ki = int_of_string k in
      let hist = List.combine ss ys in
      (* -- the history book-keeping: previous history + the new pair, bounded by solver::lbfgs::history; or cleared -- *)
      (if !prev_ld_k = ki - 1 then begin
          match !prev_hist with
          | Some p ->
            if hist = [] then count "history_cleared"
            else begin
              let newest = List.nth hist (h - 1) in
              let expect = lbfgs_push (ZZ.of_int !cur_history) p newest in
              (* kernel-free mirror of C01Q_lbfgs_history (the model's test `ss.size() > history` is regenerated from the
                 source): the history holds the most recent min(history, available) pairs *)
              let full = p @ [newest] in
              let reference = if List.length full > !cur_history then List.tl full else full in
              if reference <> hist then
                report "PROPFAIL" "history-bound" id k
                  (Printf.sprintf "h=%d previous=%d solver::lbfgs::history=%d: the history is not the most recent min(history, previous+1) pairs"
                     h (List.length p) !cur_history);
              if expect = hist then count "history_checked"
              else report "MISMATCH" "history" id k
                  (Printf.sprintf "h=%d previous=%d bound=%d: not (previous ++ [newest]) truncated from the front" h (List.length p) !cur_history)
            end
          | None -> ()
        end else if ki = 0 && hist <> [] then report "MISMATCH" "history" id k "first direction with a non-empty history");
      prev_hist := Some hist; prev_ld_k := ki;
      if not (finite_all g && List.for_all finite_all ss && List.for_all finite_all ys) then count "directions_nonfinite_input_skipped"
      else if not (finite_all r) then count "directions_nonfinite_output_skipped"
      else if n * h > 96 && not (ki < 6 || ki mod 6 = 0) then count "lbfgs_directions_recorded_not_recomputed"
      else begin
        incr checked;
        count "lbfgs_directions_checked";
        Hashtbl.replace counters "lbfgs_max_history" (max h (try Hashtbl.find counters "lbfgs_max_history" with Not_found -> 0));
        let qhist = List.map (fun (s, y) -> (injv s, injv y)) hist in
        let model = two_loop eO qhist (injv g) in
        (match first_bad_v r model with
         | Some (i, x, e) -> report "MISMATCH" "two-loop" id k (Printf.sprintf "h=%d r[%d] %s" h i (describe x e))
         | None -> ());
        (* descent: every stored pair has s.y > 0 and g <> 0  =>  g . r > 0 *)
        let curv = List.map (fun (s, y) -> qdot (qv s) (qv y)) hist in
        let npos = List.length (List.filter (fun c -> Q.sign c <= 0) curv) in
        if npos > 0 then count "lbfgs_events_with_nonpositive_curvature_pair";
        if npos = 0 && List.exists (fun x -> x <> 0.0) g then begin
          count "descent_checked";
          let qg = qv g in
          let gr = qdot qg (qv r) in
          let slack = List.fold_left2 (fun acc gi e -> Q.add acc (Q.mul (Q.abs gi) (Q.of_float (if Float.is_finite e.m then e.m *. 1.0000001 else Float.max_float)))) Q.zero qg model in
          if Q.leq gr (Q.neg (Q.mul tol slack)) || (Q.sign slack = 0 && Q.sign gr <= 0) then
            report "PROPFAIL" "descent" id k (Printf.sprintf "h=%d all s.y > 0 but g.r=%s is not positive (-r is not a descent direction)" h (qstr gr))
        end
      end
    end
  | _ -> report "MISMATCH" "event-syntax" id k "LD"

let () =
  (try
     while true do
       let line = input_line stdin in
       match String.split_on_char ' ' line with
       | "QRUN" :: id :: _ ->
         let fs = fields line in
         cur_id := id; cur_solver := fld fs "solver"; cur_init := fld fs "init";
         cur_r := (match fld fs "r" with "-" -> 0.0 | s -> parse_float s);
         cur_history := (match fld fs "history" with "-" -> 0 | s -> int_of_string s);
         prev_h1 := None; prev_k := -1; prev_hist := None; prev_ld_k := -1;
         count "runs"
       | "QU" :: id :: k :: n :: _ ->
         let pre = String.concat " " ["QU"; id; k; n] in
         let rest = String.sub line (String.length pre + 1) (String.length line - String.length pre - 1) in
         (try handle_qu id k (int_of_string n) rest
          with Failure m | Invalid_argument m -> report "MISMATCH" "driver" id k m)
       | "LD" :: id :: k :: n :: h :: _ ->
         let pre = String.concat " " ["LD"; id; k; n; h] in
         let rest = String.sub line (String.length pre + 1) (String.length line - String.length pre - 1) in
         (try handle_ld id k (int_of_string n) (int_of_string h) rest
          with Failure m | Invalid_argument m -> report "MISMATCH" "driver" id k m)
       | _ -> ()
     done
   with End_of_file -> ());
  let cs = Hashtbl.fold (fun k v acc -> (k, v) :: acc) counters [] in
  let cs = List.sort compare cs in
  Printf.printf "MODEL-DONE checked=%d mismatches=%d propfails=%d %s\n" !checked !mism !pfail
    (String.concat " " (List.map (fun (k, v) -> Printf.sprintf "%s=%d" k v) cs))
