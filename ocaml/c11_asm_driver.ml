(* C11, extension stage "assemble": re-computes the assembly of the final boosting model with the model extracted from Coq
   (C11_Assemble_Defs on top of the C10 learner model; exact rationals, Z = Zarith) from what the harness observed on the
   real library, and evaluates the proved clauses on the real per-learner prediction vectors.

   Input (harness/c11_gboost.cpp):  ASM / ASMPREV / ASMFOLD / ASMFINAL lines, everything else is skipped.
   Output:
     MISMATCH asm-count / asm-learner / asm-bias   the real final model differs from `assemble no prev extras folds opt`
         (prev = the state the real object was in before fit(), extras = m_extras with the fold models of the optimum trial
         at their slots and a poisoned model everywhere else); learner counts exactly, tables within 1e-12 of the summed
         magnitudes;
     PROPFAIL asm-closed     the real final model is not  scale (1/K) (merge (concat fold learners)), bias = mean of biases
         (closed form of C11_assemble_closed_form, computed without the translated kernels);
     PROPFAIL asm-predict    predict() of the final model differs from bias + sum of its learners' own predictions, accumulated
         in list order by the extracted sum_incrs (1e-12 of the summed magnitudes), or depends on what the buffer held;
     PROPFAIL asm-average    predict() of the final model differs from the mean over the folds of (bias_k + sum of the fold's
         learners' predictions) (extracted avg_rows / sum_incrs on the real vectors; 1e-9 of the summed magnitudes);
     PROPFAIL asm-fold-count a fold model keeps more learners than its statistics table has rounds;
     MISMATCH asm-cut-count / asm-cut-learner / asm-cut-rows   the real gboost::result_t::done(round) on fitted (mergeable) learners
         vs the extracted result_done (erase from `round`, then merge) and round + 1 statistics rows;
     MODEL-DONE checked=<n> mismatches=<m> ...
   NB: compiled by tools/checks/c11.py after `open C11_asm_model` (no zutil.ml.inc: Z is not an inductive here). *)
module B = Big_int_Z

let mism = ref 0
let total = ref 0
let printed = ref 0
let report kind what id detail =
  Stdlib.incr mism;
  Stdlib.incr printed;
  if !printed <= 60 then Printf.printf "%s %s %s %s\n" kind what id detail

(* ---- exact conversion of doubles ---------------------------------------------------------------- *)
let qz = { qnum = B.zero_big_int; qden = B.unit_big_int }
let q_of_float (x : float) : q =
  if x = 0.0 then qz
  else begin
    let (m, e) = Float.frexp x in
    let mi = Int64.of_float (Float.ldexp m 53) in
    let rec strip mi e = if Int64.rem mi 2L = 0L then strip (Int64.div mi 2L) (e + 1) else (mi, e) in
    let (mi, e) = strip mi (e - 53) in
    let n = B.big_int_of_int64 mi in
    if e >= 0 then { qnum = B.shift_left_big_int n e; qden = B.unit_big_int }
    else { qnum = n; qden = B.shift_left_big_int B.unit_big_int (- e) }
  end
let toQ (x : q) : Q.t = Q.make x.qnum x.qden
let ofQ (x : Q.t) : q = { qnum = Q.num x; qden = Q.den x }
let float_of_q (x : q) : float = Q.to_float (toQ x)
let ( +/ ) a b = ofQ (Q.add (toQ a) (toQ b)) and ( */ ) a b = ofQ (Q.mul (toQ a) (toQ b))
let qabs x = ofQ (Q.abs (toQ x))
let close a b tol = Q.leq (Q.abs (Q.sub (toQ a) (toQ b))) (toQ tol)
let q_of_ratio a b = { qnum = B.big_int_of_int a; qden = B.big_int_of_int b }
let one = q_of_ratio 1 1
let rel9 = q_of_ratio 1 1000000000
let rel12 = q_of_ratio 1 1000000000000
let tiny = { qnum = B.unit_big_int; qden = B.shift_left_big_int B.unit_big_int 200 }
let norm (x : q) : q = ofQ (toQ x)          (* Zarith normalises: keeps the extracted (unreduced) sums small *)

let parse_float s = let s = String.trim s in
  if s = "nan" || s = "-nan" then Float.nan else if s = "inf" then Float.infinity else if s = "-inf" then Float.neg_infinity
  else float_of_string s
let split c s = if s = "" then [] else String.split_on_char c s
let floats_of s = List.map parse_float (split ',' (String.trim s))
let rec nat_of_int n = if n <= 0 then O else S (nat_of_int (n - 1))
let split_str sep s =
  let n = String.length sep and m = String.length s in
  let rec go i start acc =
    if i + n > m then List.rev (String.sub s start (m - start) :: acc)
    else if String.sub s i n = sep then go (i + n) (i + n) (String.sub s start (i - start) :: acc)
    else go (i + 1) start acc in
  go 0 0 []
let field s = let s = String.trim s in if s = "-" then "" else s

(* ---- learners (serialisation of the C10 harness) --------------------------------------------------- *)
exception Bad of string
let qs_of s = List.map (fun f -> if Float.is_finite f then q_of_float f else raise (Bad "non-finite coefficient")) (floats_of s)
let tables_of s = List.map qs_of (split '/' s)
let row k t = match List.nth_opt t k with Some r -> r | None -> []
let parse_w (w : string) : wl =
  match split ':' w with
  | ["affine"; f; t] -> let t = tables_of t in WAffine (nat_of_int (int_of_string f), row 0 t, row 1 t)
  | ["stump"; f; thr; t] -> let t = tables_of t in
      WStump (nat_of_int (int_of_string f), q_of_float (parse_float thr), row 0 t, row 1 t)
  | ["hinge"; f; thr; dir; t] -> let t = tables_of t in
      WHinge (nat_of_int (int_of_string f), q_of_float (parse_float thr), dir = "left", row 0 t, row 1 t)
  | "table" :: f :: hs :: h2t :: rest ->
      let t = match rest with [t] -> tables_of t | _ -> [] in
      WTable (nat_of_int (int_of_string f), List.map B.big_int_of_string (split ',' hs),
              List.map B.big_int_of_string (split ',' h2t), t)
  | "dtree" :: ns :: rest ->
      let t = match rest with [t] -> tables_of t | _ -> [] in
      let node s = match split '_' s with
        | [f; thr; next; table] -> { n_feature = nat_of_int (int_of_string f); n_thr = q_of_float (parse_float thr);
                                     n_next = B.big_int_of_string next; n_table = B.big_int_of_string table }
        | _ -> raise (Bad ("bad node " ^ s)) in
      WTree (List.map node (split '~' ns), t)
  | _ -> raise (Bad ("bad learner " ^ w))
let parse_ws s = List.map parse_w (split ';' (field s))
let parse_bias s = qs_of (field s)

let tabs = function WAffine (_, w, b) | WHinge (_, _, _, w, b) -> [w; b] | WStump (_, _, lo, hi) -> [lo; hi]
                    | WTable (_, _, _, t) | WTree (_, t) -> t
let coeff_mag (ws : wl list) : q =
  List.fold_left (fun acc w -> List.fold_left (fun acc r -> List.fold_left (fun acc x -> acc +/ qabs x) acc r) acc (tabs w)) qz ws
(* structure exactly, coefficients within tol *)
let same_learner (tol : q) (a : wl) (b : wl) : bool =
  let tclose x y = List.length x = List.length y &&
                   List.for_all2 (fun r s -> List.length r = List.length s && List.for_all2 (fun u v -> close u v tol) r s) x y in
  match a, b with
  | WAffine (f, w, b1), WAffine (g, w', b2) -> f = g && tclose [w; b1] [w'; b2]
  | WStump (f, t, lo, hi), WStump (g, t', lo', hi') -> f = g && qeq_bool t t' && tclose [lo; hi] [lo'; hi']
  | WHinge (f, t, d, w, b1), WHinge (g, t', d', w', b2) -> f = g && qeq_bool t t' && d = d' && tclose [w; b1] [w'; b2]
  | WTable (f, hs, m, t), WTable (g, hs', m', t') ->
      f = g && List.length hs = List.length hs' && List.for_all2 B.eq_big_int hs hs' &&
      List.length m = List.length m' && List.for_all2 B.eq_big_int m m' && tclose t t'
  | WTree (n, t), WTree (n', t') ->
      List.length n = List.length n' &&
      List.for_all2 (fun a b -> a.n_feature = b.n_feature && qeq_bool a.n_thr b.n_thr && B.eq_big_int a.n_next b.n_next &&
                                B.eq_big_int a.n_table b.n_table) n n' && tclose t t'
  | _ -> false
let kind_of = function WAffine _ -> "affine" | WStump _ -> "stump" | WHinge _ -> "hinge" | WTable _ -> "table" | WTree _ -> "dtree"
let kinds ws = String.concat "," (List.map kind_of ws)

(* ---- per-learner prediction vectors -------------------------------------------------------------------- *)
(* P;P;.. with P = ns*no doubles (sample-major)  ->  for every sample the list (one per learner) of increments *)
let parse_preds (s : string) (ns : int) (no : int) : float array list =
  List.map (fun p -> let a = Array.of_list (floats_of p) in
                     if Array.length a <> ns * no then raise (Bad "prediction vector of the wrong size"); a) (split ';' (field s))
let incs_at (ps : float array list) (i : int) (no : int) : q list option list =
  List.map (fun a -> Some (List.init no (fun o -> q_of_float a.(i * no + o)))) ps
let finite_preds ps = List.for_all (fun a -> Array.for_all Float.is_finite a) ps

(* ---- state of one fit ------------------------------------------------------------------------------------ *)
type hdr = { id : string; no : int; ns : int; folds : int; trials : int; opt : int; mergeable : bool; ill : bool; refit : bool;
             what : string }
let cur : hdr option ref = ref None
let prev : (string * string) ref = ref ("", "")
let folds_seen : (int * int * string * string * string) list ref = ref []      (* fold, rounds, bias, ws, preds *)

let kv tok = match String.index_opt tok '=' with
  | Some i -> (String.sub tok 0 i, String.sub tok (i + 1) (String.length tok - i - 1)) | None -> (tok, "")

let n_fits = ref 0 and n_refits = ref 0 and n_merged = ref 0 and n_samples = ref 0 and n_skipped_ill = ref 0 and n_nonfinite = ref 0
let n_learners = ref 0 and n_stale_prev = ref 0 and n_cuts = ref 0 and n_cuts_merged = ref 0

let check_final (h : hdr) (fbias : string) (fws : string) (fpreds : string) (clean : string) (dirty : string) =
  Stdlib.incr total; Stdlib.incr n_fits;
  if h.refit then Stdlib.incr n_refits;
  let no = nat_of_int h.no in
  let zbig = B.big_int_of_int in
  let fms = List.sort compare !folds_seen in
  if List.length fms <> h.folds || List.mapi (fun i (f, _, _, _, _) -> f = i) fms |> List.exists not then
    report "PROPFAIL" "asm-folds" h.id (Printf.sprintf "fold models of the optimum trial are not stored for every fold (%d of %d) ;; %s" (List.length fms) h.folds h.what)
  else begin
    let fold_gbm = List.map (fun (_, _, b, ws, _) -> { g_bias = parse_bias b; g_ws = parse_ws ws }) fms in
    let real = { g_bias = parse_bias fbias; g_ws = parse_ws fws } in
    let prev_m = { g_bias = parse_bias (fst !prev); g_ws = parse_ws (snd !prev) } in
    if prev_m.g_ws <> [] then Stdlib.incr n_stale_prev;
    n_learners := !n_learners + List.length real.g_ws;
    (* every fold model keeps at most `rounds` learners *)
    List.iter2 (fun (f, rounds, _, _, _) m ->
        if List.length m.g_ws > rounds then
          report "PROPFAIL" "asm-fold-count" h.id (Printf.sprintf "fold %d keeps %d learners, its statistics end at round %d ;; %s" f (List.length m.g_ws) rounds h.what))
      fms fold_gbm;
    (* m_extras: the fold models of the optimum trial at their slots, a poisoned model elsewhere *)
    let poison = { g_bias = List.init h.no (fun _ -> q_of_float 1e9); g_ws = [WStump (O, qz, [q_of_float 1e9], [q_of_float 1e9])] } in
    let extras = List.init (h.folds * h.trials) (fun slot ->
        if slot / h.folds = h.opt then List.nth fold_gbm (slot mod h.folds) else poison) in
    let model = assemble no prev_m extras (zbig h.folds) (zbig h.opt) in
    let all_fold_ws = List.concat (List.map (fun m -> m.g_ws) fold_gbm) in
    let k = q_of_ratio 1 h.folds in
    let mag = (coeff_mag all_fold_ws) */ k in
    let tol = (rel12 */ mag) +/ tiny in
    let bias_mag = List.fold_left (fun acc m -> List.fold_left (fun acc x -> acc +/ qabs x) acc m.g_bias) qz fold_gbm in
    let btol = (rel12 */ bias_mag) +/ tiny in
    let compare_with kind what (m : gbm) =
      if List.length m.g_ws <> List.length real.g_ws then
        report kind (what ^ "-count") h.id
          (Printf.sprintf "the model keeps %d learners [%s], the implementation %d [%s] (folds hold %d, the object held %d before fit) ;; %s"
             (List.length m.g_ws) (kinds m.g_ws) (List.length real.g_ws) (kinds real.g_ws) (List.length all_fold_ws) (List.length prev_m.g_ws) h.what)
      else if not (List.for_all2 (same_learner tol) m.g_ws real.g_ws) then begin
        let i = ref 0 in
        List.iteri (fun j (a, b) -> if !i = 0 && not (same_learner tol a b) then i := j + 1) (List.combine m.g_ws real.g_ws);
        report kind (what ^ "-learner") h.id (Printf.sprintf "learner %d of the final model differs from the assembled one (1/%d scaling, merge) ;; %s" (!i - 1) h.folds h.what)
      end;
      if List.length m.g_bias <> List.length real.g_bias || not (List.for_all2 (fun a b -> close a b btol) m.g_bias real.g_bias) then
        report kind (what ^ "-bias") h.id
          (Printf.sprintf "final bias [%s] differs from the assembled one [%s] (%d folds) ;; %s"
             (String.concat "," (List.map (fun x -> Printf.sprintf "%h" (float_of_q x)) real.g_bias))
             (String.concat "," (List.map (fun x -> Printf.sprintf "%h" (float_of_q x)) m.g_bias)) h.folds h.what) in
    compare_with "MISMATCH" "asm" model;
    (* closed form, without the kernels *)
    let closed = { g_bias = List.init h.no (fun o -> (List.fold_left (fun acc m -> acc +/ (match List.nth_opt m.g_bias o with Some x -> x | None -> qz)) qz fold_gbm) */ k);
                   g_ws = List.map (scale [k]) (merge all_fold_ws) } in
    compare_with "PROPFAIL" "asm-closed" closed;
    if List.length real.g_ws < List.length all_fold_ws then Stdlib.incr n_merged;
    (* ---- prediction clauses on the real per-learner vectors ---- *)
    let fps = parse_preds fpreds h.ns h.no in
    let fold_ps = List.map (fun (_, _, _, _, p) -> parse_preds p h.ns h.no) fms in
    let cl = Array.of_list (floats_of clean) and di = Array.of_list (floats_of dirty) in
    if Array.length cl <> h.ns * h.no || Array.length di <> h.ns * h.no then raise (Bad "outputs of the wrong size");
    (* the buffer's previous contents must not matter (bit-exact) *)
    (let bad = ref (-1) in
     Array.iteri (fun i x -> if !bad < 0 && Int64.bits_of_float x <> Int64.bits_of_float di.(i) && not (Float.is_nan x && Float.is_nan di.(i)) then bad := i) cl;
     if !bad >= 0 then
       report "PROPFAIL" "asm-predict" h.id (Printf.sprintf "predict() into a buffer holding 7.25 gives %h, into a zeroed buffer %h (output %d): accumulated into, not assigned ;; %s" di.(!bad) cl.(!bad) !bad h.what));
    let finite = finite_preds fps && List.for_all finite_preds fold_ps && Array.for_all Float.is_finite cl in
    if not finite then Stdlib.incr n_nonfinite
    else begin
      (* magnitude hidden inside affine / hinge learners (w * x + b with |x| <= 2 in the harness' datasets) *)
      let hidden ws = List.fold_left (fun acc w -> match w with
          | WAffine (_, ww, b) | WHinge (_, _, _, ww, b) ->
              acc +/ (List.fold_left (fun a x -> a +/ (qabs x */ q_of_ratio 3 1)) qz ww) +/ (List.fold_left (fun a x -> a +/ qabs x) qz b)
          | _ -> acc) qz ws in
      let hid_final = hidden real.g_ws and hid_folds = (hidden all_fold_ws) */ k in
      let stop = ref false in
      for i = 0 to h.ns - 1 do
        if not !stop then begin
          Stdlib.incr n_samples;
          (* predict = bias + learners, in list order *)
          let incs = incs_at fps i h.no in
          let row = List.map norm (sum_incrs no real.g_bias incs (List.init h.no (fun _ -> qz))) in
          let row_dirty = List.map norm (sum_incrs no real.g_bias incs (List.init h.no (fun _ -> q_of_float 7.25))) in
          let magf = List.init h.no (fun o ->
              List.fold_left (fun acc d -> match d with Some v -> acc +/ qabs (List.nth v o) | None -> acc) (qabs (List.nth real.g_bias o)) incs) in
          List.iteri (fun o r ->
              let got = q_of_float cl.(i * h.no + o) in
              if not !stop && not (close r got ((rel12 */ (one +/ List.nth magf o +/ hid_final)) +/ tiny)) then begin
                stop := true;
                report "PROPFAIL" "asm-predict" h.id
                  (Printf.sprintf "predict() = %h at sample#%d output %d, bias + sum of the %d learners' predictions = %h ;; %s" cl.(i * h.no + o) i o (List.length incs) (float_of_q r) h.what)
              end) row;
          (* the model's do_predict on a row that held 7.25 vs the real one *)
          List.iteri (fun o r ->
              let got = di.(i * h.no + o) in
              if not !stop && Float.is_finite got && not (close r (q_of_float got) ((rel12 */ (one +/ List.nth magf o +/ hid_final)) +/ tiny)) then begin
                stop := true;
                report "MISMATCH" "asm-predict-dirty" h.id
                  (Printf.sprintf "predict() into a row holding 7.25 = %h at sample#%d output %d, the model's do_predict gives %h ;; %s" got i o (float_of_q r) h.what)
              end) row_dirty;
          (* predict(final) = mean over the folds of predict(fold model) *)
          if not h.ill then begin
            let rows = List.map2 (fun m ps -> List.map norm (sum_incrs no m.g_bias (incs_at ps i h.no) [])) fold_gbm fold_ps in
            let avg = avg_rows no rows in
            let magk = List.init h.no (fun o ->
                (List.fold_left2 (fun acc m ps ->
                     List.fold_left (fun acc d -> match d with Some v -> acc +/ qabs (List.nth v o) | None -> acc) (acc +/ qabs (List.nth m.g_bias o)) (incs_at ps i h.no))
                    qz fold_gbm fold_ps) */ k) in
            List.iteri (fun o a ->
                let got = q_of_float cl.(i * h.no + o) in
                if not !stop && not (close a got ((rel9 */ (one +/ List.nth magk o +/ hid_folds)) +/ tiny)) then begin
                  stop := true;
                  report "PROPFAIL" "asm-average" h.id
                    (Printf.sprintf "predict() = %h at sample#%d output %d, the mean of the %d fold models' predictions is %h ;; %s" cl.(i * h.no + o) i o h.folds (float_of_q a) h.what)
                end) avg
          end
        end
      done;
      if h.ill then Stdlib.incr n_skipped_ill
    end
  end

let () =
  (try
     while true do
       let line = input_line stdin in
       if String.length line > 3 && String.sub line 0 3 = "ASM" then begin
         try
           let parts = List.map String.trim (split_str " | " line) in
           match parts with
           | first :: rest ->
               (match String.split_on_char ' ' first, rest with
                | "ASM" :: id :: toks, [] ->
                    let what = match split_str " ;; " line with _ :: w :: _ -> w | _ -> "" in
                    let tbl = List.map kv toks in
                    let geti k = try int_of_string (List.assoc k tbl) with _ -> raise (Bad ("missing " ^ k)) in
                    cur := Some { id; no = geti "no"; ns = geti "ns"; folds = geti "folds"; trials = geti "trials"; opt = geti "opt";
                                  mergeable = geti "mergeable" = 1; ill = geti "ill" = 1; refit = geti "refit" > 0; what };
                    folds_seen := []; prev := ("", "")
                | ["ASMPREV"; _], [b; ws] -> prev := (b, ws)
                | ["ASMFOLD"; _; fold; rounds], [b; ws; ps] ->
                    folds_seen := (int_of_string fold, int_of_string rounds, b, ws, ps) :: !folds_seen
                | ["ASMCUT"; id; round; rows], [before; after] ->
                    Stdlib.incr total; Stdlib.incr n_cuts;
                    let b = parse_ws before and a = parse_ws after in
                    let r = int_of_string round in
                    let m = result_done (B.big_int_of_int r) b in
                    if List.length a < List.length (List.filteri (fun i _ -> i < r) b) then Stdlib.incr n_cuts_merged;
                    let tol = (rel12 */ coeff_mag b) +/ tiny in
                    if List.length m <> List.length a then
                      report "MISMATCH" "asm-cut-count" id (Printf.sprintf "result.done(%d): the model keeps %d learners [%s], the implementation %d [%s] of [%s]"
                                                              r (List.length m) (kinds m) (List.length a) (kinds a) (kinds b))
                    else if not (List.for_all2 (same_learner tol) m a) then
                      report "MISMATCH" "asm-cut-learner" id (Printf.sprintf "result.done(%d): kept learners differ from merge (firstn %d ..) of [%s]: %s -> %s" r r (kinds b) before after);
                    if int_of_string rows <> r + 1 then
                      report "MISMATCH" "asm-cut-rows" id (Printf.sprintf "result.done(%d) keeps %s statistics rows" r rows)
                | ["ASMFINAL"; id], [b; ws; ps; clean; dirty] ->
                    (match !cur with
                     | Some h when h.id = id -> check_final h b ws ps clean dirty
                     | _ -> report "MISMATCH" "asm-input" id "ASMFINAL without its ASM header")
                | _ -> ())
           | [] -> ()
         with Bad msg -> (match !cur with
             | Some h -> Stdlib.incr n_nonfinite; Printf.printf "SKIP asm %s %s\n" h.id msg
             | None -> ())
       end
     done
   with End_of_file -> ());
  Printf.printf "ASM-DONE fits=%d refits=%d refits_with_stale_learners=%d final_merged=%d final_learners=%d samples=%d ill_skipped_average=%d nonfinite_skipped=%d cuts=%d cuts_merged=%d\n"
    !n_fits !n_refits !n_stale_prev !n_merged !n_learners !n_samples !n_skipped_ill !n_nonfinite !n_cuts !n_cuts_merged;
  Printf.printf "MODEL-DONE checked=%d mismatches=%d\n" !total !mism
