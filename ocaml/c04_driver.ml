(* C04 driver: reads the lines of harness/c04_program.cpp on stdin. For every SOLVE line it rebuilds the caller's
   program as exact rationals, checks the three normalisation divisors against the exact squared norms, normalises
   the (reduced) program with the extracted model, recomputes objective / surrogate gap / dual and primal residuals
   from the returned (x,u,v), compares them with the reported ones, and re-takes the decision of solver_t::done
   (extracted from the translated source expressions) on the reported numbers.
   Independently of the model's decisions it verifies in exact arithmetic that the constructed optimum is a KKT point
   of the stated program (GENBAD otherwise: the generator is wrong, not the library) and re-applies the feasibility
   clause of the property exactly (PROPFAIL).
   For every REDUCE line (program::reduce of the library next to Eigen's fullPivLu of [A|b]^T): (a) the printed factors are a
   factorisation (the extracted [lu_valid_b] exactly; when the factors are not exact in doubles, P M^T Q = L U within 1e-12 of
   the summed terms and the same structural conditions), (b) the model's assembly of the reduced system from (P, L, U, rank)
   against the library's [A'|b'] (1e-9 of the summed terms; exactly for the early return), (c) the conclusion of
   C04_reduce_same_solutions on the implementation, by an elimination over Q coded here independently of the model: the row
   spaces of [A|b] and of the library's [A'|b'] coincide (equivalently: same solution set and same consistency) and the
   reduced system has exactly rank[A|b] rows (PROPFAIL reduce-...).
   Prints `MISMATCH <what> id=<id> ...`, `PROPFAIL ...`, `GENBAD ...` and a final `MODEL-DONE checked=<n> ...`.
   NB: compiled by tools/checks/c04.py after `open C04_model` (no zutil.ml.inc: Z is Zarith here). *)
module B = Big_int_Z

let mism = ref 0
let total = ref 0
let printed = ref 0
let decisions = ref 0
let ambiguous = ref 0
let kkt_ok = ref 0
let compared = ref 0
let report kind what id detail =
  incr mism;
  incr printed;
  if !printed <= 100 then Printf.printf "%s %s id=%s %s\n" kind what id detail

(* ---- exact conversion of doubles ---------------------------------------------------------------- *)
let qz = { qnum = B.zero_big_int; qden = B.unit_big_int }
let q_of_int n = { qnum = B.big_int_of_int n; qden = B.unit_big_int }
let q_of_float (x : float) : q =
  if x = 0.0 then qz
  else begin
    let (m, e) = Float.frexp x in
    let mi = Int64.of_float (Float.ldexp m 53) in
    let rec strip mi e = if Int64.rem mi 2L = 0L then strip (Int64.div mi 2L) (e + 1) else (mi, e) in
    let (mi, e) = strip mi (e - 53) in
    let n = B.big_int_of_int64 mi in
    if e >= 0 then { qnum = B.shift_left_big_int n e; qden = B.unit_big_int }
    else { qnum = n; qden = B.shift_left_big_int B.unit_big_int (- e) }
  end
let float_of_q (x : q) : float = Q.to_float (Q.make x.qnum x.qden)
let parse_float s = let s = String.trim s in
  if s = "nan" || s = "-nan" then Float.nan else if s = "inf" then Float.infinity else if s = "-inf" then Float.neg_infinity
  else float_of_string s
let split c s = if s = "" then [] else String.split_on_char c s
let fvec s = let s = String.trim s in if s = "-" || s = "" then [] else List.map parse_float (split ',' s)
let fmat s = let s = String.trim s in if s = "-" || s = "" then [] else List.map fvec (split ';' s)
let qvec = List.map q_of_float
let qmat = List.map qvec
let finite_vec = List.for_all Float.is_finite
let ( +/ ) = qplus and ( -/ ) = qminus and ( */ ) = qmult and ( // ) = qdiv
let qle = qle_bool
let qlt a b = not (qle b a)

let split_str sep s =
  let n = String.length sep and m = String.length s in
  let rec go i start acc =
    if i + n > m then List.rev (String.sub s start (m - start) :: acc)
    else if String.sub s i n = sep then go (i + n) (i + n) (String.sub s start (i - start) :: acc)
    else go (i + 1) start acc in
  go 0 0 []

let eps = ref (q_of_float 1e-10)
let eps2 = ref (q_of_float 1e-8)
let minn = ref (q_of_float 1e-3)
let feps = ref 1e-10
let feps2 = ref 1e-8

let kv tok = match split '=' tok with [k; v] -> (k, v) | _ -> (tok, "")

(* float magnitudes of the summed terms (tolerances only; never part of a decision) *)
let fabs = Float.abs
let fdot_abs a b = List.fold_left2 (fun s x y -> s +. fabs (x *. y)) 0.0 a b
let safe_dot_abs a b = if List.length a = List.length b then fdot_abs a b else 0.0
let col j m = List.map (fun r -> List.nth r j) m

(* states returned with status unfeasible/unbounded may carry the objective and residuals of the last *trial* point of
   a failed line search while (x,u,v) are the previous iterate (solve_with_inequality, stage 2): for them a
   disagreement is what the code does -- counted (stale), not reported *)
let stale = ref 0
let neg_u = ref 0
let u_checked = ref 0
let stale_now = ref false
let gating = ref true
let close what id a b tol =
  incr compared;
  let d = qabs (a -/ b) in
  if not (qle d (q_of_float tol)) then begin
    if !gating then
      report "MISMATCH" what id (Printf.sprintf "model=%h impl=%h |diff|=%g tol=%g" (float_of_q a) (float_of_q b) (float_of_q d) tol)
    else stale_now := true
  end


(* ---- program::reduce ------------------------------------------------------------------------------------------------ *)
let rec nat_of_int n = if n <= 0 then O else S (nat_of_int (n - 1))
let ivec s = let s = String.trim s in if s = "-" || s = "" then [] else List.map (fun t -> int_of_string (String.trim t)) (split ',' s)
let red_total = ref 0 and red_exact = ref 0 and red_reduced = ref 0 and red_full = ref 0 and red_incons = ref 0
let red_exact_rowspace = ref 0 and red_empty = ref 0
let red_ranks = Hashtbl.create 16
let zq (x : q) : Q.t = Q.make x.qnum x.qden

(* reduced echelon basis with full pivoting over Q: list of (pivot column, row with pivot 1 and 0 at the other pivot columns) *)
let echelon_basis (rows : Q.t array list) (w : int) : (int * Q.t array) list =
  let rows = Array.of_list (List.map Array.copy rows) in
  let nr = Array.length rows in
  let used = Array.make nr false in
  let out = ref [] in
  let continue = ref true in
  while !continue do
    let best = ref Q.zero and bi = ref (-1) and bj = ref (-1) in
    for i = 0 to nr - 1 do
      if not used.(i) then
        for j = 0 to w - 1 do
          let a = Q.abs rows.(i).(j) in
          if Q.gt a !best then begin best := a; bi := i; bj := j end
        done
    done;
    if !bi < 0 then continue := false
    else begin
      let i0 = !bi and j0 = !bj in
      used.(i0) <- true;
      let pv = rows.(i0).(j0) in
      rows.(i0) <- Array.map (fun x -> Q.div x pv) rows.(i0);
      for i = 0 to nr - 1 do
        if i <> i0 && Q.sign rows.(i).(j0) <> 0 then begin
          let f = rows.(i).(j0) in
          rows.(i) <- Array.mapi (fun j x -> Q.sub x (Q.mul f rows.(i0).(j))) rows.(i)
        end
      done;
      out := (j0, i0) :: !out
    end
  done;
  List.rev_map (fun (j0, i0) -> (j0, rows.(i0))) !out

(* is v in the span of the basis?  residual of the elimination against the magnitude of the summed terms; (ok, exact) *)
let in_span (basis : (int * Q.t array) list) (v : Q.t array) (rtol : float) : bool * bool =
  let w = Array.length v in
  let res = Array.copy v and mag = Array.map (fun x -> Float.abs (Q.to_float x)) v in
  List.iter (fun (pc, row) ->
      let f = v.(pc) in
      if Q.sign f <> 0 then
        for j = 0 to w - 1 do
          res.(j) <- Q.sub res.(j) (Q.mul f row.(j));
          mag.(j) <- mag.(j) +. Float.abs (Q.to_float f) *. Float.abs (Q.to_float row.(j))
        done) basis;
  let exact = Array.for_all (fun x -> Q.sign x = 0) res in
  let scale = Array.fold_left Float.max 0.0 mag in
  let ok = ref true in
  Array.iteri (fun j x -> if Float.abs (Q.to_float x) > rtol *. (mag.(j) +. scale) then ok := false) res;
  (!ok, exact)

let handle_reduce line =
  let lp = Array.of_list (split_str " | " line) in
  if Array.length lp < 11 then failwith ("bad REDUCE line: " ^ line);
  let hdr = List.map kv (split ' ' (String.trim lp.(0))) in
  let id = match split ' ' (String.trim lp.(0)) with _ :: i :: _ -> i | _ -> "?" in
  let r = int_of_string (List.assoc "r" hdr) and n = int_of_string (List.assoc "n" hdr) in
  let fA = fmat lp.(1) and fb = fvec lp.(2) and pi = ivec lp.(3) and qi = ivec lp.(4) and fL = fmat lp.(5) and fU = fmat lp.(6) in
  let rank = int_of_string (String.trim lp.(7)) and ret = int_of_string (String.trim lp.(8)) in
  let fAr = fmat lp.(9) and fbr = fvec lp.(10) in
  incr red_total;
  let c = n + 1 in
  let qA = qmat fA and qb = qvec fb in
  let f = { lu_p = List.map nat_of_int pi; lu_q = List.map nat_of_int qi; lu_L = qmat fL; lu_U = qmat fU; lu_rank = nat_of_int rank } in
  Hashtbl.replace red_ranks rank (1 + (try Hashtbl.find red_ranks rank with Not_found -> 0));
  if List.length fA <> r || List.length fb <> r || List.exists (fun row -> List.length row <> n) fA then failwith "bad REDUCE sizes";
  let finite = List.for_all finite_vec fAr && finite_vec fbr && List.for_all finite_vec fL && List.for_all finite_vec fU in
  if not finite then report "MISMATCH" "reduce-not-finite" id ""
  else if r = 0 then begin
    incr red_empty;
    let (retm, (am, bm)) = reduce_model qA qb (nat_of_int n) f in
    if retm || ret <> 0 || am <> [] || bm <> [] || fAr <> [] || fbr <> [] then
      report "MISMATCH" "reduce-empty" id (Printf.sprintf "model returns %b, library returns %d with %d rows" retm ret (List.length fAr))
  end else begin
    let m = stack qA qb in
    let nr = nat_of_int r and nc = nat_of_int c in
    let nn = min r c in
    (* ---- (a) the oracle's answer is a factorisation of [A|b]^T ---------------------------------------------------- *)
    let exact = lu_valid_b m nr nc f in
    if exact then incr red_exact
    else begin
      let aL = Array.of_list (List.map Array.of_list fL) and aU = Array.of_list (List.map Array.of_list fU) in
      let okshape = Array.length aL = c && Array.for_all (fun row -> Array.length row = nn) aL
                    && Array.length aU = nn && Array.for_all (fun row -> Array.length row = r) aU in
      if not (okshape && perm_b f.lu_p nc && perm_b f.lu_q nr && rank <= nn) then
        report "MISMATCH" "reduce-factorisation" id (Printf.sprintf "shape/permutation/rank: L %dx? U %dx? rank=%d" (Array.length aL) (Array.length aU) rank)
      else begin
        let umax = Array.fold_left (fun s row -> Array.fold_left (fun s x -> Float.max s (fabs x)) s row) 0.0 aU in
        let bad = ref "" in
        for t = 0 to nn - 1 do
          for j = 0 to r - 1 do
            if j < t && aU.(t).(j) <> 0.0 then bad := Printf.sprintf "U(%d,%d)=%h below the diagonal" t j aU.(t).(j);
            if t >= rank && fabs aU.(t).(j) > 1e-12 *. umax then bad := Printf.sprintf "U(%d,%d)=%h in a row beyond the rank %d" t j aU.(t).(j) rank
          done;
          if t < rank && not (fabs aU.(t).(t) > 1e-12 *. umax) then bad := Printf.sprintf "pivot U(%d,%d)=%h" t t aU.(t).(t)
        done;
        for k = 0 to c - 1 do
          for t = 0 to nn - 1 do
            if k = t && aL.(k).(t) <> 1.0 then bad := Printf.sprintf "L(%d,%d)=%h on the diagonal" k t aL.(k).(t);
            if k < t && aL.(k).(t) <> 0.0 then bad := Printf.sprintf "L(%d,%d)=%h above the diagonal" k t aL.(k).(t)
          done
        done;
        let nin = inner_dim nr nc in
        for k = 0 to c - 1 do
          for j = 0 to r - 1 do
            let a = pmq_entry m f (nat_of_int k) (nat_of_int j) and b = lu_entry nin f (nat_of_int k) (nat_of_int j) in
            let mag = ref (fabs (float_of_q a)) in
            for t = 0 to nn - 1 do mag := !mag +. fabs (aL.(k).(t) *. aU.(t).(j)) done;
            let d = fabs (float_of_q (a -/ b)) in
            if d > 1e-12 *. !mag then bad := Printf.sprintf "(P M^T Q)(%d,%d)=%h but (L U)=%h" k j (float_of_q a) (float_of_q b)
          done
        done;
        if !bad <> "" then report "MISMATCH" "reduce-factorisation" id !bad
      end
    end;
    (* ---- (b) the model's assembly against the library's reduced system --------------------------------------------- *)
    let (retm, (am, bm)) = reduce_model qA qb (nat_of_int n) f in
    if rank = r then incr red_full else incr red_reduced;
    if retm <> (ret = 1) then report "MISMATCH" "reduce-returned-flag" id (Printf.sprintf "model=%b impl=%d" retm ret);
    if List.length am <> List.length fAr || List.length bm <> List.length fbr || List.length fAr <> List.length fbr
       || List.exists (fun row -> List.length row <> n) fAr || List.exists (fun row -> List.length row <> n) am then
      report "MISMATCH" "reduce-sizes" id (Printf.sprintf "model %d rows (rank=%d of %d), library %d rows / %d rhs" (List.length am) rank r (List.length fAr) (List.length fbr))
    else begin
      let aL = Array.of_list (List.map Array.of_list fL) and aU = Array.of_list (List.map Array.of_list fU) in
      let pa = Array.of_list pi in
      let mag i col =
        if rank = r then 0.0
        else begin
          let s = ref 0.0 in
          Array.iteri (fun k pk -> if pk = col then
                          for t = 0 to nn - 1 do
                            if k < Array.length aL && t < Array.length aL.(k) && t < Array.length aU && i < Array.length aU.(t) then
                              s := !s +. fabs (aU.(t).(i) *. aL.(k).(t))
                          done) pa;
          !s
        end in
      let cmp what i col a b =
        incr compared;
        let d = qabs (a -/ b) in
        if not (qle d (q_of_float (1e-9 *. mag i col))) then
          report "MISMATCH" what id (Printf.sprintf "row=%d col=%d model=%h impl=%h |diff|=%g summed=%g rank=%d of %d rows" i col (float_of_q a) (float_of_q b) (float_of_q d) (mag i col) rank r) in
      List.iteri (fun i (rm, rl) -> List.iteri (fun col (a, b) -> cmp "reduce-A" i col a (q_of_float b)) (List.combine rm rl)) (List.combine am fAr);
      List.iteri (fun i (a, b) -> cmp "reduce-b" i n a (q_of_float b)) (List.combine bm fbr)
    end;
    (* ---- (c) the theorem's conclusion on the implementation: same solution set (own elimination over Q) ------------ *)
    if List.length fAr = List.length fbr && List.for_all (fun row -> List.length row = n) fAr then begin
      let rows_of a b = List.map2 (fun row t -> Array.of_list (List.map Q.of_float row @ [Q.of_float t])) a b in
      let rm = rows_of fA fb and rr = rows_of fAr fbr in
      let bm_ = echelon_basis rm c and br_ = echelon_basis rr c in
      let exact_rank = List.length bm_ in
      if List.exists (fun (pc, row) -> pc = n && (let z = ref true in Array.iteri (fun j x -> if j < n && Q.sign x <> 0 then z := false) row; !z)) bm_ then incr red_incons;
      if List.length rr <> exact_rank then
        report "PROPFAIL" "reduce-row-count" id (Printf.sprintf "rank[A|b]=%d (exact) but the reduced system has %d rows (of %d; Eigen rank=%d)" exact_rank (List.length rr) r rank);
      let all_exact = ref true in
      let bad = ref "" in
      List.iteri (fun i v -> let (ok, ex) = in_span bm_ v 1e-9 in
                   if not ex then all_exact := false;
                   if not ok && !bad = "" then bad := Printf.sprintf "reduced row %d is not a combination of the rows of [A|b]: some solution of A x = b violates it (or the reduced system is inconsistent while A x = b is not)" i) rr;
      List.iteri (fun i v -> let (ok, ex) = in_span br_ v 1e-9 in
                   if not ex then all_exact := false;
                   if not ok && !bad = "" then begin
                     (* a witness when cheap: the particular solution of the reduced system with free variables 0 *)
                     let x = Array.make n Q.zero in
                     let consistent = not (List.exists (fun (pc, _) -> pc = n) br_) in
                     if consistent then List.iter (fun (pc, row) -> x.(pc) <- row.(n)) br_;
                     let dev = ref Q.zero in
                     for j = 0 to n - 1 do dev := Q.add !dev (Q.mul v.(j) x.(j)) done;
                     let dev = Q.sub !dev v.(n) in
                     bad := Printf.sprintf "row %d of [A|b] is not implied by the reduced system%s" i
                         (if consistent && Float.abs (Q.to_float dev) > 1e-9 then
                            Printf.sprintf ": x=(%s) solves A'x=b' but a_%d.x-b_%d=%g" (String.concat "," (Array.to_list (Array.map (fun t -> Printf.sprintf "%g" (Q.to_float t)) x))) i i (Q.to_float dev)
                          else "")
                   end) rm;
      if !bad <> "" then report "PROPFAIL" "reduce-solution-set" id !bad
      else if !all_exact then incr red_exact_rowspace
    end
  end

let handle_solve line =
  match split_str " = " line with
  | [lhs; rhs] ->
    let lp = Array.of_list (split_str " | " lhs) and rp = Array.of_list (split_str " | " rhs) in
    if Array.length lp < 14 || Array.length rp < 6 then failwith ("bad SOLVE line: " ^ line);
    let hdr = List.map kv (split ' ' (String.trim lp.(0))) in
    let id = match split ' ' (String.trim lp.(0)) with _ :: i :: _ -> i | _ -> "?" in
    let expect = int_of_string (List.assoc "expect" hdr) in
    let fQ = fmat lp.(1) and fc = fvec lp.(2) and fA = fmat lp.(3) and fb = fvec lp.(4) and fG = fmat lp.(5) and fh = fvec lp.(6) in
    let fAr = fmat lp.(7) and fbr = fvec lp.(8) in
    let (dQ, dA, dG) = match fvec lp.(9) with [a; b; c] -> (a, b, c) | _ -> failwith "bad denominators" in
    let fxs = fvec lp.(11) and fus = fvec lp.(12) and fvs = fvec lp.(13) in
    let (status, fx, eta) = match split ' ' (String.trim rp.(0)) with
      | [s; _; fx; _; eta] -> (int_of_string s, parse_float fx, parse_float eta)
      | _ -> failwith "bad state" in
    let x = fvec rp.(1) and u = fvec rp.(2) and v = fvec rp.(3) and rdual = fvec rp.(4) and rprim = fvec rp.(5) in
    incr total;
    let n = List.length fc in
    let user = { pQ = qmat fQ; pc = qvec fc; pA = qmat fA; pb = qvec fb; pG = qmat fG; ph = qvec fh } in
    (* ---- generator sanity: the constructed optimum is an exact KKT point of the program as stated -------------- *)
    if expect = 1 then begin
      let xs = qvec fxs and us = qvec fus and vs = qvec fvs in
      let is0 t = qeq_bool t qz in
      let rp_ = vsub (mv user.pA xs) user.pb and gx = vsub (mv user.pG xs) user.ph in
      let st = List.fold_left (fun acc g -> vadd acc g) (grad user xs)
          [ (match user.pA with [] -> List.map (fun _ -> qz) fc | _ -> mtv (C04_model.dim user) user.pA vs);
            (match user.pG with [] -> List.map (fun _ -> qz) fc | _ -> mtv (C04_model.dim user) user.pG us) ] in
      let ok = List.length xs = n && List.length us = List.length fG && List.length vs = List.length fA
               && List.for_all is0 rp_ && List.for_all (fun t -> qle t qz) gx && List.for_all (fun t -> qle qz t) us
               && List.for_all2 (fun a b -> is0 (a */ b)) us gx && List.for_all is0 st in
      if ok then incr kkt_ok else report "GENBAD" "constructed-optimum-is-not-a-KKT-point" id ""
    end;
    let all_finite = finite_vec x && finite_vec u && finite_vec v && finite_vec rdual && finite_vec rprim
                     && Float.is_finite fx && Float.is_finite eta in
    (* ---- normalisation divisors against the exact squared norms ------------------------------------------------ *)
    let minn2 = !minn */ !minn and tol = q_of_float 1e-12 in
    let red = { user with pA = qmat fAr; pb = qvec fbr } in
    if not (denom_ok minn2 tol (q_of_float dQ) user.pQ user.pc) then report "MISMATCH" "denominator-objective" id (Printf.sprintf "d=%h" dQ);
    if not (denom_ok minn2 tol (q_of_float dA) red.pA red.pb) then report "MISMATCH" "denominator-equalities" id (Printf.sprintf "d=%h" dA);
    if not (denom_ok minn2 tol (q_of_float dG) user.pG user.ph) then report "MISMATCH" "denominator-inequalities" id (Printf.sprintf "d=%h" dG);
    let pn = normalizeP (q_of_float dQ) (q_of_float dA) (q_of_float dG) red in
    let m = List.length fG and p = List.length fAr in
    if finite_vec x && List.length x = n && not (finite_vec u) && m > 0 then begin
      (* solve_with_inequality returned before the first iteration: the start was not strictly feasible *)
      let mg = float_of_q (vmaxc (gxh pn (qvec x))) in
      (* the sign of max(G'x0-h') is rounding when it is below 1e-12 of the summed terms (default starts of size 1e16 occur) *)
      let tg = List.fold_left2 (fun s g h -> Float.max s ((fdot_abs g x +. fabs h) /. dG)) 0.0 fG fh in
      if fabs mg <= 1e-13 +. 1e-12 *. tg then incr ambiguous
      else begin
        incr decisions;
        let dec = start_unfeasible_dec pn (qvec x) in
        if not (dec && status = 3) then
          report "MISMATCH" "start-decision" id (Printf.sprintf "model: start_unfeasible=%b (max(Gx0-h)=%g) impl status=%d with undefined multipliers" dec mg status)
      end
    end
    else if all_finite && List.length x = n && List.length u = m && List.length v = p then begin
      let qx = qvec x and qu = qvec u and qv = qvec v in
      if B.int_of_big_int (sysdim pn) <> List.length x + List.length v then
        report "MISMATCH" "state-sizes" id (Printf.sprintf "model n+p=%d impl |x|+|v|=%d" (B.int_of_big_int (sysdim pn)) (List.length x + List.length v));
      if status = 1 && List.exists (fun t -> t < 0.0) u then incr neg_u;
      (* the invariant of the step-length kernel (C04_step_keeps_positive): the multipliers of every returned state of the
         inequality path are strictly positive (they start at -1/(G x0 - h) > 0 and every accepted step is s0 < 1 of the way
         to the boundary at most) *)
      if m > 0 then begin
        incr u_checked;
        if List.exists (fun t -> not (t > 0.0)) u then
          report "MISMATCH" "u-positive" id (Printf.sprintf "status=%d min(u)=%h: a returned multiplier is not positive" status (List.fold_left Float.min Float.infinity u))
      end;
      let r = recompute pn (q_of_float dQ) qx qu qv (q_of_float eta) (qvec rdual) (qvec rprim) !eps !eps2 in
      (* tolerances: 1e-9 of the summed magnitudes + 1e-12 (the reported numbers may be those of the last trial point
         of a failed line search, a step of rounding size away from the returned point) *)
      let t mag = 1e-9 *. mag +. 1e-12 in
      gating := not (m > 0 && (status = 3 || status = 4));
      stale_now := false;
      let mag_q = if fQ = [] then 0.0 else List.fold_left2 (fun s row xi -> s +. 0.5 *. fabs xi *. fdot_abs row x) 0.0 fQ x in
      let mag_fx = mag_q +. fdot_abs fc x in
      close "fx" id r.r_fx (q_of_float fx) (1e-9 *. mag_fx +. 1e-12 *. dQ);
      let mag_eta = List.fold_left2 (fun s (g, h) ui -> s +. fabs ui *. (fdot_abs g x +. fabs h) /. dG) 0.0 (List.combine fG fh) u in
      close "eta" id r.r_eta (q_of_float eta) (t mag_eta);
      if List.length r.r_rdual <> List.length rdual || List.length r.r_rprim <> List.length rprim then
        report "MISMATCH" "residual-sizes" id (Printf.sprintf "model %d/%d impl %d/%d" (List.length r.r_rdual) (List.length r.r_rprim) (List.length rdual) (List.length rprim))
      else begin
        List.iteri (fun j (a, b) ->
            let mq = (if fQ = [] then 0.0 else fdot_abs (List.nth fQ j) x) +. fabs (List.nth fc j) in
            let ma = safe_dot_abs (col j fAr) v and mg = safe_dot_abs (col j fG) u in
            close (Printf.sprintf "rdual[%d]" j) id a (q_of_float b) (t (mq /. dQ +. ma /. dA +. mg /. dG)))
          (List.combine r.r_rdual rdual);
        List.iteri (fun i (a, b) ->
            let ma = fdot_abs (List.nth fAr i) x +. fabs (List.nth fbr i) in
            close (Printf.sprintf "rprim[%d]" i) id a (q_of_float b) (t (ma /. dA)))
          (List.combine r.r_rprim rprim)
      end;
      if !stale_now then incr stale;
      gating := true;
      (* the decision of done(), re-taken on the reported numbers (inequality path only; a state with defined
         multipliers and one of the three statuses done() assigns) *)
      if m > 0 && (status = 1 || status = 3 || status = 4) then begin
        let nrm l = sqrt (List.fold_left (fun s t -> s +. t *. t) 0.0 l) in
        let near a b = fabs (a -. b) <= 1e-9 *. b in
        let neq = sqrt (Float.max 0.0 (float_of_q (sumsq r.r_rprim))) and mg = float_of_q (vmaxc (gxh pn qx)) in
        (* a comparison with epsilon2 is ambiguous when the two sides differ by less than 0.1% of epsilon2 or by less than
           1e-12 of the magnitude of the summed terms (the implementation evaluates G'x-h' / A'x-b' in doubles: at a point
           of size 1e15 the sign of a cancelling sum is rounding) *)
        let tg = List.fold_left2 (fun s g h -> Float.max s ((fdot_abs g x +. fabs h) /. dG)) 0.0 fG fh in
        let ta = sqrt (List.fold_left2 (fun s a b -> let t = (fdot_abs a x +. fabs b) /. dA in s +. t *. t) 0.0 fAr fbr) in
        let band a terms = fabs (a -. !feps2) <= 1e-3 *. !feps2 +. 1e-12 *. terms in
        if near eta !feps || near (nrm rdual) !feps || near (nrm rprim) !feps || (p > 0 && band neq ta) || band mg tg then incr ambiguous
        else begin
          incr decisions;
          if B.int_of_big_int r.r_status <> status then
            report "MISMATCH" "status-decision" id
              (Printf.sprintf "model=%d impl=%d feasible=%b eta=%g |rdual|=%g |rprim|=%g |A'x-b'|=%g max(G'x-h')=%g"
                 (B.int_of_big_int r.r_status) status r.r_feasible eta (nrm rdual) (nrm rprim) neq mg)
        end
      end;
      (* the feasibility clause of the property, exactly, on the program as stated *)
      if status = 1 then begin
        let inf l = List.fold_left (fun s t -> Float.max s (fabs t)) 0.0 l in
        let ta = q_of_float 1e-6 */ (q_of_int 1 +/ q_of_float (inf fb)) and tg = q_of_float 1e-6 */ (q_of_int 1 +/ q_of_float (inf fh)) in
        (* rows whose deviation is below 2^-44 of their own terms are the defect candidate `converged at a huge point`
           (the harness prints the CAND line), not a failure of the feasibility logic *)
        let r44 = { qnum = B.unit_big_int; qden = B.shift_left_big_int B.unit_big_int 44 } in
        let okrow tol row rhs dev = qle dev tol || qle dev (r44 */ q_of_float (fdot_abs row x +. fabs rhs)) in
        let rec all3 f a b c = match a, b, c with x :: a, y :: b, z :: c -> f x y z && all3 f a b c | _ -> true in
        let okA = all3 (fun row rhs t -> okrow ta row rhs (qabs t)) fA fb (vsub (mv user.pA qx) user.pb)
        and okG = all3 (fun row rhs t -> okrow tg row rhs t) fG fh (vsub (mv user.pG qx) user.ph) in
        if not (okA && okG) then report "PROPFAIL" "feasibility" id (Printf.sprintf "equalities_ok=%b inequalities_ok=%b" okA okG)
      end
    end
  | _ -> failwith ("bad SOLVE line: " ^ line)

let () =
  (try
     while true do
       let line = input_line stdin in
       if String.length line > 6 && String.sub line 0 6 = "CONST " then
         List.iter (fun tok -> match kv tok with
             | ("eps", v) -> feps := parse_float v; eps := q_of_float !feps
             | ("eps2", v) -> feps2 := parse_float v; eps2 := q_of_float !feps2
             | ("minnorm", v) -> minn := q_of_float (parse_float v)
             | _ -> ()) (split ' ' line)
       else if String.length line > 6 && String.sub line 0 6 = "SOLVE " then
         (try handle_solve line with
          | Failure m -> report "MISMATCH" "driver-error" "?" m
          | Invalid_argument m -> report "MISMATCH" "driver-error" "?" (m ^ " :: " ^ String.sub line 0 (min 80 (String.length line)))
          | Not_found -> report "MISMATCH" "driver-error" "?" "Not_found")
       else if String.length line > 7 && String.sub line 0 7 = "REDUCE " then
         (try handle_reduce line with
          | Failure m -> report "MISMATCH" "driver-error" "?" (m ^ " :: " ^ String.sub line 0 (min 80 (String.length line)))
          | Invalid_argument m -> report "MISMATCH" "driver-error" "?" (m ^ " :: " ^ String.sub line 0 (min 80 (String.length line)))
          | Not_found -> report "MISMATCH" "driver-error" "?" ("Not_found :: " ^ String.sub line 0 (min 80 (String.length line))))
     done
   with End_of_file -> ());
  let ranks = String.concat "," (List.sort compare (Hashtbl.fold (fun k v acc -> Printf.sprintf "%d:%d" k v :: acc) red_ranks [])) in
  Printf.printf "MODEL-DONE checked=%d mismatches=%d compared=%d decisions=%d ambiguous=%d kkt_verified=%d stale_states=%d converged_with_negative_u=%d returned_states_u_checked=%d reduce_systems_checked=%d reduce_exact_factorisations=%d reduce_rows_removed=%d reduce_full_rank=%d reduce_empty=%d reduce_inconsistent=%d reduce_exact_rowspace=%d reduce_ranks=%s\n"
    !total !mism !compared !decisions !ambiguous !kkt_ok !stale !neg_u !u_checked !red_total !red_exact !red_reduced !red_full !red_empty !red_incons !red_exact_rowspace
    (if ranks = "" then "-" else ranks)
